// Package ref holds the reference models. None of them imports the package it judges.
package ref

// Complement returns the complement of a base over aAcCgGtTnN, ok=false otherwise.
func Complement(b byte) (byte, bool) {
	switch b {
	case 'a':
		return 't', true
	case 'A':
		return 'T', true
	case 'c':
		return 'g', true
	case 'C':
		return 'G', true
	case 'g':
		return 'c', true
	case 'G':
		return 'C', true
	case 't':
		return 'a', true
	case 'T':
		return 'A', true
	case 'n':
		return 'n', true
	case 'N':
		return 'N', true
	}
	return 0, false
}

// RevComp returns the reverse complement, ok=false if a byte is outside the alphabet.
func RevComp(s []byte) ([]byte, bool) {
	out := make([]byte, len(s))
	for i := range s {
		c, ok := Complement(s[i])
		if !ok {
			return nil, false
		}
		out[len(s)-1-i] = c
	}
	return out, true
}

// BaseCode is A=0 C=1 G=2 T=3 in either case, -1 otherwise.
func BaseCode(b byte) int {
	switch b {
	case 'a', 'A':
		return 0
	case 'c', 'C':
		return 1
	case 'g', 'G':
		return 2
	case 't', 'T':
		return 3
	}
	return -1
}

// Pack2Bit packs a DNA string, first base in the most significant bits.
func Pack2Bit(s []byte) ([]byte, bool) {
	out := make([]byte, (len(s)+3)/4)
	for i, b := range s {
		c := BaseCode(b)
		if c < 0 {
			return nil, false
		}
		out[i/4] |= byte(c) << uint(2*(3-i%4))
	}
	return out, true
}

// Unpack2Bit expands packed bytes to ACGT.
func Unpack2Bit(p []byte) []byte {
	out := make([]byte, 0, 4*len(p))
	for _, b := range p {
		for j := 3; j >= 0; j-- {
			out = append(out, "ACGT"[(b>>uint(2*j))&3])
		}
	}
	return out
}

// NCBI translation table 1, codons in TCAG order (first base slowest).
const ncbiTable1 = "FFLLSSSSYY**CC*WLLLLPPPPHHQQRRRRIIIMTTTTNNKKSSRRVVVVAAAADDEEGGGG"

func tcag(b byte) int {
	switch b {
	case 't', 'T':
		return 0
	case 'c', 'C':
		return 1
	case 'a', 'A':
		return 2
	case 'g', 'G':
		return 3
	}
	return -1
}

// TranslateCodon returns the amino acid of one codon under the standard code.
func TranslateCodon(a, b, c byte) (byte, bool) {
	x, y, z := tcag(a), tcag(b), tcag(c)
	if x < 0 || y < 0 || z < 0 {
		return 0, false
	}
	return ncbiTable1[16*x+4*y+z], true
}

// Translate translates a sequence whose length is a multiple of 3.
func Translate(s []byte) ([]byte, bool) {
	if len(s)%3 != 0 {
		return nil, false
	}
	out := make([]byte, 0, len(s)/3)
	for i := 0; i < len(s); i += 3 {
		aa, ok := TranslateCodon(s[i], s[i+1], s[i+2])
		if !ok {
			return nil, false
		}
		out = append(out, aa)
	}
	return out, true
}
