package props

import (
	"context"
	"fmt"
	"math"
	"os"
	"os/exec"
	"path/filepath"
	"slices"
	"strings"
	"sync"
	"time"

	"github.com/fluhus/biostuff/regions"

	"verif/mc/engine/core"
	"verif/mc/engine/enum"
)

func init() {
	register("C16", "exploration", runC16)
	Hidden["race-C16"] = raceBodyC16
}

// Hidden holds bodies that are run free-running in a -race build (mc __hidden <name>).
var Hidden = map[string]func() int{}

type c16List struct {
	Starts []int `json:"starts"`
	Ends   []int `json:"ends"`
}

type c16Hist struct {
	Starts []int    `json:"starts"`
	Ends   []int    `json:"ends"`
	Ops    []string `json:"ops"` // "at:<i>", "mutate-results", "mutate-inputs"
}

type c16Len struct {
	NS   int    `json:"len_starts"`
	NE   int    `json:"len_ends"`
	RepS string `json:"starts_as,omitempty"` // how the slice is represented: nil, empty (non-nil, length 0), exact, spare (capacity beyond the length, filled with values)
	RepE string `json:"ends_as,omitempty"`
}

// c16Slice builds a slice of n values v in the given representation ("" = exact).
func c16Slice(n int, rep string, v int) ([]int, bool) {
	switch rep {
	case "nil":
		return nil, n == 0
	case "empty":
		return []int{}, n == 0
	case "spare":
		b := make([]int, n+4)
		for i := range b {
			b[i] = v
		}
		return b[:n], true
	}
	b := make([]int, n)
	for i := range b {
		b[i] = v
	}
	return b, n > 0
}

type c16Race struct {
	Kind string `json:"kind"`
}

func bruteAt(starts, ends []int, i int) []int {
	var out []int
	for x := range starts {
		if starts[x] <= i && i < ends[x] {
			out = append(out, x)
		}
	}
	return out
}

func positionsFor(starts, ends []int) []int {
	set := map[int]struct{}{math.MinInt: {}, math.MaxInt: {}, 0: {}}
	add := func(v int) {
		set[v] = struct{}{}
		if v > math.MinInt {
			set[v-1] = struct{}{}
		}
		if v < math.MaxInt {
			set[v+1] = struct{}{}
		}
	}
	for _, v := range starts {
		add(v)
	}
	for _, v := range ends {
		add(v)
	}
	out := make([]int, 0, len(set))
	for v := range set {
		out = append(out, v)
	}
	slices.Sort(out)
	return out
}

func checkIndexAnswers(idx *regions.Index, starts, ends []int, what string) string {
	for _, i := range positionsFor(starts, ends) {
		got := idx.At(i)
		want := bruteAt(starts, ends, i)
		if len(want) == 0 {
			if len(got) != 0 {
				return fmt.Sprintf("%sAt(%d) = %v, but no interval covers %d (starts %v ends %v)", what, i, got, i, starts, ends)
			}
			continue
		}
		if !slices.Equal(got, want) {
			return fmt.Sprintf("%sAt(%d) = %v, want %v (starts %v ends %v)", what, i, got, want, starts, ends)
		}
	}
	return ""
}

func listsOver(coords []int, maxLen int, f func(starts, ends []int) bool) {
	var kinds [][2]int
	for _, s := range coords {
		for _, e := range coords {
			kinds = append(kinds, [2]int{s, e})
		}
	}
	enum.Sequences(len(kinds), maxLen, func(sq []int) bool {
		st := make([]int, len(sq))
		en := make([]int, len(sq))
		for i, k := range sq {
			st[i], en[i] = kinds[k][0], kinds[k][1]
		}
		return f(st, en)
	})
}

func runC16(r *core.Run) {
	// The schedule exploration runs first: it owns every interleaving of concurrent At calls, so a
	// change that makes them disturb or block each other is reported here with its schedule, and the
	// clauses that follow - which are about what ONE caller sees - then run one case at a time instead
	// of meeting the same disturbance (or a real deadlock) among the harness's own workers.
	if c16Schedules(r) {
		r.OneWorkerFromNow()
	}
	firstCallClause(r, "regions")
	N := core.Pick(r, 3, 6)
	r.Bound("lists", fmt.Sprintf("all ordered lists of 0..%d intervals with start,end in {-1,0,1,2}; all lists of 0..2 intervals over {MinInt,-1,0,1,MaxInt}; every position = each coordinate, +-1, 0, MinInt, MaxInt", N))
	checkList := func(c c16List) core.Outcome {
		starts, ends := slices.Clone(c.Starts), slices.Clone(c.Ends)
		var fail string
		if p := catch(func() {
			idx := regions.NewIndex(starts, ends)
			fail = checkIndexAnswers(idx, c.Starts, c.Ends, "")
		}); p != "" {
			return core.Failf("NewIndex(%v,%v)/At panicked: %s", c.Starts, c.Ends, p)
		}
		if fail != "" {
			return core.Failf("%s", fail)
		}
		if !slices.Equal(starts, c.Starts) || !slices.Equal(ends, c.Ends) {
			return core.Failf("NewIndex modified its arguments")
		}
		degenerate := 0
		for i := range starts {
			if starts[i] >= ends[i] {
				degenerate++
			}
		}
		cl := "proper-only"
		if degenerate > 0 && degenerate < len(starts) {
			cl = "mixed"
		} else if degenerate > 0 {
			cl = "degenerate-only"
		}
		return core.Outcome{Class: cl, Nontrivial: len(starts) >= 1, Evals: len(positionsFor(starts, ends))}
	}
	core.Clause(r, "all-lists", core.Opts{Rule: "every ordered list of intervals over the coordinate set (so empty, inverted, duplicate, nested and touching intervals occur in every combination) x every probe position, vs a brute-force scan; non-trivial = at least one interval"},
		func(emit func(c16List) bool) {
			listsOver([]int{-1, 0, 1, 2}, N, func(s, e []int) bool { return emit(c16List{slices.Clone(s), slices.Clone(e)}) })
		}, checkList)
	core.Clause(r, "extreme-coordinates", core.Opts{Rule: "every list of <= 2 intervals over {MinInt64,-1,0,1,MaxInt64}; non-trivial = at least one interval"},
		func(emit func(c16List) bool) {
			listsOver([]int{math.MinInt, -1, 0, 1, math.MaxInt}, 2, func(s, e []int) bool { return emit(c16List{slices.Clone(s), slices.Clone(e)}) })
		}, checkList)

	core.Clause(r, "large-lists", core.Opts{Rule: "deterministic families of n intervals for EVERY n in 0..130 and {200,255,256,257,1000}: nested, staggered, duplicated, touching, reversed input order, with empty/inverted ones mixed in; every breakpoint and its neighbours queried; non-trivial = all"},
		func(emit func(c16List) bool) {
			var ns []int
			for n := 0; n <= 130; n++ {
				ns = append(ns, n)
			}
			for _, n := range append(ns, 200, 255, 256, 257, 1000) {
				for fam := 0; fam < 6; fam++ {
					st, en := make([]int, n), make([]int, n)
					for i := 0; i < n; i++ {
						switch fam {
						case 0: // nested
							st[i], en[i] = i, 2*n-i
						case 1: // staggered
							st[i], en[i] = 3*i, 3*i+7
						case 2: // duplicates and touching
							st[i], en[i] = (i/3)*5, (i/3)*5+5
						case 3: // reverse order, every 4th empty or inverted
							st[i], en[i] = 2*(n-i), 2*(n-i)+3-(i%4)*2
						case 4: // pseudo-random but fixed
							st[i], en[i] = (i*7919)%(2*n)-n, (i*7919)%(2*n)-n+(i*104729)%17-3
						case 5: // all share one start
							st[i], en[i] = 0, i%9
						}
					}
					if !emit(c16List{st, en}) {
						return
					}
				}
			}
		}, checkList)

	core.Clause(r, "length-mismatch", core.Opts{Rule: "all (len starts, len ends) in 0..3 x 0..3, each list in every representation of that length (nil, empty non-nil, exact, with spare capacity holding plausible values): NewIndex panics iff the lengths differ, and with equal lengths answers like the brute-force scan; non-trivial = all"},
		func(emit func(c16Len) bool) {
			for a := 0; a <= 3; a++ {
				for b := 0; b <= 3; b++ {
					for _, ra := range []string{"nil", "empty", "exact", "spare"} {
						for _, rb := range []string{"nil", "empty", "exact", "spare"} {
							_, oka := c16Slice(a, ra, 0)
							_, okb := c16Slice(b, rb, 0)
							if oka && okb {
								emit(c16Len{a, b, ra, rb})
							}
						}
					}
				}
			}
		},
		func(c c16Len) core.Outcome {
			starts, _ := c16Slice(c.NS, c.RepS, 0)
			ends, _ := c16Slice(c.NE, c.RepE, 5)
			var idx *regions.Index
			p := catch(func() { idx = regions.NewIndex(starts, ends) })
			if c.NS != c.NE && p == "" {
				return core.Failf("NewIndex with %d starts (%s) and %d ends (%s) did not panic", c.NS, c.RepS, c.NE, c.RepE)
			}
			if c.NS == c.NE && p != "" {
				return core.Failf("NewIndex with equal lengths %d (starts %s, ends %s) panicked: %s", c.NS, c.RepS, c.RepE, p)
			}
			if c.NS == c.NE {
				for i := -1; i <= 6; i++ {
					var got []int
					if p := catch(func() { got = idx.At(i) }); p != "" {
						return core.Failf("%d intervals [0,5) (starts %s, ends %s): At(%d) panicked: %s", c.NS, c.RepS, c.RepE, i, p)
					}
					if want := bruteAt(starts, ends, i); !(len(got) == 0 && len(want) == 0) && !slices.Equal(got, want) {
						return core.Failf("%d intervals [0,5) (starts %s, ends %s): At(%d) = %v, want %v", c.NS, c.RepS, c.RepE, i, got, want)
					}
				}
			}
			return core.OK(fmt.Sprint("panic=", p != ""), true)
		})

	depth := core.Pick(r, 3, 5)
	ops := []string{"at:-1", "at:0", "at:1", "at:2", "at:3", "mutate-results", "mutate-inputs"}
	r.Bound("histories", fmt.Sprintf("every operation sequence of length 1..%d over %v on every index of 0..2 intervals over {0,1,2}", depth, ops))
	core.Clause(r, "read-only-histories", core.Opts{Rule: "every sequence of operations {At(i), overwrite+append to every slice returned so far, overwrite the slices passed to NewIndex} up to the depth on every small index; after every operation the complete answer vector equals the brute-force answers for the ORIGINAL intervals and earlier results are unchanged by later At calls; non-trivial = sequence contains a mutation followed by a query"},
		func(emit func(c16Hist) bool) {
			listsOver([]int{0, 1, 2}, 2, func(s, e []int) bool {
				return enum.Sequences(len(ops), depth, func(sq []int) bool {
					if len(sq) == 0 {
						return true
					}
					o := make([]string, len(sq))
					for i, x := range sq {
						o[i] = ops[x]
					}
					return emit(c16Hist{slices.Clone(s), slices.Clone(e), o})
				})
			})
		},
		func(c c16Hist) core.Outcome {
			starts, ends := slices.Clone(c.Starts), slices.Clone(c.Ends)
			var fail string
			nontrivial := false
			p := catch(func() {
				idx := regions.NewIndex(starts, ends)
				type held struct {
					live []int // slice as returned (we may mutate it)
					copy []int // content at return time
					pos  int
					dirt bool
				}
				var results []*held
				mutated := false
				for step, op := range c.Ops {
					switch {
					case strings.HasPrefix(op, "at:"):
						var i int
						fmt.Sscanf(op, "at:%d", &i)
						got := idx.At(i)
						want := bruteAt(c.Starts, c.Ends, i)
						if !(len(want) == 0 && len(got) == 0) && !slices.Equal(got, want) {
							fail = fmt.Sprintf("step %d %s = %v, want %v", step, op, got, want)
							return
						}
						for _, h := range results {
							if !h.dirt && !slices.Equal(h.live, h.copy) {
								fail = fmt.Sprintf("step %d %s changed the slice returned earlier by At(%d): %v -> %v", step, op, h.pos, h.copy, h.live)
								return
							}
						}
						results = append(results, &held{got, slices.Clone(got), i, false})
						if mutated {
							nontrivial = true
						}
					case op == "mutate-results":
						for _, h := range results {
							for j := range h.live {
								h.live[j] = -7
							}
							if cap(h.live) > len(h.live) {
								ext := h.live[:cap(h.live)]
								for j := len(h.live); j < len(ext); j++ {
									ext[j] = -9
								}
							}
							h.live = append(h.live, 5)
							h.dirt = true
						}
						mutated = mutated || len(results) > 0
					case op == "mutate-inputs":
						for j := range starts {
							starts[j] += 10
							ends[j] -= 10
						}
						mutated = mutated || len(starts) > 0
					}
					if f := checkIndexAnswers(idx, c.Starts, c.Ends, fmt.Sprintf("after step %d (%s): ", step, op)); f != "" {
						fail = f
						return
					}
				}
			})
			if p != "" {
				return core.Failf("panic: %s", p)
			}
			if fail != "" {
				return core.Failf("%s", fail)
			}
			return core.Outcome{Class: fmt.Sprint("mutation-then-query=", nontrivial), Nontrivial: nontrivial, Evals: len(c.Ops)}
		})

	type memCase struct {
		Starts []int  `json:"starts"`
		Ends   []int  `json:"ends"`
		Layout string `json:"layout"`
	}
	memLayouts := []string{"starts-with-spare-capacity", "both-with-spare-capacity", "one-buffer-starts-then-ends", "one-buffer-ends-then-starts", "one-buffer-with-a-gap", "starts-reused-with-[:0]-append"}
	r.Bound("caller-memory", fmt.Sprintf("every list of 1..3 intervals over {0,1,2,3} x %d memory layouts of the two argument slices (spare capacity behind starts, behind both, both cut from one allocation in either order, with a gap, filled by append into a reused buffer)", len(memLayouts)))
	core.Clause(r, "caller-memory", core.Opts{Rule: "where and how the caller allocated starts and ends plays no role: the index answers for the values passed, and the two lists still hold them afterwards (an append to an argument lands in the caller's memory: in the other list, or in whatever lies behind); non-trivial = at least 2 intervals"},
		func(emit func(memCase) bool) {
			listsOver([]int{0, 1, 2, 3}, 3, func(st, en []int) bool {
				if len(st) == 0 {
					return true
				}
				for _, l := range memLayouts {
					if !emit(memCase{slices.Clone(st), slices.Clone(en), l}) {
						return false
					}
				}
				return true
			})
		},
		func(c memCase) core.Outcome {
			n := len(c.Starts)
			var starts, ends []int
			switch c.Layout {
			case "starts-with-spare-capacity":
				buf := make([]int, 3*n+2)
				for i := range buf {
					buf[i] = -77
				}
				starts = buf[:n]
				copy(starts, c.Starts)
				ends = slices.Clone(c.Ends)
			case "both-with-spare-capacity":
				b1, b2 := make([]int, 3*n+2), make([]int, 3*n+2)
				starts, ends = b1[:n], b2[:n]
				copy(starts, c.Starts)
				copy(ends, c.Ends)
			case "one-buffer-starts-then-ends":
				buf := make([]int, 2*n, 4*n+2)
				starts, ends = buf[:n], buf[n:2*n]
				copy(starts, c.Starts)
				copy(ends, c.Ends)
			case "one-buffer-ends-then-starts":
				buf := make([]int, 2*n, 4*n+2)
				ends, starts = buf[:n], buf[n:2*n]
				copy(starts, c.Starts)
				copy(ends, c.Ends)
			case "one-buffer-with-a-gap":
				buf := make([]int, 2*n+1, 4*n+2)
				buf[n] = -77
				starts, ends = buf[:n], buf[n+1:2*n+1]
				copy(starts, c.Starts)
				copy(ends, c.Ends)
			default: // a reused buffer refilled by append
				buf := make([]int, 0, 4*n+2)
				buf = append(buf, 9, 9, 9, 9, 9, 9, 9)
				starts = buf[:0]
				for _, v := range c.Starts {
					starts = append(starts, v)
				}
				ends = slices.Clone(c.Ends)
			}
			var fail string
			p := catch(func() {
				idx := regions.NewIndex(starts, ends)
				if !slices.Equal(starts, c.Starts) || !slices.Equal(ends, c.Ends) {
					fail = fmt.Sprintf("NewIndex changed its arguments: starts %v -> %v, ends %v -> %v", c.Starts, starts, c.Ends, ends)
					return
				}
				fail = checkIndexAnswers(idx, c.Starts, c.Ends, "")
			})
			if p != "" {
				return core.Failf("layout %s, starts %v ends %v: panic: %s", c.Layout, c.Starts, c.Ends, p)
			}
			if fail != "" {
				return core.Failf("layout %s: %s", c.Layout, fail)
			}
			return core.Outcome{Class: c.Layout, Nontrivial: n >= 2, Evals: 2}
		})

	type twoIdx struct {
		StartsA []int `json:"starts_a"`
		EndsA   []int `json:"ends_a"`
		StartsB []int `json:"starts_b"`
		EndsB   []int `json:"ends_b"`
	}
	core.Clause(r, "two-indexes-alive", core.Opts{Rule: "index A is built and queried, then index B is built (and a third one), then A is queried again, B is queried, A once more: every answer of every index is the brute-force answer for ITS intervals (an index must own what it points to: pooled or reused storage handed back at the end of NewIndex shows here); every ordered pair of lists of 0..2 intervals over {0,1,2,3} plus 4 longer lists; non-trivial = both non-empty"},
		func(emit func(twoIdx) bool) {
			type lst struct{ s, e []int }
			var lists []lst
			listsOver([]int{0, 1, 2, 3}, 2, func(s, e []int) bool {
				lists = append(lists, lst{slices.Clone(s), slices.Clone(e)})
				return true
			})
			lists = append(lists, lst{[]int{0, 0, 0, 0, 0, 0}, []int{6, 5, 4, 3, 2, 1}}, lst{[]int{5, 4, 3, 2, 1, 0}, []int{6, 6, 6, 6, 6, 6}},
				lst{[]int{0, 2, 4, 6, 8, 10, 12, 14}, []int{3, 5, 7, 9, 11, 13, 15, 17}}, lst{[]int{1, 1, 1}, []int{9, 9, 9}})
			for _, a := range lists {
				for _, b := range lists {
					if !emit(twoIdx{a.s, a.e, b.s, b.e}) {
						return
					}
				}
			}
		},
		func(c twoIdx) core.Outcome {
			var fail string
			p := catch(func() {
				a := regions.NewIndex(slices.Clone(c.StartsA), slices.Clone(c.EndsA))
				if fail = checkIndexAnswers(a, c.StartsA, c.EndsA, "index A alone: "); fail != "" {
					return
				}
				b := regions.NewIndex(slices.Clone(c.StartsB), slices.Clone(c.EndsB))
				third := regions.NewIndex([]int{7, 7, 7, 7}, []int{9, 9, 9, 9})
				if fail = checkIndexAnswers(a, c.StartsA, c.EndsA, fmt.Sprintf("index A after index B (starts %v ends %v) and a third one were built: ", c.StartsB, c.EndsB)); fail != "" {
					return
				}
				if fail = checkIndexAnswers(b, c.StartsB, c.EndsB, "index B: "); fail != "" {
					return
				}
				if fail = checkIndexAnswers(third, []int{7, 7, 7, 7}, []int{9, 9, 9, 9}, "third index: "); fail != "" {
					return
				}
				fail = checkIndexAnswers(a, c.StartsA, c.EndsA, "index A at the end: ")
			})
			if p != "" {
				return core.Failf("panic: %s", p)
			}
			if fail != "" {
				return core.Failf("%s", fail)
			}
			return core.Outcome{Class: "ok", Nontrivial: len(c.StartsA) > 0 && len(c.StartsB) > 0, Evals: 5}
		})

	type qCase struct {
		Starts  []int `json:"starts"`
		Ends    []int `json:"ends"`
		Queries []int `json:"query_positions"`
	}
	qn := core.Pick(r, 4, 5)
	r.Bound("query-orders", fmt.Sprintf("every list of 3..%d proper intervals (start < end) over the coordinates 0..4 x every sequence of 1..3 query positions over 0..4, followed by a descending and an ascending scan of all positions", qn))
	core.Clause(r, "query-orders", core.Opts{Rule: "At is a pure query: on ONE index, whatever positions were asked before and in whatever order (a position again after another one, descending, ascending), every answer equals the brute-force answer for the original intervals; an index that organises itself lazily on first lookup shows here; non-trivial = at least 2 queries"},
		func(emit func(qCase) bool) {
			var kinds [][2]int
			for s := 0; s <= 4; s++ {
				for e := s + 1; e <= 4; e++ {
					kinds = append(kinds, [2]int{s, e})
				}
			}
			for n := 3; n <= qn; n++ {
				sizes := make([]int, n)
				for i := range sizes {
					sizes[i] = len(kinds)
				}
				ok := enum.Tuples(sizes, func(t []int) bool {
					st, en := make([]int, n), make([]int, n)
					for i, k := range t {
						st[i], en[i] = kinds[k][0], kinds[k][1]
					}
					return enum.Sequences(5, 3, func(q []int) bool {
						if len(q) == 0 {
							return true
						}
						return emit(qCase{st, en, slices.Clone(q)})
					})
				})
				if !ok {
					return
				}
			}
		},
		func(c qCase) core.Outcome {
			starts, ends := slices.Clone(c.Starts), slices.Clone(c.Ends)
			var fail string
			p := catch(func() {
				idx := regions.NewIndex(starts, ends)
				ask := func(i int, when string) bool {
					got, want := idx.At(i), bruteAt(c.Starts, c.Ends, i)
					if !(len(got) == 0 && len(want) == 0) && !slices.Equal(got, want) {
						fail = fmt.Sprintf("starts %v ends %v: after the queries %v, %s At(%d) = %v, want %v", c.Starts, c.Ends, c.Queries, when, i, got, want)
						return false
					}
					return true
				}
				for k, q := range c.Queries {
					if !ask(q, fmt.Sprintf("query %d:", k+1)) {
						return
					}
				}
				for i := 5; i >= -1; i-- {
					if !ask(i, "descending scan:") {
						return
					}
				}
				for i := -1; i <= 5; i++ {
					if !ask(i, "ascending scan:") {
						return
					}
				}
			})
			if p != "" {
				return core.Failf("panic: %s", p)
			}
			if fail != "" {
				return core.Failf("%s", fail)
			}
			return core.Outcome{Class: fmt.Sprint("intervals=", len(c.Starts)), Nontrivial: len(c.Queries) >= 2, Evals: len(c.Queries) + 14}
		})

	core.Clause(r, "race-detector-pass", core.Opts{Serial: true, Rule: "NOT an enumeration: the same harness body (8 goroutines calling At on every position of every index of <= 2 intervals over {0,1,2}, mutating what they get back) run free-running in a separate -race build; a detector pass, reported as such"},
		func(emit func(c16Race) bool) { emit(c16Race{"free-running -race build"}) },
		func(c c16Race) core.Outcome {
			out, code, err := runHidden(r, "race-C16", true)
			if err != nil {
				r.HarnessError("race pass could not be built or run: %v\n%s", err, out)
				return core.OK("harness-error", false)
			}
			if code != 0 {
				return core.Failf("free-running -race pass exited %d:\n%s", code, tailLines(out, 40))
			}
			return core.Outcome{Class: "clean", Nontrivial: true, Evals: 91 * 8}
		})
}

func tailLines(s string, n int) string {
	l := strings.Split(strings.TrimRight(s, "\n"), "\n")
	if len(l) > n {
		l = l[len(l)-n:]
	}
	return strings.Join(l, "\n")
}

// runHidden builds mc (optionally with -race) from the current /repo and runs a hidden body.
func runHidden(r *core.Run, name string, race bool) (string, int, error) {
	bin := filepath.Join(r.Root, "bin", fmt.Sprintf("mc-hidden.%d", os.Getpid()))
	defer os.Remove(bin)
	args := []string{"build", "-tags", "verif"}
	if race {
		args = append(args, "-race")
	}
	if ov := os.Getenv("VERIF_OVERLAY"); ov != "" {
		args = append(args, "-overlay", ov)
	}
	args = append(args, "-o", bin, "./cmd/mc")
	cmd := exec.Command("go", args...)
	cmd.Dir = filepath.Join(r.Root, "mc")
	if b, err := cmd.CombinedOutput(); err != nil {
		return string(b), -1, fmt.Errorf("go build: %v", err)
	}
	ctx, cancel := context.WithTimeout(context.Background(), 4*time.Minute)
	defer cancel()
	run := exec.CommandContext(ctx, bin, "__hidden", name)
	run.Env = append(os.Environ(), "GORACE=halt_on_error=0 exitcode=66")
	b, err := run.CombinedOutput()
	if ctx.Err() != nil {
		// a free-running body takes seconds; one that is still going after minutes is blocked
		return string(b) + "\nthe free-running pass did not finish within 4 minutes: the concurrent calls block each other forever (or spin)\n", 99, nil
	}
	if err != nil {
		if ee, ok := err.(*exec.ExitError); ok {
			return string(b), ee.ExitCode(), nil
		}
		return string(b), -1, err
	}
	return string(b), 0, nil
}

func raceBodyC16() int {
	bad := 0
	listsOver([]int{0, 1, 2}, 2, func(s, e []int) bool {
		starts, ends := slices.Clone(s), slices.Clone(e)
		idx := regions.NewIndex(starts, ends)
		var wg sync.WaitGroup
		var mu sync.Mutex
		for g := 0; g < 8; g++ {
			wg.Add(1)
			go func(g int) {
				defer wg.Done()
				for rep := 0; rep < 20; rep++ {
					for i := -1; i <= 3; i++ {
						got := idx.At(i)
						want := bruteAt(starts, ends, i)
						if !(len(got) == 0 && len(want) == 0) && !slices.Equal(got, want) {
							mu.Lock()
							bad++
							fmt.Printf("concurrent At(%d) = %v, want %v (starts %v ends %v)\n", i, got, want, starts, ends)
							mu.Unlock()
						}
						for j := range got {
							got[j] = -g
						}
					}
				}
			}(g)
		}
		wg.Wait()
		return true
	})
	if bad > 0 {
		return 1
	}
	return 0
}
