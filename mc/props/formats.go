package props

import (
	"bytes"
	"fmt"
	"io"
	"strings"
	"sync"

	"github.com/fluhus/biostuff/formats/bed"
	"github.com/fluhus/biostuff/formats/fasta"
	"github.com/fluhus/biostuff/formats/fastq"
	"github.com/fluhus/biostuff/formats/newick"
	"github.com/fluhus/biostuff/formats/sam"
)

// formatDef describes one decoder for the environment-driven checks (C06, C07, C11, C18).
type formatDef struct {
	Name        string
	Alphabet    string // token alphabet for "arbitrary" inputs
	Read        func(r io.Reader, horizon int) ([]obsItem, string, bool)
	File        func(path string, horizon int) ([]obsItem, string, bool)
	ErrorIsLast bool // an error item ends the iteration (all formats except SAM)
}

var formats = []formatDef{
	{"fasta", ">A\n\r ", func(r io.Reader, h int) ([]obsItem, string, bool) { return collect2(fasta.Reader(r), renderFasta, h) },
		func(p string, h int) ([]obsItem, string, bool) { return collect2(fasta.File(p), renderFasta, h) }, true},
	{"fastq", "@+A\n\r", func(r io.Reader, h int) ([]obsItem, string, bool) { return collect2(fastq.Reader(r), renderFastq, h) },
		func(p string, h int) ([]obsItem, string, bool) { return collect2(fastq.File(p), renderFastq, h) }, true},
	{"sam", "\t0a@\"\n", func(r io.Reader, h int) ([]obsItem, string, bool) { return collect2(sam.Reader(r), renderSAM, h) },
		func(p string, h int) ([]obsItem, string, bool) { return collect2(sam.File(p), renderSAM, h) }, false},
	{"samh", "\t0a@\"\n", func(r io.Reader, h int) ([]obsItem, string, bool) {
		return collect2(sam.ReaderHeader(r), renderSAMOrHeader, h)
	},
		func(p string, h int) ([]obsItem, string, bool) {
			return collect2(sam.FileHeader(p), renderSAMOrHeader, h)
		}, false},
	{"bed", "\t0a#\"\n", func(r io.Reader, h int) ([]obsItem, string, bool) { return collect2(bed.Reader(r), renderBED, h) },
		func(p string, h int) ([]obsItem, string, bool) { return collect2(bed.File(p), renderBED, h) }, true},
	{"newick", "(),:;'a1 ", func(r io.Reader, h int) ([]obsItem, string, bool) { return collect2(newick.Reader(r), renderNewick, h) },
		func(p string, h int) ([]obsItem, string, bool) { return collect2(newick.File(p), renderNewick, h) }, true},
}

func formatByName(n string) formatDef {
	for _, f := range formats {
		if f.Name == n {
			return f
		}
	}
	panic("unknown format " + n)
}

// refRead is the reference run: the whole input in one bytes.Reader.
func refRead(f formatDef, data []byte) ([]obsItem, string) {
	items, p, over := f.Read(bytes.NewReader(data), 1<<20)
	if over {
		p = "iterator did not end"
	}
	return items, p
}

const samLine = "%s\t%d\tchr1\t%d\t60\t4M\t=\t%d\t0\tACGT\t%s"

// corpus returns the well-formed inputs of a format: size = "small" (8-14 bytes, LF only),
// "medium" (40-200 bytes), "large" (one file of about 9 KiB crossing the 4096-byte buffers twice),
// "longline" (a line of 5000+ bytes), "vocab" (placeholder tokens at the start of every text field), "ext" (standard syntax the library does not support).
func corpus(format, size string) [][]byte {
	corpusMu.Lock()
	defer corpusMu.Unlock()
	if c, ok := corpusCache[format+"/"+size]; ok {
		return c
	}
	c := buildCorpus(format, size)
	corpusCache[format+"/"+size] = c
	return c
}

var (
	corpusMu    sync.Mutex
	corpusCache = map[string][][]byte{}
)

func buildCorpus(format, size string) [][]byte {
	var out []string
	switch format + "/" + size {
	case "fasta/small":
		out = []string{">a\nAC\n", ">a\nAC\nGT\n", ">a\n>b\nA\n", "AC\n>b\nG\n", ">a b\nA\n\nC\n", ">\n\nAC", ">a\nA\n>\nC\n", ">ab\nACGT\n", ">a\nAC\n>b\nG", ">>\nA\n>a>\nC\n", ">a\n\n>b\nAAC\n", ">a\nA\nC\nG\nT\n"}
	case "fasta/medium":
		out = []string{">seq1 first\nACGTACGTAC\nGGGTTT\n>seq2\n\nAC\n\n>seq3 x\nTTTTTTTT\nAA\n", ">only\n" + strings.Repeat("ACGT", 25) + "\n" + strings.Repeat("T", 37) + "\n",
			strings.Repeat("NNNN\n", 9) + ">b\nA\n", ">a\n>b\n>c\n>d\nACGT\n>e\n>f\nA\n>g\nAC\n>h\nT\n"}
	case "fasta/large":
		var sb strings.Builder
		for i := 0; sb.Len() < 9000; i++ {
			fmt.Fprintf(&sb, ">record%d description %d\n", i, i*i)
			seq := string(longSeq(37 + 53*i%400))
			for j := 0; j < len(seq); j += 60 {
				sb.WriteString(seq[j:min(j+60, len(seq))] + "\n")
			}
		}
		out = []string{sb.String()}
	case "fastq/small":
		out = []string{"@a\nA\n+\nI\n", "@a\nAC\n+\nII\n", "@\n\n+\n\n", "@a\nA\n+a\nI\n", "@a\nA\n+\nI", "@@\n@\n+\n+\n", "@a\n+\n+\n+\n", "@ab\nACG\n+\nIII\n", "@a\nAA\n+\n@@\n", "@a b\nA\n+\nI\n", "@x\nC\n+x\n!\n", "@a\nT\n+\n~\n"}
	case "fastq/medium":
		out = []string{"@r1 first\nACGTACGT\n+\nIIIIHHHH\n@r2\nAC\n+r2\n@+\n@r3\n\n+\n\n@r4\nTTTT\n+\n!!!!\n", "@a\nA\n+\nI\n@b\nC\n+\nI\n@c\nG\n+\nI\n@d\nT\n+\nI\n@e\nN\n+\nI\n@f\nA\n+\nI\n",
			"@long\n" + strings.Repeat("ACGT", 20) + "\n+\n" + strings.Repeat("IJKL", 20) + "\n"}
	case "fastq/large":
		var sb strings.Builder
		for i := 0; sb.Len() < 9000; i++ {
			l := 20 + 37*i%150
			fmt.Fprintf(&sb, "@read%d/%d\n%s\n+\n%s\n", i, l, longSeq(l), strings.Repeat("IJ+@", 50)[:l])
		}
		out = []string{sb.String()}
	case "sam/small", "samh/small":
		out = []string{"@HD\tVN:1\n", "@a\n@b\n", "@CO\t\"x\"\n@b\n", "@a\n\n@b\n", "@HD\tVN:1", "@a\t\n@\n"}
	case "sam/medium", "samh/medium":
		l := func(q string, f, p int, qual string, tags ...string) string {
			s := fmt.Sprintf(samLine, q, f, p, p+100, qual)
			for _, t := range tags {
				s += "\t" + t
			}
			return s + "\n"
		}
		out = []string{"@HD\tVN:1.6\n" + l("q0", 0, 1, "IIII") + l("q1", 16, 5, "JJJJ", "NM:i:1", "XA:Z:a\"b") + l("q2", 99, 7, "\"III", "ZF:f:1.5"),
			l("a", 4, 0, "*") + "@CO\tmid header\n" + l("b", 0, 9, "IIII", "XH:H:00ff", "XC:A:q"),
			l("only", 1, 2, "FFFF", "AS:i:-3", "BC:Z:", "MD:Z:1:2:3")}
	case "sam/large", "samh/large":
		var sb strings.Builder
		sb.WriteString("@HD\tVN:1.6\tSO:coordinate\n@SQ\tSN:chr1\tLN:1000000\n")
		for i := 0; sb.Len() < 9000; i++ {
			fmt.Fprintf(&sb, samLine, fmt.Sprintf("read%d", i), i%4096, i*13, i*13+150, "IIII")
			fmt.Fprintf(&sb, "\tNM:i:%d\tXS:Z:%s\tZF:f:%g\n", i%7, strings.Repeat("x\"", i%9), float64(i)/8)
		}
		out = []string{sb.String()}
	case "bed/small":
		out = []string{"a\t0\t1\n", "a\t0\t1\nb\t2\t3\n", "#c\na\t0\t1\n", "a\t0\t1\tn\n", "a\t0\t1", "\n\na\t0\t1\n", "a\t0\t1\tn\t5\t+\n", "\"\t0\t1\n", "a\t-1\t1\n#x\n", "a\t0\t1\n\nb\t0\t1\n", "a b\t0\t9\n", "a\t10\t11\n"}
	case "bed/medium":
		out = []string{"# comment\nchr1\t10\t20\tname1\t5\t+\nchr2\t0\t5\tn\"2\t0\t-\n\nchr3\t7\t8\t\t1\t.\n#end\n",
			"chr1\t10\t20\tHello\t150\t+\t11\t13\t50,100,150\t2\t40,60\t100,200\nchr1\t30\t40\tW\t0\t-\t31\t33\t0,0,255\t1\t4\t0\n",
			"c\t1\t2\nc\t2\t3\nc\t3\t4\nc\t4\t5\nc\t5\t6\nc\t6\t7\nc\t7\t8\n"}
	case "bed/large":
		var sb strings.Builder
		for i := 0; sb.Len() < 9000; i++ {
			if i%17 == 5 {
				sb.WriteString("# a comment line\n")
			}
			fmt.Fprintf(&sb, "chr%d\t%d\t%d\tfeature\"%d\t%d\t%s\n", i%23, i*10, i*10+7, i, i%1000, []string{"+", "-", "."}[i%3])
		}
		out = []string{sb.String()}
	case "newick/small":
		out = []string{"(a,b);", "a;", "(a:1,b:2)c;", "((a,b),c);\n", "'a b';", "(a,b);(c);", "(,);", "a:1.5;", "('x''y',b);", " ( a , b ) ; ", "(a,b)c:3;\n(d);", "a;b;c;"}
	case "newick/medium":
		out = []string{"((a:1,b:2)ab:3,(c,d)'c d':0.5,e)root;\n(x,y);\n", "(('quoted (name)':1e-5,b_c:2.5):1,(d,(e,f)g)h)i;", "(a,(b,(c,(d,(e,(f,(g,(h,i))))))));\r\n((((j))));"}
	case "newick/large":
		var sb strings.Builder
		for t := 0; sb.Len() < 9000; t++ {
			sb.WriteString("(")
			for i := 0; i < 150; i++ {
				if i > 0 {
					sb.WriteString(",")
				}
				fmt.Fprintf(&sb, "(leaf%d:%d,'leaf %d'''):0.%d", i, i+1, i, i+1)
			}
			fmt.Fprintf(&sb, ")root%d;\n", t)
		}
		out = []string{sb.String()}
	case "fasta/longline":
		out = []string{">a\nAC\n>" + string(longSeq(5000)) + "\n" + string(longSeq(5003)) + "\nACGT\n>b\nAC\n"}
	case "fastq/longline":
		out = []string{"@a\nAC\n+\nII\n@long\n" + string(longSeq(5001)) + "\n+\n" + strings.Repeat("IJ@+", 1251)[:5001] + "\n@b\nA\n+\nI\n"}
	case "sam/longline", "samh/longline":
		out = []string{"@HD\tVN:1.6\n" + fmt.Sprintf(samLine, "q0", 0, 1, 2, "IIII") + "\n" + "long\t0\tchr1\t5\t60\t*\t=\t9\t0\t" + string(longSeq(4990)) + "\t" + strings.Repeat("I\"J", 1664)[:4990] + "\tXZ:Z:" + string(longSeq(300)) + "\n" + fmt.Sprintf(samLine, "q2", 16, 7, 8, "JJJJ") + "\n"}
	case "bed/longline":
		out = []string{"a\t0\t1\tn\nchr2\t5\t6\t" + string(longSeq(5000)) + "\nb\t2\t3\tm\n"}
	case "newick/longline":
		out = []string{"(a,b);\n(" + string(longSeq(5000)) + ":1,'" + strings.Repeat("x y''", 1000) + "':2)r;\n(c,d);\n"}
	case "fasta/vocab", "fastq/vocab", "sam/vocab", "samh/vocab", "bed/vocab", "newick/vocab":
		// Placeholder tokens of the bioinformatics format family ("value unavailable", "same as above",
		// "no strand", ...) at the START of every text field, once followed by more text and once alone:
		// a reader that gives one of them a meaning must not do so on a line cut short by a failing stream,
		// under a split read, or at a stop position.
		for _, v := range []string{"*", ".", "=", "0", "-", "+", "@", ">", "#", ";", "~", "NA", "\\N", "?", "%s"} {
			w := v + "5AB"
			switch format {
			case "fasta":
				out = append(out, ">"+w+"\n"+w+"\n"+w+"\n>"+v+"\n"+v+"\n>last\nAC\n")
			case "fastq":
				out = append(out, "@"+w+"\n"+w+"\n+\n"+w+"\n@"+v+"\n"+v+"\n+\n"+v+"\n@last\nA\n+\nI\n")
			case "sam", "samh":
				out = append(out, "@HD\tVN:1.6\n"+w+"\t0\t"+w+"\t1\t9\t"+w+"\t"+w+"\t0\t0\t"+w+"\t"+w+"\tXZ:Z:"+w+"\n"+
					"q"+v+"\t0\t"+v+"\t1\t9\t"+v+"\t"+v+"\t0\t0\t"+v+"\t"+v+"\tXZ:Z:"+v+"\nlast\t0\tr\t1\t9\t1M\t*\t0\t0\tA\tI\n")
			case "bed":
				out = append(out, "c"+w+"\t0\t1\t"+w+"\nc\t2\t3\t"+v+"\nlast\t4\t5\tn\n")
			case "newick":
				out = append(out, "('"+w+"':1,'"+v+"':2)'"+w+"';\n('"+v+"');\n(last);\n")
			}
		}
	case "fasta/ext", "fastq/ext", "sam/ext", "samh/ext", "bed/ext", "newick/ext":
		// Syntax that is standard in the wider format family but that this library does not (yet)
		// support: comments, track lines, multi-line records, placeholder values. Most of these inputs are
		// ill-formed for the pinned tree; the delivery, fault and stop properties hold for ill-formed
		// inputs too, and a reader that starts to give such syntax a meaning must keep them.
		out = map[string][]string{
			"newick": {"[c](a,b);", "(a,b);[between trees](c);", "(a[c],b);", "(a,b)[c];", "(a,b);[at the end]", "(a:1[&x=1],b);", "[a;b](c);(d);", "(a,b);\n[multi\nline]\n(c);\n", "(a,b);[never closed (c);"},
			"fasta":  {";comment\n>a\nAC\n", ">a\n;c\nAC\n>b\nG\n", ">a\nAC*\n>b\nG\n", ">a\nAC\n\n;end\n", ">a desc\nAC-GT\n>b\n\n>c\nA\n", "#c\n>a\nAC\n"},
			"fastq":  {"@a\nAC\nGT\n+\nIIII\n@b\nA\n+\nI\n", "@a\nAC\n+\nII\n\n\n@b\nA\n+\nI\n", "@a\nAC\n+\n*\n@b\nA\n+\nI\n", "@a\nAC\n+\n\n@b\nA\n+\nI\n", "#c\n@a\nA\n+\nI\n", "@a\nA\n+\nI\n\n"},
			"sam":    {"#comment\nq\t0\tr\t1\t9\t1M\t*\t0\t0\tA\tI\n", "@HD\tVN:1.6\n\n\nq\t0\tr\t1\t9\t1M\t=\t0\t0\t*\t*\n", "q\t0\tr\t1\t9\t1M\t*\t0\t0\tA\tI\tXB:B:c,1,2\nq2\t0\tr\t1\t9\t*\t*\t0\t0\tA\tI\n", "q 0 r 1 9 1M * 0 0 A I\nq\t0\tr\t1\t9\t1M\t*\t0\t0\tA\tI\n", "q\t0\tr\t1\t9\t1M\t*\t0\t0\tA\tI\t\nq\t0\tr\t1\t9\t1M\t*\t0\t0\tA\tI\n"},
			"bed":    {"track name=x\nc\t0\t1\n", "browser position chr1:1-2\nc\t0\t1\n", "c 0 1\nd\t0\t1\n", "c\t0\t1\t.\t.\t.\nd\t0\t1\tn\t0\t+\n", "c\t0\t1\n\n#c\n\nd\t2\t3\n", "c\t0\t1\tn\t0\t.\t.\t.\t.\n", "c\t0\t1\tn\t0\t+\t0\t0\t0\n"},
		}[strings.TrimSuffix(format, "h")]
		if format == "samh" {
			out = map[string][]string{}["x"]
			out = []string{"#comment\n@CO\tx\nq\t0\tr\t1\t9\t1M\t*\t0\t0\tA\tI\n", "@HD\tVN:1.6\n\n\n@CO\n@\nq\t0\tr\t1\t9\t1M\t=\t0\t0\t*\t*\n", "@CO\tc\r\n@SQ\tSN:x\rLN:5\nq\t1\n"}
		}
	default:
		panic("no corpus " + format + "/" + size)
	}
	if (format == "sam" || format == "samh") && size == "small" {
		// minimal alignment lines are longer than 14 bytes; add two
		out = append(out, "q\t0\tr\t1\t9\t1M\t*\t0\t0\tA\tI\n", "@h\nq\t0\tr\t1\t9\t1M\t*\t0\t0\tA\tI\tNM:i:0\nq\t1\t2\n")
	}
	b := make([][]byte, len(out))
	for i, s := range out {
		b[i] = []byte(s)
	}
	return b
}

// fileWalker obtains ONE iterator value from the format's File function; every call of the result is
// one walk over it, stopped after horizon items.
func fileWalker(format, path string) func(horizon int) ([]obsItem, string, bool) {
	switch format {
	case "fasta":
		seq := fasta.File(path)
		return func(h int) ([]obsItem, string, bool) { return collect2(seq, renderFasta, h) }
	case "fastq":
		seq := fastq.File(path)
		return func(h int) ([]obsItem, string, bool) { return collect2(seq, renderFastq, h) }
	case "sam":
		seq := sam.File(path)
		return func(h int) ([]obsItem, string, bool) { return collect2(seq, renderSAM, h) }
	case "samh":
		seq := sam.FileHeader(path)
		return func(h int) ([]obsItem, string, bool) { return collect2(seq, renderSAMOrHeader, h) }
	case "bed":
		seq := bed.File(path)
		return func(h int) ([]obsItem, string, bool) { return collect2(seq, renderBED, h) }
	case "newick":
		seq := newick.File(path)
		return func(h int) ([]obsItem, string, bool) { return collect2(seq, renderNewick, h) }
	}
	panic("format " + format)
}
