package props

import (
	"bufio"
	"bytes"
	"compress/flate"
	"compress/gzip"
	"compress/zlib"
	"context"
	"errors"
	"fmt"
	"io"
	"io/fs"
	"net"
	"os"
	"os/exec"
	"sort"
	"strconv"
	"strings"
	"sync"
	"syscall"

	"github.com/fluhus/biostuff/formats/bed"
	"github.com/fluhus/biostuff/formats/fasta"
	"github.com/fluhus/biostuff/formats/fastq"
	"github.com/fluhus/biostuff/formats/newick"
	"github.com/fluhus/biostuff/formats/sam"

	"verif/mc/engine/core"
	"verif/mc/engine/envio"
)

func init() { register("C07", "fault_enumeration", runC07) }

type c07Read struct {
	Format   string `json:"format"`
	Corpus   string `json:"corpus"` // "<size>/<index>"
	At       int    `json:"fault_after_bytes"`
	Forever  bool   `json:"error_forever"`
	WithData bool   `json:"error_with_last_bytes"`
	OneByte  bool   `json:"one_byte_reads"`
	Error    string `json:"error_identity,omitempty"` // see faultIdentities; empty: a plain errors.New value
}

// isEOFish is an error type whose Is method claims kinship with io.EOF without being io.EOF.
type isEOFish struct{}

func (isEOFish) Error() string        { return "connection reset while reading the last block" }
func (isEOFish) Is(target error) bool { return target == io.EOF }

type timeoutErr struct{}

func (timeoutErr) Error() string   { return "i/o timeout" }
func (timeoutErr) Timeout() bool   { return true }
func (timeoutErr) Temporary() bool { return true }

// faultIdentities: which error VALUE the failing reader returns. None of them is io.EOF (the io
// package: "Read must return EOF itself, not an error wrapping EOF, because callers will test for
// EOF using =="), so each is a non-EOF failure in the sense of the property.
var faultIdentities = map[string]error{
	"io.ErrUnexpectedEOF":   io.ErrUnexpectedEOF,
	"wraps-io.EOF":          fmt.Errorf("object store: range read of chunk 2 failed: %w", io.EOF),
	"path-error-around-EOF": &fs.PathError{Op: "read", Path: "/data/x", Err: io.EOF},
	"Is(io.EOF)-true":       isEOFish{},
	"text-is-EOF":           errors.New("EOF"),
	"timeout-temporary":     timeoutErr{},
	"io.ErrNoProgress":      io.ErrNoProgress,
	"io.ErrClosedPipe":      io.ErrClosedPipe,
	"bufio.ErrTooLong":      bufio.ErrTooLong,
	"gzip.ErrChecksum":      gzip.ErrChecksum,
}

// faultSentinels: the exported error values of the standard library that a Read may return or wrap - a closed
// file or pipe, deadlines, cancelled contexts, interrupted and reset system calls, decompressor errors. None
// of them is io.EOF; a reader that takes one of them for the end of the data drops the failure. Each is used
// bare, wrapped with %w, and inside an *fs.PathError.
var faultSentinels = map[string]error{
	"os.ErrClosed": os.ErrClosed, "os.ErrDeadlineExceeded": os.ErrDeadlineExceeded, "os.ErrNotExist": os.ErrNotExist, "os.ErrPermission": os.ErrPermission, "os.ErrInvalid": os.ErrInvalid, "os.ErrProcessDone": os.ErrProcessDone, "os.ErrNoDeadline": os.ErrNoDeadline,
	"net.ErrClosed": net.ErrClosed, "context.Canceled": context.Canceled, "context.DeadlineExceeded": context.DeadlineExceeded,
	"io.ErrShortBuffer": io.ErrShortBuffer, "io.ErrShortWrite": io.ErrShortWrite, "io.ErrClosedPipe": io.ErrClosedPipe, "io.ErrNoProgress": io.ErrNoProgress,
	"syscall.EINTR": syscall.EINTR, "syscall.EAGAIN": syscall.EAGAIN, "syscall.EPIPE": syscall.EPIPE, "syscall.ECONNRESET": syscall.ECONNRESET, "syscall.EIO": syscall.EIO, "syscall.EBADF": syscall.EBADF, "syscall.ENOSPC": syscall.ENOSPC, "syscall.ESTALE": syscall.ESTALE,
	"gzip.ErrHeader": gzip.ErrHeader, "flate.CorruptInputError": flate.CorruptInputError(7), "zlib.ErrChecksum": zlib.ErrChecksum,
	"bufio.ErrNegativeCount": bufio.ErrNegativeCount, "bufio.ErrInvalidUnreadByte": bufio.ErrInvalidUnreadByte, "bufio.ErrFinalToken": bufio.ErrFinalToken, "bufio.ErrAdvanceTooFar": bufio.ErrAdvanceTooFar,
	"fs.SkipDir": fs.SkipDir, "fs.SkipAll": fs.SkipAll, "exec.ErrNotFound": exec.ErrNotFound, "strconv.ErrRange": strconv.ErrRange, "errors.ErrUnsupported": errors.ErrUnsupported, "http.ErrBodyReadAfterClose": errors.New("http: invalid Read on closed Body"),
}

var faultSentinelNames []string

func init() {
	var base []string
	for n := range faultSentinels {
		base = append(base, n)
	}
	sort.Strings(base)
	for _, n := range base {
		e := faultSentinels[n]
		faultIdentities[n] = e
		faultIdentities["wrapped:"+n] = fmt.Errorf("read failed: %w", e)
		faultIdentities["path-error:"+n] = &fs.PathError{Op: "read", Path: "|0", Err: e}
		faultSentinelNames = append(faultSentinelNames, n, "wrapped:"+n, "path-error:"+n)
	}
}

// bufio.ErrBufferFull is deliberately absent: bufio.Reader itself reads that value, coming from the
// underlying reader, as "my buffer is full, carry on" (ReadString then loops forever inside the standard
// library). No io.Reader returns it from Read; demanding that the library survive it would test bufio.
var faultIdentityNames = []string{"io.ErrUnexpectedEOF", "wraps-io.EOF", "path-error-around-EOF", "Is(io.EOF)-true", "text-is-EOF", "timeout-temporary", "io.ErrNoProgress", "io.ErrClosedPipe", "bufio.ErrTooLong", "gzip.ErrChecksum"}

type c07Write struct {
	Format string `json:"format"`
	Record int    `json:"record_index"`
	Limit  int    `json:"writer_accepts_bytes"`
	Once   bool   `json:"fails_one_call_only,omitempty"`
	Rich   bool   `json:"destination_also_offers_WriteByte_WriteString_ReadFrom,omitempty"`
}

func corpusBy(format, key string) []byte {
	var size string
	var idx int
	fmt.Sscanf(strings.Replace(key, "/", " ", 1), "%s %d", &size, &idx)
	return corpus(format, size)[idx]
}

type refEntry struct {
	items []obsItem
	p     string
}

var refCache sync.Map

func refCached(f formatDef, key string, data []byte) ([]obsItem, string) {
	k := f.Name + "|" + key
	if v, ok := refCache.Load(k); ok {
		e := v.(refEntry)
		return e.items, e.p
	}
	items, p := refRead(f, data)
	refCache.Store(k, refEntry{items, p})
	return items, p
}

func checkC07Read(c c07Read) core.Outcome {
	f := formatByName(c.Format)
	data := corpusBy(c.Format, c.Corpus)
	ref, rp := refCached(f, c.Corpus, data)
	if rp != "" {
		return core.Failf("%s: fault-free decode panicked: %s", c.Format, rp)
	}
	illFormed := false
	for _, it := range ref {
		if it.IsErr() {
			illFormed = true // the statement does not ask for well-formed data: the oracle below covers both
		}
	}
	if _, known := faultIdentities[c.Error]; c.Error != "" && !known {
		return core.Failf("HARNESS: unknown error identity %q in the case", c.Error)
	}
	rd := &envio.FaultReader{Data: data, At: c.At, Forever: c.Forever, WithData: c.WithData, OneByte: c.OneByte, Err: faultIdentities[c.Error]}
	horizon := len(ref) + 16
	items, p, over := f.Read(rd, horizon)
	desc := fmt.Sprintf("%s, %d-byte input %s, reader fails after %d bytes%s (%s, error %s, %s reads)", c.Format, len(data), c.Corpus, c.At, map[bool]string{true: "", false: " with the error value " + c.Error}[c.Error == ""],
		map[bool]string{true: "error forever", false: "error once then EOF"}[c.Forever],
		map[bool]string{true: "together with the last bytes", false: "alone"}[c.WithData], map[bool]string{true: "1-byte", false: "maximal"}[c.OneByte])
	if p == envio.ErrPolledTooOften || over {
		return core.Failf("%s: the iteration does not end (still going after %d items / %d reads after the fault); items so far %s", desc, len(items), rd.After, trunc(renderObs(items), 300))
	}
	if p != "" {
		return core.Failf("%s: panic: %s", desc, p)
	}
	// Items agree with the fault-free decode position by position (records identical; for SAM, which goes
	// on after a malformed line, the same parse errors in the same positions) up to some point j; from j
	// on there are only error items, at least one, and nothing else.
	j := 0
	for j < len(items) {
		if items[j].IsErr() {
			if !f.ErrorIsLast && j < len(ref) && ref[j].IsErr() && j+1 < len(items) {
				j++ // the parse error the fault-free decode has in this position too
				continue
			}
			break
		}
		if j >= len(ref) || ref[j].IsErr() || items[j].Rec != ref[j].Rec {
			want := "nothing (the fault-free decode has only " + fmt.Sprint(len(ref)) + " items)"
			if j < len(ref) {
				want = renderObs(ref[j : j+1])
			}
			return core.Failf("%s: item %d is %s, but the fault-free decode has %s there: a record built from truncated data", desc, j, trunc(items[j].Rec, 300), trunc(want, 300))
		}
		j++
	}
	if j == len(items) {
		return core.Failf("%s: the iteration ended after %d items without reporting the failure, as though the data were complete: %s", desc, j, trunc(renderObs(items), 300))
	}
	for k := j; k < len(items); k++ {
		if !items[k].IsErr() {
			return core.Failf("%s: a record follows the error item that does not stem from the data: %s", desc, trunc(renderObs(items), 400))
		}
	}
	if f.ErrorIsLast && len(items) != j+1 {
		return core.Failf("%s: %d error items, want the first error to be the last item", desc, len(items)-j)
	}
	if illFormed {
		return core.Outcome{Class: fmt.Sprintf("ill-formed input: items-before-final-errors=%d errors=%d", min(j, 3), min(len(items)-j, 2)), Nontrivial: c.At > 0 && c.At < len(data)}
	}
	nontrivial := c.At > 0 && c.At < len(data) && j >= 1
	return core.Outcome{Class: fmt.Sprintf("records-before-error=%d errors=%d", min(j, 3), min(len(items)-j, 2)), Nontrivial: nontrivial}
}

// writeRecords returns, per format, records whose Write passes through every call site.
func writeRecords(format string) []func(w io.Writer) error {
	switch format {
	case "fasta":
		recs := []*fasta.Fasta{{Name: []byte("n"), Sequence: nil}, {Name: nil, Sequence: []byte("ACGT")}, {Name: []byte("long"), Sequence: longSeq(170)}}
		return wrap(len(recs), func(i int, w io.Writer) error { return recs[i].Write(w) })
	case "fastq":
		recs := []*fastq.Fastq{{Name: []byte("r"), Sequence: []byte("ACG"), Quals: []byte("III")}, {}}
		return wrap(len(recs), func(i int, w io.Writer) error { return recs[i].Write(w) })
	case "sam":
		recs := []*sam.SAM{{Qname: "q", Rname: "r", Cigar: "1M", Rnext: "*", Seq: "A", Qual: "I"},
			{Qname: "q2", Flag: 99, Rname: "r", Pos: 5, Cigar: "1M", Rnext: "=", Seq: "A", Qual: "I", Tags: map[string]any{"NM": 1, "XA": "z", "ZF": 1.5}}}
		return wrap(len(recs), func(i int, w io.Writer) error { return recs[i].Write(w) })
	case "bed":
		var recs []*bed.BED
		for n := 3; n <= 12; n++ {
			b := &bed.BED{N: n, Chrom: "c", ChromStart: 1, ChromEnd: 22, Name: "nm", Score: 5, Strand: "+", ThickStart: 2, ThickEnd: 3, ItemRGB: [3]byte{1, 2, 3}}
			if n == 12 {
				b.BlockCount, b.BlockSizes, b.BlockStarts = 3, []int{1, 22, 3}, []int{0, 5, 10}
			}
			recs = append(recs, b)
		}
		return wrap(len(recs), func(i int, w io.Writer) error { return recs[i].Write(w) })
	case "newick":
		recs := []*newick.Node{{}, {Name: "a b", Distance: 1.5, Children: []*newick.Node{{Name: "x"}, {Name: "'", Distance: 2}}}}
		return wrap(len(recs), func(i int, w io.Writer) error { return recs[i].Write(w) })
	}
	panic("no write records for " + format)
}

func wrap(n int, f func(i int, w io.Writer) error) []func(w io.Writer) error {
	out := make([]func(w io.Writer) error, n)
	for i := 0; i < n; i++ {
		i := i
		out[i] = func(w io.Writer) error { return f(i, w) }
	}
	return out
}

func runC07(r *core.Run) {
	racePass(r, "race-formats", "all five codecs: readers each on their own stream (whole and in 7-byte reads, every corpus file), Write on shared records into separate destinations, File on one shared path; every result is compared with what the same call returned when it ran alone")
	r.Assume("after the fault the reader returns only the error (error-forever) or io.EOF (error-once), never more data")
	r.Bound("read-side", "per format: every small and medium corpus file (well-formed or not: for ill-formed data the same oracle applies position by position), the files with syntax the library does not support (comments, track lines, multi-line records, placeholders), the 15 placeholder-token files (\"*\", \".\", \"=\", \"0\", \"-\", \"+\", \"@\", \">\", \"#\", \";\", \"~\", \"NA\", \"\\\\N\", \"?\", \"%s\" at the start of every text field, alone and followed by more text), the ~9 KiB file and the long-line file (one line of 5000+ bytes, so faults land inside a line that spans two buffer fills) x EVERY fault offset 0..len x {error once then EOF, error forever} x {error alone, together with the last bytes} x {maximal reads, 1-byte reads}"+core.Pick(r, " (quick tier, 9 KiB file: maximal reads and the plans {once+alone, forever+with data} only)", ""))
	core.Clause(r, "read-faults", core.Opts{Rule: "fault plans enumerated completely per input; oracle: leading records of the fault-free decode, then >= 1 error items and nothing else, iteration ends within the horizon (fault-free items + 16; a reader polled > 2000 times after the fault counts as non-terminating); non-trivial = fault strictly inside the data and at least one record before it"},
		func(emit func(c07Read) bool) {
			for _, f := range formats {
				for _, size := range []string{"small", "medium", "vocab", "ext", "large", "longline"} {
					for i, d := range corpus(f.Name, size) {
						for at := 0; at <= len(d); at++ {
							for _, forever := range []bool{false, true} {
								for _, wd := range []bool{false, true} {
									for _, ob := range []bool{false, true} {
										if (size == "large" || size == "longline") && !r.Thorough() && (ob || forever != wd) {
											continue // quick: two of the eight plans per offset on the 9 KiB file
										}
										if !emit(c07Read{f.Name, fmt.Sprint(size, "/", i), at, forever, wd, ob, ""}) {
											return
										}
									}
								}
							}
						}
					}
				}
			}
		}, checkC07Read)

	r.Bound("read-fault-identities", fmt.Sprintf("per format: every well-formed small and medium corpus file x every fault offset x {once, forever} x {alone, with the last bytes} x %d error values that are not io.EOF (errors wrapping io.EOF, an Is(io.EOF) type, the text \"EOF\", io.ErrUnexpectedEOF, timeouts, bufio/gzip sentinels)", len(faultIdentityNames)))
	core.Clause(r, "read-fault-identities", core.Opts{Rule: "the same oracle as read-faults, over WHICH error value the reader fails with: anything that is not io.EOF itself is a failure; non-trivial = fault strictly inside the data and at least one record before it"},
		func(emit func(c07Read) bool) {
			for _, f := range formats {
				for _, size := range []string{"small", "medium"} {
					for i, d := range corpus(f.Name, size) {
						for at := 0; at <= len(d); at++ {
							for _, forever := range []bool{false, true} {
								for _, wd := range []bool{false, true} {
									for _, id := range faultIdentityNames {
										if !emit(c07Read{f.Name, fmt.Sprint(size, "/", i), at, forever, wd, false, id}) {
											return
										}
									}
								}
							}
						}
					}
				}
			}
		}, checkC07Read)

	r.Bound("read-fault-sentinels", fmt.Sprintf("per format: every well-formed small corpus file and the first medium one x every fault offset x {once, forever} x %d error values: %d exported error values of the standard library (os, net, context, io, syscall, gzip/flate/zlib, bufio, fs, exec, strconv, errors), each bare, wrapped with %%w and inside an *fs.PathError", len(faultSentinelNames), len(faultSentinels)))
	core.Clause(r, "read-fault-sentinels", core.Opts{Rule: "the same oracle as read-faults, the reader failing with each exported error value of the standard library: none of them is io.EOF, so each is a failure to report, never the end of the data; non-trivial = fault strictly inside the data and at least one record before it"},
		func(emit func(c07Read) bool) {
			for _, f := range formats {
				keys := []string{"medium/0"}
				for i := range corpus(f.Name, "small") {
					keys = append(keys, fmt.Sprint("small/", i))
				}
				for _, key := range keys {
					d := corpusBy(f.Name, key)
					for at := 0; at <= len(d); at++ {
						for _, forever := range []bool{false, true} {
							for _, id := range faultSentinelNames {
								if !emit(c07Read{f.Name, key, at, forever, false, false, id}) {
									return
								}
							}
						}
					}
				}
			}
		}, checkC07Read)

	r.Bound("write-side", "per format records that together pass through every Fprintf/Write call site (FASTA 0/1/3 sequence lines, FASTQ, SAM 0/3 tags, BED every N and 3 blocks, Newick) x every k in 0..len(out)+1: a writer that accepts k bytes in total and then fails forever; and for every k < len(out) a writer that fails only the one call crossing k; each with a plain io.Writer and with a destination that also offers WriteByte, WriteString and ReadFrom (what bytes.Buffer, bufio.Writer, os.File offer) on the same byte budget")
	core.Clause(r, "write-faults", core.Opts{Rule: "every failure offset of the destination writer; Write returns non-nil iff the writer failed (k < len(out)), nil when everything was accepted; in the fail-one-call mode a nil result is accepted only if the destination received the complete record; non-trivial = 0 < k < len(out)"},
		func(emit func(c07Write) bool) {
			for _, fn := range []string{"fasta", "fastq", "sam", "bed", "newick"} {
				for i, w := range writeRecords(fn) {
					full := &envio.LimitWriter{Limit: 1 << 30}
					w(full)
					for _, rich := range []bool{false, true} {
						for k := 0; k <= len(full.Got)+1; k++ {
							if !emit(c07Write{fn, i, k, false, rich}) {
								return
							}
						}
						for k := 0; k < len(full.Got); k++ {
							if !emit(c07Write{fn, i, k, true, rich}) {
								return
							}
						}
					}
				}
			}
		},
		func(c c07Write) core.Outcome {
			w := writeRecords(c.Format)[c.Record]
			full := &envio.LimitWriter{Limit: 1 << 30}
			if err := w(full); err != nil {
				return core.Failf("%s record %d: Write to a writer that accepts everything returned %v", c.Format, c.Record, err)
			}
			lw := &envio.LimitWriter{Limit: c.Limit, Once: c.Once}
			var dest io.Writer = lw
			kind := ""
			if c.Rich {
				rw := &envio.RichLimitWriter{LimitWriter: envio.LimitWriter{Limit: c.Limit, Once: c.Once}}
				lw, dest, kind = &rw.LimitWriter, rw, " (destination also offers WriteByte/WriteString/ReadFrom)"
			}
			var err error
			if p := catch(func() { err = w(dest) }); p != "" {
				return core.Failf("%s record %d: Write panicked when the writer failed after %d bytes: %s", c.Format, c.Record, c.Limit, p)
			}
			if c.Once {
				// the writer failed one call and then recovered: returning nil is only acceptable if
				// the destination nevertheless received the complete record
				if err == nil && string(lw.Got) != string(full.Got) {
					return core.Failf("%s record %d: one Write call of the destination failed after %d bytes (later calls succeeded); Write returned nil although the destination received %q instead of %q", c.Format, c.Record, c.Limit, trunc(string(lw.Got), 120), trunc(string(full.Got), 120))
				}
				return core.Outcome{Class: fmt.Sprint("transient failed=", err != nil), Nontrivial: c.Limit > 0}
			}
			if c.Limit < len(full.Got) && err == nil {
				return core.Failf("%s record %d (output %q): the writer%s failed after %d of %d bytes but Write returned nil", c.Format, c.Record, trunc(string(full.Got), 80), kind, c.Limit, len(full.Got))
			}
			if c.Limit >= len(full.Got) && err != nil {
				return core.Failf("%s record %d: everything was accepted but Write returned %v", c.Format, c.Record, err)
			}
			return core.Outcome{Class: fmt.Sprint("failed=", err != nil), Nontrivial: c.Limit > 0 && c.Limit < len(full.Got)}
		})

	// Long records: a writer that batches its output (bufio, a formatting buffer) handles a piece longer
	// than its buffer differently from a short one, so the failure offsets inside and behind a long field
	// are call sites of their own.
	type c07Long struct {
		Format  string `json:"format"`
		Variant string `json:"long_part"`
		Len     int    `json:"long_part_len"`
		Limit   int    `json:"writer_accepts_bytes"`
		Once    bool   `json:"fails_one_call_only,omitempty"`
		Rich    bool   `json:"destination_also_offers_WriteByte_WriteString_ReadFrom,omitempty"`
	}
	r.Bound("write-side-long-records", "per format one record with one long part (FASTA name / sequence; FASTQ name / sequence+qualities; SAM Qname / Seq+Qual / a Z tag; BED Chrom / Name; Newick one name / a root with that many leaves / a chain that deep) of 5000 and 9000 bytes (beyond one and two 4096-byte buffers): EVERY failure offset; of 70000 bytes (beyond 64 KiB): offsets 0..5, every offset within 3 of a multiple of 4096, every 997th, the last 5; same writers and modes as write-faults")
	core.Clause(r, "write-faults-long-records", core.Opts{Rule: "as write-faults, for records with one part longer than any internal buffer: Write returns non-nil iff the writer failed, wherever in or behind the long part the failure falls; non-trivial = 0 < k < len(out)"},
		func(emit func(c07Long) bool) {
			for _, fn := range []string{"fasta", "fastq", "sam", "bed", "newick"} {
				for _, v := range longWriteVariants[fn] {
					for _, n := range []int{5000, 9000, 70000} {
						full := &envio.LimitWriter{Limit: 1 << 30}
						longWriteRecord(fn, v, n)(full)
						total := len(full.Got)
						for k := 0; k <= total+1; k++ {
							if n == 70000 && !(k <= 5 || k >= total-5 || k%4096 <= 3 || k%4096 >= 4093 || k%997 == 0) {
								continue
							}
							for _, rich := range []bool{false, true} {
								if !emit(c07Long{fn, v, n, k, false, rich}) {
									return
								}
								if k < total && !emit(c07Long{fn, v, n, k, true, rich}) {
									return
								}
							}
						}
					}
				}
			}
		},
		func(c c07Long) core.Outcome {
			w := longWriteRecord(c.Format, c.Variant, c.Len)
			full := &envio.LimitWriter{Limit: 1 << 30}
			key := fmt.Sprint(c.Format, "|", c.Variant, "|", c.Len)
			if v, ok := longWriteFull.Load(key); ok {
				full.Got = v.([]byte)
			} else {
				if err := w(full); err != nil {
					return core.Failf("%s with a long %s (%d): Write to a writer that accepts everything returned %v", c.Format, c.Variant, c.Len, err)
				}
				longWriteFull.Store(key, full.Got)
			}
			lw := &envio.LimitWriter{Limit: c.Limit, Once: c.Once}
			var dest io.Writer = lw
			kind := ""
			if c.Rich {
				rw := &envio.RichLimitWriter{LimitWriter: envio.LimitWriter{Limit: c.Limit, Once: c.Once}}
				lw, dest, kind = &rw.LimitWriter, rw, " (destination also offers WriteByte/WriteString/ReadFrom)"
			}
			var err error
			if p := catch(func() { err = w(dest) }); p != "" {
				return core.Failf("%s with a long %s (%d): Write panicked when the writer failed after %d bytes: %s", c.Format, c.Variant, c.Len, c.Limit, p)
			}
			desc := fmt.Sprintf("%s record with a %s of %d (output of %d bytes)", c.Format, c.Variant, c.Len, len(full.Got))
			if c.Once {
				if err == nil && string(lw.Got) != string(full.Got) {
					return core.Failf("%s: one Write call of the destination%s failed after %d bytes (later calls succeeded); Write returned nil although the destination received %d bytes that are not the record", desc, kind, c.Limit, len(lw.Got))
				}
				return core.Outcome{Class: fmt.Sprint(c.Variant, " transient failed=", err != nil), Nontrivial: c.Limit > 0}
			}
			if c.Limit < len(full.Got) && err == nil {
				return core.Failf("%s: the writer%s failed after %d bytes but Write returned nil", desc, kind, c.Limit)
			}
			if c.Limit >= len(full.Got) && err != nil {
				return core.Failf("%s: everything was accepted but Write returned %v", desc, err)
			}
			return core.Outcome{Class: fmt.Sprint(c.Variant, " failed=", err != nil), Nontrivial: c.Limit > 0 && c.Limit < len(full.Got)}
		})
}

var longWriteFull sync.Map // complete output per (format, long part, length)

var longWriteVariants = map[string][]string{
	"fasta":  {"name", "sequence"},
	"fastq":  {"name", "sequence and qualities"},
	"sam":    {"Qname", "Seq and Qual", "Z tag"},
	"bed":    {"Chrom", "Name"},
	"newick": {"name", "number of leaves", "depth"},
}

// longWriteRecord: one record of the format whose named part has length (or size) n.
func longWriteRecord(format, variant string, n int) func(w io.Writer) error {
	long := longSeq(n)
	switch format {
	case "fasta":
		rec := &fasta.Fasta{Name: []byte("n"), Sequence: []byte("ACGT")}
		if variant == "name" {
			rec.Name = long
		} else {
			rec.Sequence = long
		}
		return rec.Write
	case "fastq":
		rec := &fastq.Fastq{Name: []byte("r"), Sequence: []byte("ACG"), Quals: []byte("III")}
		if variant == "name" {
			rec.Name = long
		} else {
			rec.Sequence, rec.Quals = long, bytes.Repeat([]byte{'I'}, n)
		}
		return rec.Write
	case "sam":
		rec := &sam.SAM{Qname: "q", Rname: "r", Cigar: "1M", Rnext: "*", Seq: "A", Qual: "I", Tags: map[string]any{"NM": 1}}
		switch variant {
		case "Qname":
			rec.Qname = string(long)
		case "Seq and Qual":
			rec.Seq, rec.Qual = string(long), strings.Repeat("I", n)
		default:
			rec.Tags["XZ"] = string(long)
		}
		return rec.Write
	case "bed":
		rec := &bed.BED{N: 6, Chrom: "c", ChromStart: 1, ChromEnd: 22, Name: "nm", Score: 5, Strand: "+"}
		if variant == "Chrom" {
			rec.Chrom = string(long)
		} else {
			rec.Name = string(long)
		}
		return rec.Write
	case "newick":
		root := &newick.Node{Name: "root"}
		switch variant {
		case "name":
			root.Children = []*newick.Node{{Name: string(long), Distance: 1}, {Name: "b"}}
		case "number of leaves":
			for i := 0; i < n/4; i++ {
				root.Children = append(root.Children, &newick.Node{Name: "x", Distance: 1})
			}
		default:
			cur := root
			for i := 0; i < n/4; i++ {
				c := &newick.Node{Name: "x", Distance: 2}
				cur.Children = []*newick.Node{c}
				cur = c
			}
		}
		return root.Write
	}
	panic("no long write record for " + format)
}
