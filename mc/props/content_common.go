package props

import (
	"math"
	"strconv"
)

// Content classes: what a long field is made of, independent of its length. Length sweeps with one
// neutral ASCII pattern are blind to code that counts runes instead of bytes (fmt precisions, range over
// string, strings.Fields), treats '%' as a verb, or special-cases high bytes; these classes are crossed
// with the lengths around every wrapping / buffer threshold.
var contentClassNames = []string{"utf8-2byte", "utf8-mixed", "high-bytes", "percent-verbs", "quotes-backslashes", "utf8-cut"}

// contentOf returns n BYTES of the class (a multi-byte rune may be cut at the end: the fields are byte
// strings). excluded bytes (the field's delimiters) are replaced by 'x'.
func contentOf(class string, n int, excluded string) []byte {
	var unit string
	switch class {
	case "utf8-2byte":
		unit = "é"
	case "utf8-mixed":
		unit = "a\u00e9\u65e5\U0001d11e\u0141\u2028b\ufeff"
	case "high-bytes":
		unit = "\x80\xff\xfe\xc0\xc3\xa9\xed\xa0\x80\xf5"
	case "percent-verbs":
		unit = "%s%d%%!%v(MISSING)%"
	case "quotes-backslashes":
		unit = "\"\\'`\\n\\x00"
	case "utf8-cut": // starts in the middle of a rune, so that rune boundaries never line up with line boundaries
		unit = "\xa9é日\x97"
	}
	b := make([]byte, n)
	for i := range b {
		c := unit[(i+i/len(unit)/7)%len(unit)]
		for j := 0; j < len(excluded); j++ {
			if c == excluded[j] {
				c = 'x'
			}
		}
		b[i] = c
	}
	return b
}

// sharpFloats: float64 values whose shortest decimal form, float32 narrowing, integer conversion or
// exponent/fixed notation switch differ from their neighbours'. Spelt with the shortest round-trip
// form, which parseF (strconv.ParseFloat) reads back exactly.
func sharpFloats() []string {
	vals := []float64{
		float64(float32(0.1)), float64(float32(3.1415)), math.MaxFloat32, math.SmallestNonzeroFloat32, -float64(float32(1) / 3), float64(float32(1e10)), float64(float32(16777216.0)),
		16777217, 9007199254740992, 9007199254740994, 9223372036854775808, 18446744073709551616, 1e15, 1e16, 1e20, 1e21, 1e22, 123456789012345680,
		0.1 + 0.2, 1.0 / 3, 2.0 / 3, math.Pi, -math.E, math.Nextafter(1, 2), math.Nextafter(1, 0), 2.2250738585072014e-308, 2.225073858507201e-308,
		100, 1e6, 1e-4, 0.00011, 1e-5, 1e-7, 12345.678, 0.5, 0.25, 255.5, 65535.5, -1e-300, 4.9e-324, 1.7976931348623157e308,
	}
	out := make([]string, len(vals))
	for i, v := range vals {
		out[i] = strconv.FormatFloat(v, 'g', -1, 64)
	}
	return out
}
