package props

import (
	"fmt"
	"io"
	"iter"

	"github.com/fluhus/biostuff/formats/bed"
	"github.com/fluhus/biostuff/formats/fasta"
	"github.com/fluhus/biostuff/formats/fastq"
	"github.com/fluhus/biostuff/formats/newick"
	"github.com/fluhus/biostuff/formats/sam"

	"verif/mc/engine/core"
)

// Two readers alive at once, advanced alternately by ONE goroutine: what a reader yields must not depend
// on what else the process is decoding (a package-level scratch buffer, a pool entry handed out twice or
// a cached line shared between reader values shows here and nowhere in single-reader runs).

// lazyItem keeps the yielded value so that it can be rendered again later.
type lazyItem struct {
	IsErr  bool
	Render func() string
}

func lazy2[T any](seq iter.Seq2[T, error], render func(T) string) iter.Seq[lazyItem] {
	return func(yield func(lazyItem) bool) {
		seq(func(v T, err error) bool {
			if err != nil {
				return yield(lazyItem{IsErr: true, Render: func() string { return "ERR" }})
			}
			return yield(lazyItem{Render: func() string { return render(v) }})
		})
	}
}

func lazyReader(format string, r io.Reader) iter.Seq[lazyItem] {
	switch format {
	case "fasta":
		return lazy2(fasta.Reader(r), renderFasta)
	case "fastq":
		return lazy2(fastq.Reader(r), renderFastq)
	case "sam":
		return lazy2(sam.Reader(r), renderSAM)
	case "samh":
		return lazy2(sam.ReaderHeader(r), renderSAMOrHeader)
	case "bed":
		return lazy2(bed.Reader(r), renderBED)
	case "newick":
		return lazy2(newick.Reader(r), renderNewick)
	}
	panic("format " + format)
}

type interleaveCase struct {
	FormatA  string `json:"format_a"`
	CorpusA  string `json:"corpus_a"`
	FormatB  string `json:"format_b"`
	CorpusB  string `json:"corpus_b"`
	Schedule string `json:"schedule"` // one letter per pull: A or B; after it both are drained A first
}

// soloItems decodes one input alone.
func soloItems(format string, data []byte) ([]string, string) {
	var out []string
	p := catch(func() {
		for it := range lazyReader(format, &sliceReader{data: data}) {
			out = append(out, it.Render())
			if len(out) > 1<<16 {
				break
			}
		}
	})
	return out, p
}

type sliceReader struct {
	data []byte
	off  int
}

func (s *sliceReader) Read(p []byte) (int, error) {
	if s.off >= len(s.data) {
		return 0, io.EOF
	}
	n := copy(p, s.data[s.off:])
	s.off += n
	return n, nil
}

func checkInterleave(c interleaveCase) core.Outcome {
	da, db := corpusBy(c.FormatA, c.CorpusA), corpusBy(c.FormatB, c.CorpusB)
	wantA, pa := soloItems(c.FormatA, da)
	wantB, pb := soloItems(c.FormatB, db)
	if pa != "" || pb != "" {
		return core.Failf("solo decode panicked: %s %s", pa, pb)
	}
	var gotA, gotB []lazyItem
	var atYieldA, atYieldB []string
	p := catch(func() {
		nextA, stopA := iter.Pull(lazyReader(c.FormatA, &sliceReader{data: da}))
		nextB, stopB := iter.Pull(lazyReader(c.FormatB, &sliceReader{data: db}))
		defer stopA()
		defer stopB()
		doneA, doneB := false, false
		pull := func(which byte) {
			if which == 'A' && !doneA {
				if it, ok := nextA(); ok {
					gotA = append(gotA, it)
					atYieldA = append(atYieldA, it.Render())
				} else {
					doneA = true
				}
			}
			if which == 'B' && !doneB {
				if it, ok := nextB(); ok {
					gotB = append(gotB, it)
					atYieldB = append(atYieldB, it.Render())
				} else {
					doneB = true
				}
			}
		}
		for i := 0; i < len(c.Schedule); i++ {
			pull(c.Schedule[i])
		}
		for !doneA && len(gotA) <= len(wantA)+3 {
			pull('A')
		}
		for !doneB && len(gotB) <= len(wantB)+3 {
			pull('B')
		}
	})
	if p != "" {
		return core.Failf("two readers (%s %s, %s %s) pulled in the order %s: panic: %s", c.FormatA, c.CorpusA, c.FormatB, c.CorpusB, c.Schedule, p)
	}
	cmp := func(name string, got []lazyItem, atYield, want []string) string {
		if len(got) != len(want) {
			return fmt.Sprintf("reader %s yielded %d items %v, alone it yields %d %v", name, len(got), trunc(fmt.Sprint(atYield), 300), len(want), trunc(fmt.Sprint(want), 300))
		}
		for i := range got {
			if atYield[i] != want[i] {
				return fmt.Sprintf("reader %s item %d is %s, alone it is %s", name, i, trunc(atYield[i], 200), trunc(want[i], 200))
			}
			if again := got[i].Render(); again != want[i] {
				return fmt.Sprintf("reader %s item %d was %s when yielded and is %s after both iterations finished", name, i, trunc(want[i], 200), trunc(again, 200))
			}
		}
		return ""
	}
	if f := cmp("A", gotA, atYieldA, wantA); f != "" {
		return core.Failf("two readers (A: %s %s, B: %s %s) pulled in the order %s: %s", c.FormatA, c.CorpusA, c.FormatB, c.CorpusB, c.Schedule, f)
	}
	if f := cmp("B", gotB, atYieldB, wantB); f != "" {
		return core.Failf("two readers (A: %s %s, B: %s %s) pulled in the order %s: %s", c.FormatA, c.CorpusA, c.FormatB, c.CorpusB, c.Schedule, f)
	}
	return core.Outcome{Class: fmt.Sprint("items=", min(len(wantA), 2), "+", min(len(wantB), 2)), Nontrivial: len(wantA) >= 1 && len(wantB) >= 1, Evals: 3}
}

// interleavings emits every order of a A-pulls and b B-pulls.
func interleavings(a, b int, prefix []byte, f func(s string) bool) bool {
	if a == 0 && b == 0 {
		return f(string(prefix))
	}
	if a > 0 && !interleavings(a-1, b, append(prefix, 'A'), f) {
		return false
	}
	if b > 0 && !interleavings(a, b-1, append(prefix, 'B'), f) {
		return false
	}
	return true
}

func interleavedReaders(r *core.Run) { interleavedReadersFor(r, nil) }

// interleavedReadersFor restricts the clause to the named formats (nil: all, plus the cross-format pairs).
func interleavedReadersFor(r *core.Run, only []string) {
	use := func(name string) bool {
		if only == nil {
			return true
		}
		for _, o := range only {
			if o == name {
				return true
			}
		}
		return false
	}
	r.Bound("two-readers-interleaved", "same format: every ordered pair of small corpus files x EVERY interleaving of the pulls (items+1 pulls each); every ordered pair of medium files and the pair (9 KiB file, long-line file) x 4 fixed orders (alternating, pairs, A first, B first); different formats: the first medium file of each ordered pair of formats, alternating")
	core.Clause(r, "two-readers-interleaved", core.Opts{Rule: "two Reader iterators alive at once and advanced alternately by one goroutine: each yields exactly what it yields alone, item by item, and every retained record still renders the same after both have finished; non-trivial = both inputs hold at least one item"},
		func(emit func(interleaveCase) bool) {
			for _, f := range formats {
				if !use(f.Name) {
					continue
				}
				small := corpus(f.Name, "small")
				counts := make([]int, len(small))
				for i, d := range small {
					it, _ := soloItems(f.Name, d)
					counts[i] = len(it)
				}
				for i := range small {
					for j := range small {
						ok := interleavings(counts[i]+1, counts[j]+1, nil, func(s string) bool {
							return emit(interleaveCase{f.Name, fmt.Sprint("small/", i), f.Name, fmt.Sprint("small/", j), s})
						})
						if !ok {
							return
						}
					}
				}
				fixed := func(ca, cb string) bool {
					for _, s := range []string{"ABABABABABABABABABABABABABABABABABABABAB", "AABBAABBAABBAABBAABBAABBAABBAABBAABBAABB", "", "BBBBBBBBBBBBBBBBBBBBBBBBBBBBBBBBBBBBBBBBBBBBBBBBBBBBBBBBBBBBBBBBBBBBBBBBBBBBBBBBBBBBBBBB"} {
						if !emit(interleaveCase{f.Name, ca, f.Name, cb, s}) {
							return false
						}
					}
					return true
				}
				med := corpus(f.Name, "medium")
				for i := range med {
					for j := range med {
						if !fixed(fmt.Sprint("medium/", i), fmt.Sprint("medium/", j)) {
							return
						}
					}
				}
				if !fixed("large/0", "longline/0") || !fixed("longline/0", "large/0") || !fixed("large/0", "large/0") {
					return
				}
			}
			for _, fa := range formats {
				for _, fb := range formats {
					if only == nil && fa.Name != fb.Name && !emit(interleaveCase{fa.Name, "medium/0", fb.Name, "medium/0", "ABABABABABABABABABABABABABABAB"}) {
						return
					}
				}
			}
		}, checkInterleave)
}
