package props

import (
	"encoding/json"
	"fmt"
	"sort"
	"strings"

	"github.com/fluhus/biostuff/trie"

	"verif/mc/engine/bfs"
	"verif/mc/engine/core"
	"verif/mc/engine/enum"
	"verif/mc/ref"
)

func init() { register("C15", "model_checking", runC15) }

// A trie operation is written "+w" (Add) or "-w" (Delete).
type c15Case struct {
	Sigma core.S   `json:"alphabet"`
	D     int      `json:"max_word_len"`
	Words []core.S `json:"words,omitempty"` // if set: the word list used instead of alphabet^<=D
	Hist  []core.S `json:"history"`
	Op    core.S   `json:"op"`   // "" = per-state JSON differential only
	Mode  string   `json:"mode"` // "step" | "json"
}

func trieWords(c c15Case) []string {
	if len(c.Words) > 0 {
		out := make([]string, len(c.Words))
		for i, w := range c.Words {
			out[i] = string(w)
		}
		return out
	}
	return enum.AllStrings(string(c.Sigma), c.D)
}

func trieOps(c c15Case) []string {
	var ops []string
	for _, w := range trieWords(c) {
		ops = append(ops, "+"+w)
	}
	for _, w := range trieWords(c) {
		if w != "" {
			ops = append(ops, "-"+w)
		}
	}
	return ops
}

// trieProbes: every prefix of every word, and every word extended by one letter.
func trieProbes(c c15Case) []string {
	if len(c.Words) == 0 {
		return enum.AllStrings(string(c.Sigma), c.D+1)
	}
	set := map[string]struct{}{}
	for _, cw := range c.Words {
		w := string(cw)
		for i := 0; i <= len(w); i++ {
			set[w[:i]] = struct{}{}
		}
		for i := 0; i < len(c.Sigma); i++ {
			set[w+string(c.Sigma[i:i+1])] = struct{}{}
		}
	}
	var out []string
	for x := range set {
		out = append(out, x)
	}
	sort.Strings(out)
	return out
}

func applyTrieOp(t *trie.Trie, m ref.TrieSet, op string) (fail string) {
	w := op[1:]
	switch op[0] {
	case '+':
		arg := []byte(w)
		t.Add(arg)
		if string(arg) != w {
			return fmt.Sprintf("Add(%q) modified its argument", w)
		}
		for i := range arg { // the caller may reuse its buffer
			arg[i] = 'z'
		}
		m.Add(w)
	case '-':
		arg := []byte(w)
		got := t.Delete(arg)
		want := m.Delete(w)
		if got != want {
			return fmt.Sprintf("Delete(%q) returned %v, the set model says %v", w, got, want)
		}
		if string(arg) != w {
			return fmt.Sprintf("Delete(%q) modified its argument", w)
		}
	}
	return ""
}

// observeTrie compares Has over all probes and the ForEach multiset with the model.
func observeTrie(t *trie.Trie, m ref.TrieSet, probes []string, what string) string {
	for _, x := range probes {
		if got, want := t.Has([]byte(x)), m.Has(x); got != want {
			return fmt.Sprintf("%s: Has(%q) = %v, model %v (members %q)", what, x, got, want, m.Members())
		}
	}
	var got []string
	t.ForEach(func(b []byte) bool {
		got = append(got, string(b))
		return len(got) < 10000
	})
	sort.Strings(got)
	want := m.Members()
	if strings.Join(got, "\x00") != strings.Join(want, "\x00") || len(got) != len(want) {
		return fmt.Sprintf("%s: ForEach reported %q, model members %q", what, got, want)
	}
	return ""
}

func trieKey(t *trie.Trie) (string, string) {
	b, err := json.Marshal(t)
	if err != nil {
		return "", "MarshalJSON failed: " + err.Error()
	}
	return string(b), ""
}

// trieStep executes one transition on a fresh real trie.
func trieStep(c c15Case, probes []string) (key string, out core.Outcome) {
	var fail string
	p := catch(func() {
		t := trie.New()
		m := ref.TrieSet{}
		for _, op := range c.Hist {
			if f := applyTrieOp(t, m, string(op)); f != "" {
				fail = "while replaying history: " + f
				return
			}
		}
		if c.Mode == "json" {
			fail = trieJSONDifferential(t, m, c, probes)
			key, _ = trieKey(t)
			return
		}
		if f := applyTrieOp(t, m, string(c.Op)); f != "" {
			fail = f
			return
		}
		if f := observeTrie(t, m, probes, "after "+string(c.Op)); f != "" {
			fail = f
			return
		}
		key, fail = trieKey(t)
		if fail != "" {
			return
		}
		// Second pass: the same transition with every observer called BEFORE the operation as well
		// (and once in the middle of the history). Observers are pure, so this must change nothing;
		// anything an observer builds lazily and an operation forgets to drop shows here.
		t2 := trie.New()
		m2 := ref.TrieSet{}
		for i, op := range c.Hist {
			if i == len(c.Hist)/2 {
				if f := observeTrie(t2, m2, probes, fmt.Sprintf("(observed pass) after %d operations of the history", i)); f != "" {
					fail = f
					return
				}
			}
			if f := applyTrieOp(t2, m2, string(op)); f != "" {
				fail = "while replaying history (observed pass): " + f
				return
			}
		}
		stoppedRun := func(stop int) {
			n := 0
			t2.ForEach(func([]byte) bool { n++; return n < stop })
		}
		stoppedRun(1) // a consumer that stops ForEach early (C18) is an observer too
		if f := observeTrie(t2, m2, probes, "(observed pass) after a ForEach stopped at its first item, before "+string(c.Op)); f != "" {
			fail = f
			return
		}
		stoppedRun(2)
		if _, f := trieKey(t2); f != "" {
			fail = f
			return
		}
		if f := applyTrieOp(t2, m2, string(c.Op)); f != "" {
			fail = "(observed pass) " + f
			return
		}
		if f := observeTrie(t2, m2, probes, "after "+string(c.Op)+" when Has/ForEach/MarshalJSON had been called before it"); f != "" {
			fail = f
			return
		}
		if k2, _ := trieKey(t2); k2 != key {
			fail = fmt.Sprintf("the state after %s differs when observers were called before it: %s vs %s", c.Op, k2, key)
		}
	})
	if p != "" {
		return "", core.Failf("history %v op %q panicked: %s", c.Hist, c.Op, p)
	}
	if fail != "" {
		return "", core.Failf("history %v: %s", c.Hist, fail)
	}
	cl := "add"
	if c.Mode == "json" {
		cl = "json"
	} else if c.Op[0] == '-' {
		cl = "delete"
	}
	return key, core.Outcome{Class: cl, Nontrivial: len(c.Hist) >= 1}
}

// trieJSONDifferential: a trie rebuilt from JSON (into New() and into &Trie{}) is
// indistinguishable from the original: same observations, and every operation leads to the same
// state as on the original ("reached from elsewhere" differential).
func trieJSONDifferential(t *trie.Trie, m ref.TrieSet, c c15Case, probes []string) string {
	js, f := trieKey(t)
	if f != "" {
		return f
	}
	ops := trieOps(c)
	for variant := 0; variant < 2; variant++ {
		mk := func() (*trie.Trie, string) {
			var t2 *trie.Trie
			if variant == 0 {
				t2 = trie.New()
			} else {
				t2 = &trie.Trie{}
			}
			if err := json.Unmarshal([]byte(js), t2); err != nil {
				return nil, "UnmarshalJSON failed on own output: " + err.Error()
			}
			return t2, ""
		}
		t2, f := mk()
		if f != "" {
			return f
		}
		if f := observeTrie(t2, m, probes, fmt.Sprintf("rebuilt from JSON (variant %d)", variant)); f != "" {
			return f
		}
		if k2, _ := trieKey(t2); k2 != js {
			return fmt.Sprintf("rebuilt trie marshals to %s, original to %s", k2, js)
		}
		for _, op := range ops {
			// original + op
			t1 := trie.New()
			m1 := ref.TrieSet{}
			for _, h := range c.Hist {
				applyTrieOp(t1, m1, string(h))
			}
			if f := applyTrieOp(t1, m1, op); f != "" {
				return f
			}
			k1, _ := trieKey(t1)
			// rebuilt + op
			t2, _ := mk()
			m2 := ref.TrieSet{}
			for x := range m {
				m2[x] = struct{}{}
			}
			if f := applyTrieOp(t2, m2, op); f != "" {
				return fmt.Sprintf("on the trie rebuilt from JSON (variant %d): %s", variant, f)
			}
			if f := observeTrie(t2, m2, probes, fmt.Sprintf("rebuilt from JSON (variant %d) then %s", variant, op)); f != "" {
				return f
			}
			k2, _ := trieKey(t2)
			if k1 != k2 {
				return fmt.Sprintf("op %s on the original gives %s, on the JSON-rebuilt copy %s", op, k1, k2)
			}
		}
	}
	return ""
}

type c15Byte struct {
	Byte int `json:"byte"`
}

func c15AllBytes(r *core.Run) {
	core.Clause(r, "all-bytes-words", core.Opts{Rule: "for every byte value b: the words [b], [a b], [b a], [b b] and [b^1 b] go through Add / Has / ForEach / JSON rebuild (into New() and &Trie{}) / Delete next to the set model; non-trivial = all"},
		func(emit func(c15Byte) bool) {
			for b := 0; b < 256; b++ {
				emit(c15Byte{b})
			}
		},
		func(c c15Byte) core.Outcome {
			b := byte(c.Byte)
			words := []string{string([]byte{b}), string([]byte{'a', b}), string([]byte{b, 'a'}), string([]byte{b, b}), string([]byte{b ^ 1, b})}
			var probes []string
			for _, w := range words {
				probes = append(probes, w, w[:1], w+"z")
			}
			var fail string
			p := catch(func() {
				t := trie.New()
				m := ref.TrieSet{}
				for i, w := range words {
					if f := applyTrieOp(t, m, "+"+w); f != "" {
						fail = f
						return
					}
					if f := observeTrie(t, m, probes, fmt.Sprintf("after adding %q", words[:i+1])); f != "" {
						fail = f
						return
					}
					js, f := trieKey(t)
					if f != "" {
						fail = f
						return
					}
					for variant := 0; variant < 2; variant++ {
						t2 := trie.New()
						if variant == 1 {
							t2 = &trie.Trie{}
						}
						if err := json.Unmarshal([]byte(js), t2); err != nil {
							fail = "UnmarshalJSON failed on own output: " + err.Error()
							return
						}
						if f := observeTrie(t2, m, probes, fmt.Sprintf("rebuilt from JSON after adding %q", words[:i+1])); f != "" {
							fail = f
							return
						}
					}
				}
				for _, w := range []string{words[3], words[0], words[1]} {
					if f := applyTrieOp(t, m, "-"+w); f != "" {
						fail = f
						return
					}
					if f := observeTrie(t, m, probes, fmt.Sprintf("after deleting %q", w)); f != "" {
						fail = f
						return
					}
				}
			})
			if p != "" {
				return core.Failf("byte %#x: panic: %s", c.Byte, p)
			}
			if fail != "" {
				return core.Failf("byte %#x: %s", c.Byte, fail)
			}
			return core.Outcome{Class: "ok", Nontrivial: true, Evals: 30}
		})
}

// c15Fan: a node is filled with children one by one up to the full byte alphabet.
type c15Fan struct {
	Prefix core.S `json:"prefix"` // the node that is filled sits below this prefix
	Order  string `json:"order"`  // ascending | descending | stride-97 (a permutation of 0..255)
	Tail   core.S `json:"tail"`   // appended to every child (children are inner nodes when non-empty)
}

func c15FanOut(r *core.Run) {
	core.Clause(r, "fan-out", core.Opts{Rule: "one node receives children for ALL 256 byte values, one Add at a time (3 insertion orders; node at the root, below a 1-byte and below a 3-byte prefix; children as leaves and as inner nodes; a sibling branch next to it): after EVERY Add (fan-out 1..256) Has on every child / prefix / extension and the ForEach multiset against the set model; at fan-out 255 and 256 also the JSON rebuild; then every child is deleted again, observed after each Delete; non-trivial = all",
		Bounds: "fan-out 1..256 at one node x 3 orders x 3 prefixes x 2 child shapes"},
		func(emit func(c15Fan) bool) {
			for _, pre := range []string{"", "x", "\x00\xffq"} {
				for _, ord := range []string{"ascending", "descending", "stride-97"} {
					for _, tail := range []string{"", "tt"} {
						if !emit(c15Fan{core.S(pre), ord, core.S(tail)}) {
							return
						}
					}
				}
			}
		},
		func(c c15Fan) core.Outcome {
			order := make([]byte, 256)
			for i := range order {
				switch c.Order {
				case "ascending":
					order[i] = byte(i)
				case "descending":
					order[i] = byte(255 - i)
				default:
					order[i] = byte(i * 97) // 97 is odd: a permutation of the 256 values
				}
			}
			pre, tail := string(c.Prefix), string(c.Tail)
			var probes []string
			for b := 0; b < 256; b++ {
				w := pre + string([]byte{byte(b)}) + tail
				probes = append(probes, w)
				if b%16 == 0 || b >= 254 {
					probes = append(probes, w+"z", pre+string([]byte{byte(b)}))
				}
			}
			probes = append(probes, "", pre, "yz", "y", "yzz")
			var fail string
			evals := 0
			p := catch(func() {
				t := trie.New()
				m := ref.TrieSet{}
				if f := applyTrieOp(t, m, "+yz"); f != "" {
					fail = f
					return
				}
				for i, b := range order {
					w := pre + string([]byte{b}) + tail
					if f := applyTrieOp(t, m, "+"+w); f != "" {
						fail = f
						return
					}
					evals++
					if f := observeTrie(t, m, probes, fmt.Sprintf("the node below %q has %d children", pre, i+1)); f != "" {
						fail = f
						return
					}
					if i >= 254 {
						js, f := trieKey(t)
						if f != "" {
							fail = f
							return
						}
						t2 := trie.New()
						if err := json.Unmarshal([]byte(js), t2); err != nil {
							fail = "UnmarshalJSON failed on own output: " + err.Error()
							return
						}
						if f := observeTrie(t2, m, probes, fmt.Sprintf("rebuilt from JSON when the node below %q has %d children", pre, i+1)); f != "" {
							fail = f
							return
						}
					}
				}
				for i, b := range order {
					w := pre + string([]byte{b}) + tail
					if f := applyTrieOp(t, m, "-"+w); f != "" {
						fail = f
						return
					}
					evals++
					if f := observeTrie(t, m, probes, fmt.Sprintf("%d of the 256 children below %q deleted again", i+1, pre)); f != "" {
						fail = f
						return
					}
				}
			})
			if p != "" {
				return core.Failf("fan-out below %q (%s): panic: %s", pre, c.Order, p)
			}
			if fail != "" {
				return core.Failf("fan-out below %q (%s order, children %q+b+%q): %s", pre, c.Order, pre, tail, trunc(fail, 600))
			}
			return core.Outcome{Class: "ok", Nontrivial: true, Evals: evals}
		})
}

// c15Reuse: ONE caller buffer is used for all arguments of a history (Has, Add, Delete), overwritten in
// place between the calls.
type c15Reuse struct {
	Words []core.S `json:"members"`
	Args  []core.S `json:"arguments_in_order"`
}

func c15BufferReuse(r *core.Run) {
	words := [][]string{{"acgt", "ggca"}, {"ab", "abc", "b"}, {"a"}, {}}
	probes := []string{"", "a", "b", "ab", "ac", "abc", "acgt", "tttt", "ggca", "ggc", "acg", "bb"}
	core.Clause(r, "arguments-in-one-reused-buffer", core.Opts{Rule: "every ordered triple of probes from a menu of 12 is passed to Has through ONE caller buffer that is overwritten in place between the calls (same address; same or another length), on each of 4 member sets; then the same buffer is used for Add and Delete and Has again: every answer is the set model's (a trie that remembers its argument by address instead of by content shows here); non-trivial = all",
		Bounds: "4 member sets x 12^3 probe triples"},
		func(emit func(c15Reuse) bool) {
			for _, ws := range words {
				for _, a := range probes {
					for _, b := range probes {
						for _, c := range probes {
							if !emit(c15Reuse{core.SS(ws...), core.SS(a, b, c)}) {
								return
							}
						}
					}
				}
			}
		},
		func(c c15Reuse) core.Outcome {
			var fail string
			p := catch(func() {
				t := trie.New()
				m := ref.TrieSet{}
				for _, w := range c.Words {
					t.Add([]byte(w))
					m.Add(string(w))
				}
				buf := make([]byte, 8)
				use := func(x core.S) []byte {
					n := copy(buf, x)
					return buf[:n]
				}
				for round := 0; round < 2 && fail == ""; round++ {
					for i, x := range c.Args {
						if got, want := t.Has(use(x)), m.Has(string(x)); got != want {
							fail = fmt.Sprintf("round %d: Has(%q) through the reused buffer (call %d of %q) = %v, model %v", round, x, i+1, c.Args, got, want)
							return
						}
					}
					// the same buffer as the argument of Add and Delete
					x := c.Args[round%len(c.Args)]
					if len(x) > 0 {
						t.Add(use(x))
						m.Add(string(x))
						use(c.Args[(round+1)%len(c.Args)]) // the caller moves on
						for _, y := range c.Args {
							if got, want := t.Has(use(y)), m.Has(string(y)); got != want {
								fail = fmt.Sprintf("after Add(%q) through the reused buffer: Has(%q) = %v, model %v", x, y, got, want)
								return
							}
						}
						if got, want := t.Delete(use(x)), m.Delete(string(x)); got != want {
							fail = fmt.Sprintf("Delete(%q) through the reused buffer = %v, model %v", x, got, want)
							return
						}
					}
				}
				fail = observeTrie(t, m, []string{"", "a", "ab", "abc", "acgt", "ggca", "tttt", "b"}, "at the end")
			})
			if p != "" {
				return core.Failf("members %q, arguments %q through one reused buffer: panic: %s", c.Words, c.Args, p)
			}
			if fail != "" {
				return core.Failf("members %q: %s", c.Words, fail)
			}
			return core.Outcome{Class: fmt.Sprint("members=", len(c.Words)), Nontrivial: true, Evals: 12}
		})
}

func runC15(r *core.Run) {
	firstCallClause(r, "trie")
	racePass(r, "race-C15", "Has, ForEach and MarshalJSON on one shared trie")

	c15AllBytes(r)
	c15FanOut(r)
	c15BufferReuse(r)
	c15ManyWords(r)
	c15NestedForEach(r)
	// The BFS below merges histories that reach the same trie (its state key is the JSON form). That is
	// sound for state held IN the trie; state held beside it (a package-level hint about the last Add, a
	// cache keyed by the last argument) is not part of the key, so two histories with equal keys may have
	// different futures. Here every operation SEQUENCE up to a depth is executed on its own, unmerged.
	type c15Seq struct {
		Ops []core.S `json:"operations"`
	}
	seqOps := []string{"+", "+a", "+b", "+aa", "+ab", "+ba", "+bb", "-a", "-b", "-aa", "-ab", "-ba", "-bb"}
	seqDepth := core.Pick(r, 5, 6)
	seqProbes := enum.AllStrings("ab", 3)
	r.Bound("all-operation-sequences", fmt.Sprintf("every sequence of 1..%d operations from %q (Add and Delete of every word over {a,b} up to length 2, Add of the empty word): %d sequences at the deepest level", seqDepth, seqOps, pow(len(seqOps), seqDepth)))
	core.Clause(r, "all-operation-sequences", core.Opts{Rule: "every operation sequence up to the depth, each on a fresh trie next to the set model, NOT merged by reached state: every Delete result, then Has on all words up to length 3, the ForEach multiset and the JSON rebuild at the end of the sequence (every prefix is a sequence of its own); non-trivial = at least 2 operations"},
		func(emit func(c15Seq) bool) {
			for d := 1; d <= seqDepth; d++ {
				idx := make([]int, d)
				for {
					ops := make([]core.S, d)
					for i, x := range idx {
						ops[i] = core.S(seqOps[x])
					}
					if !emit(c15Seq{ops}) {
						return
					}
					i := d - 1
					for i >= 0 {
						idx[i]++
						if idx[i] < len(seqOps) {
							break
						}
						idx[i] = 0
						i--
					}
					if i < 0 {
						break
					}
				}
			}
		},
		func(c c15Seq) core.Outcome {
			var fail string
			p := catch(func() {
				t := trie.New()
				m := ref.TrieSet{}
				for i, op := range c.Ops {
					if f := applyTrieOp(t, m, string(op)); f != "" {
						fail = fmt.Sprintf("operation %d of %q: %s", i+1, c.Ops, f)
						return
					}
				}
				if f := observeTrie(t, m, seqProbes, fmt.Sprintf("after %q", c.Ops)); f != "" {
					fail = f
					return
				}
				js, f := trieKey(t)
				if f != "" {
					fail = f
					return
				}
				back := trie.New()
				if err := json.Unmarshal([]byte(js), back); err != nil {
					fail = fmt.Sprintf("after %q: UnmarshalJSON(%s): %v", c.Ops, js, err)
					return
				}
				fail = observeTrie(back, m, seqProbes, fmt.Sprintf("trie rebuilt from the JSON form %s after %q", js, c.Ops))
			})
			if p != "" {
				return core.Failf("operations %q: panic: %s", c.Ops, p)
			}
			if fail != "" {
				return core.Failf("%s", fail)
			}
			return core.Outcome{Class: fmt.Sprint("ops=", len(c.Ops)), Nontrivial: len(c.Ops) >= 2, Evals: len(c.Ops) + 3}
		})

	type cfg struct {
		sigma string
		d     int
		words []string
		name  string
	}
	deep := []string{"", "a", "aa", "aaa", "aaaa", "aaaaa", "aab", "aabb", "aabba", "ab", "abab", "b", "ba"}
	long := []string{"a", strings.Repeat("a", 7), strings.Repeat("a", 8), strings.Repeat("a", 9), strings.Repeat("a", 8) + "b", strings.Repeat("a", 17), strings.Repeat("a", 33),
		strings.Repeat("ab", 33), strings.Repeat("b", 65), strings.Repeat("b", 64) + "a", "b" + strings.Repeat("a", 130)}
	cfgs := []cfg{{"ab", 3, nil, "bfs-ab-len3"}, {"abc", 2, nil, "bfs-abc-len2"}, {"ab", 5, deep, "bfs-deep-words"}, {"ab", 131, long, "bfs-long-words"},
		{"\x80\xff\"", 2, nil, "bfs-high-bytes"},
		{"\x00\x7f\\", 2, nil, "bfs-control-bytes"},
		{"abcdefghijkl", 2, []string{"a", "j", "ja", "jb", "jc", "jd", "je", "jf", "jg", "jh", "ji", "jj"}, "bfs-wide-nodes"}}
	if r.Thorough() {
		cfgs = append(cfgs, cfg{"ab", 4, nil, "bfs-ab-len4"})
	}
	r.Assume("the state key is the MarshalJSON text of the real trie: the trie consists of nested maps only, so equal keys are equal states")
	for _, cf := range cfgs {
		base := c15Case{Sigma: core.S(cf.sigma), D: cf.d, Words: core.SS(cf.words...)}
		if len(cf.words) == 0 {
			base.Words = nil
		}
		ops := trieOps(base)
		probes := trieProbes(base)
		name := cf.name
		check := func(c c15Case) core.Outcome {
			_, out := trieStep(c, trieProbes(c))
			return out
		}
		m := core.Begin(r, name, core.Opts{
			Rule:   "explicit-state BFS: every reachable trie state x every Add(w)/Delete(w), w over the alphabet up to the word length; each transition replayed on a fresh real trie next to the set model and observed (Delete result, Has on all probes, ForEach multiset, argument aliasing), once with observers only after the operation and once with Has/ForEach/MarshalJSON and ForEach runs stopped after 1 and 2 items also called before it and in the middle of the history (both passes must reach the same state); once per state the JSON-rebuild differential incl. every operation on the rebuilt copy; non-trivial = history length >= 1",
			Bounds: fmt.Sprintf("alphabet %q, words up to %d, %d operations, probes up to length %d", cf.sigma, cf.d, len(ops), cf.d+1),
		}, check)
		if m == nil {
			continue
		}
		toOps := func(h []int) []core.S {
			out := make([]core.S, len(h))
			for i, x := range h {
				out[i] = core.S(ops[x])
			}
			return out
		}
		initKey, _ := trieKey(trie.New())
		stats := bfs.Search(initKey, len(ops),
			func(hist []int, op int) bfs.Result {
				c := c15Case{base.Sigma, cf.d, base.Words, toOps(hist), core.S(ops[op]), "step"}
				key, out := trieStep(c, probes)
				m.Record(int64(len(hist))<<32|int64(op), c, out)
				return bfs.Result{Key: key, Fail: out.Fail, Obs: out.Class}
			},
			func(hist []int) string {
				c := c15Case{base.Sigma, cf.d, base.Words, toOps(hist), "", "json"}
				_, out := trieStep(c, probes)
				out.Evals = 2 * (1 + len(ops))
				m.Record(int64(len(hist))<<32|0xffff, c, out)
				return out.Fail
			}, 0, r.Expired)
		if !stats.Complete && len(stats.Fails) == 0 {
			m.Incomplete(fmt.Sprintf("soft deadline reached at depth %d with %d states", stats.MaxDepth, stats.States))
		}
		r.Bound(name, fmt.Sprintf("states=%d transitions=%d max_depth=%d complete=%v", stats.States, stats.Transitions, stats.MaxDepth, stats.Complete))
		m.End(stats.States, stats.Transitions)
	}
}

func pow(b, e int) int {
	out := 1
	for i := 0; i < e; i++ {
		out *= b
	}
	return out
}

// c15ManyWords: a trie that changes its representation with size (children in an array up to some
// count, a map beyond; words above some length stored as a tail) goes wrong at one size only. EVERY
// number of members 0..N and EVERY word length 0..N are met: members are added one at a time, every
// few steps the trie is observed, rebuilt from JSON and observed again; then the members are deleted
// one at a time in another order, observed the same way.
func c15ManyWords(r *core.Run) {
	type c15Many struct {
		Kind string `json:"kind"`
		N    int    `json:"n"`
	}
	hi := core.Pick(r, 300, 1200)
	r.Bound("many-words", fmt.Sprintf("tries growing to %d members (words = base-3 numerals over {a,b,c} behind a common prefix; words of the SAME length so none absorbs another) and single words of every length 0..%d; observed after every step", hi, hi))
	core.Clause(r, "many-words", core.Opts{Rule: "kind 'members': n words are added one by one and then deleted one by one in a different order, after EVERY step Has on the word / a prefix / an extension and the ForEach multiset against the set model, and a JSON rebuild every 16 steps; kind 'length': one word of n bytes next to a sibling that shares n-1 of them: Add, Has on every prefix, JSON rebuild, Delete of the sibling, Delete; non-trivial = n >= 2"},
		func(emit func(c15Many) bool) {
			emit(c15Many{"members", hi})
			for n := 0; n <= hi; n++ {
				if !emit(c15Many{"length", n}) {
					return
				}
			}
		},
		func(c c15Many) core.Outcome {
			var fail string
			evals := 0
			p := catch(func() {
				t, m := trie.New(), ref.TrieSet{}
				rebuild := func(what string) bool {
					b, err := json.Marshal(t)
					if err != nil {
						fail = what + ": MarshalJSON failed: " + err.Error()
						return false
					}
					t2 := trie.New()
					if err := json.Unmarshal(b, t2); err != nil {
						fail = what + ": UnmarshalJSON failed on own output: " + err.Error()
						return false
					}
					var got []string
					t2.ForEach(func(b []byte) bool { got = append(got, string(b)); return true })
					sort.Strings(got)
					if want := m.Members(); strings.Join(got, "\x00") != strings.Join(want, "\x00") || len(got) != len(want) {
						fail = fmt.Sprintf("%s: the trie rebuilt from JSON has %d members, the model %d", what, len(got), len(want))
						return false
					}
					return true
				}
				if c.Kind == "length" {
					w := make([]byte, c.N)
					for i := range w {
						w[i] = "abc"[(i+i/3+i/7)%3]
					}
					sib := append([]byte(nil), w...)
					if c.N > 0 {
						sib[c.N-1] = 'z'
					}
					for _, op := range []string{"+" + string(w), "+" + string(sib)} {
						if fail = applyTrieOp(t, m, op); fail != "" {
							return
						}
					}
					evals += 2
					for i := 0; i <= c.N; i++ {
						if got, want := t.Has(w[:i]), m.Has(string(w[:i])); got != want {
							fail = fmt.Sprintf("word of %d bytes: Has(prefix of %d bytes) = %v, model %v", c.N, i, got, want)
							return
						}
					}
					if fail = observeTrie(t, m, []string{string(w), string(sib), string(w) + "a"}, fmt.Sprintf("word of %d bytes and its sibling", c.N)); fail != "" || !rebuild(fmt.Sprintf("word of %d bytes", c.N)) {
						return
					}
					if c.N > 0 {
						if fail = applyTrieOp(t, m, "-"+string(sib)); fail != "" {
							return
						}
						if fail = observeTrie(t, m, []string{string(w), string(sib), string(w[:c.N-1])}, fmt.Sprintf("word of %d bytes after its sibling was deleted", c.N)); fail != "" {
							return
						}
						if fail = applyTrieOp(t, m, "-"+string(w)); fail != "" {
							return
						}
						fail = observeTrie(t, m, []string{string(w), string(w[:1])}, fmt.Sprintf("after the word of %d bytes was deleted", c.N))
					}
					return
				}
				word := func(i int) string {
					b := []byte("p......")
					for j := 6; j >= 1; j-- {
						b[j] = "abc"[i%3]
						i /= 3
					}
					return string(b)
				}
				for i := 0; i < c.N; i++ {
					w := word(i * 7 % c.N) // not in lexical order
					if fail = applyTrieOp(t, m, "+"+w); fail != "" {
						return
					}
					evals++
					if fail = observeTrie(t, m, []string{w, w[:3], w + "a", word((i + 1) * 7 % c.N)}, fmt.Sprintf("after %d Adds", i+1)); fail != "" {
						return
					}
					if i%16 == 15 && !rebuild(fmt.Sprintf("after %d Adds", i+1)) {
						return
					}
				}
				for i := 0; i < c.N; i++ {
					w := word(i * 11 % c.N)
					if fail = applyTrieOp(t, m, "-"+w); fail != "" {
						return
					}
					evals++
					if fail = observeTrie(t, m, []string{w, w[:3], word((i + 1) * 11 % c.N)}, fmt.Sprintf("after %d Adds and %d Deletes", c.N, i+1)); fail != "" {
						return
					}
					if i%16 == 15 && !rebuild(fmt.Sprintf("after %d Adds and %d Deletes", c.N, i+1)) {
						return
					}
				}
			})
			if p != "" {
				return core.Failf("%s %d: panic: %s", c.Kind, c.N, p)
			}
			if fail != "" {
				return core.Failf("%s", fail)
			}
			return core.Outcome{Class: c.Kind, Nontrivial: c.N >= 2, Evals: max(evals, 1)}
		})
}

// c15NestedForEach: ForEach is read-only, so its callback may look at the trie again: Has, and ForEach
// itself (all-pairs loops over the members are written that way). The outer walk must still report every
// member exactly once; the inner one too. A path buffer kept in the trie between calls serves one walk
// at a time and shows only when a walk starts while another is in progress - and only after some earlier
// walk has left the buffer behind, so one complete walk comes first.
func c15NestedForEach(r *core.Run) {
	type c15Nest struct {
		Words []string `json:"words"`
	}
	words := enum.AllStrings("ab", 3)[1:]
	r.Bound("nested-foreach", "every reachable trie over {a,b}^<=3 (676 states) and every non-empty subset of 6 long words sharing prefixes of 2..70 bytes; after one complete ForEach: an outer ForEach whose callback runs a complete inner ForEach and Has on every word, at every outer position")
	core.Clause(r, "nested-foreach", core.Opts{Rule: "one complete ForEach, then ForEach with a complete ForEach (and Has of every probe) inside its callback at EVERY outer position: outer and every inner walk report exactly the members, each once; non-trivial = at least 2 members"},
		func(emit func(c15Nest) bool) {
			seen := map[string]bool{}
			for mask := 0; mask < 1<<len(words); mask++ {
				var ws []string
				t := trie.New()
				for i, w := range words {
					if mask>>i&1 == 1 {
						ws = append(ws, w)
						t.Add([]byte(w))
					}
				}
				k, _ := json.Marshal(t)
				if seen[string(k)] {
					continue
				}
				seen[string(k)] = true
				if !emit(c15Nest{ws}) {
					return
				}
			}
			long := []string{strings.Repeat("a", 9), strings.Repeat("a", 8) + "b", strings.Repeat("b", 20), strings.Repeat("ab", 35), strings.Repeat("ab", 34) + "ba", "aa1"}
			for mask := 1; mask < 1<<len(long); mask++ {
				var ws []string
				for i, w := range long {
					if mask>>i&1 == 1 {
						ws = append(ws, w)
					}
				}
				if !emit(c15Nest{ws}) {
					return
				}
			}
		},
		func(c c15Nest) core.Outcome {
			t, m := trie.New(), ref.TrieSet{}
			for _, w := range c.Words {
				t.Add([]byte(w))
				m.Add(w)
			}
			want := strings.Join(m.Members(), "\x00")
			walk := func(inside func()) string {
				var got []string
				t.ForEach(func(b []byte) bool {
					got = append(got, string(b))
					if inside != nil {
						inside()
					}
					return len(got) < 1000
				})
				sort.Strings(got)
				return strings.Join(got, "\x00")
			}
			var fail string
			evals := 0
			p := catch(func() {
				if got := walk(nil); got != want {
					fail = fmt.Sprintf("ForEach reports %q, members %q", got, want)
					return
				}
				evals++
				for at := 1; at <= len(m); at++ {
					n := 0
					outer := walk(func() {
						n++
						if n != at {
							return
						}
						evals++
						if inner := walk(nil); inner != want && fail == "" {
							fail = fmt.Sprintf("a complete ForEach started from the callback of another one (at its item %d) reports %q, members %q", at, strings.ReplaceAll(inner, "\x00", " "), m.Members())
						}
						for _, w := range c.Words {
							if !t.Has([]byte(w)) && fail == "" {
								fail = fmt.Sprintf("Has(%q) is false inside a ForEach callback", w)
							}
						}
					})
					evals++
					if fail != "" {
						return
					}
					if outer != want {
						fail = fmt.Sprintf("ForEach whose callback ran another complete ForEach at item %d reports %q, members %q", at, strings.ReplaceAll(outer, "\x00", " "), m.Members())
						return
					}
				}
			})
			if p != "" {
				return core.Failf("trie of %q: nested ForEach: panic: %s", c.Words, p)
			}
			if fail != "" {
				return core.Failf("trie of %q: %s", c.Words, fail)
			}
			return core.Outcome{Class: fmt.Sprint("members=", min(len(m), 3)), Nontrivial: len(m) >= 2, Evals: max(1, evals)}
		})
}
