package props

import (
	"bytes"
	"compress/gzip"
	"encoding/json"
	"fmt"
	"io"
	"iter"
	"os"
	"path/filepath"
	"slices"
	"sort"
	"strings"

	"github.com/fluhus/biostuff/formats/bed"
	"github.com/fluhus/biostuff/formats/fasta"
	"github.com/fluhus/biostuff/formats/fastq"
	"github.com/fluhus/biostuff/formats/newick"
	"github.com/fluhus/biostuff/formats/sam"
	"github.com/fluhus/biostuff/sequtil"
	"github.com/fluhus/biostuff/trie"

	"verif/mc/engine/core"
	"verif/mc/engine/enum"
	"verif/mc/engine/envio"
)

func init() { register("C18", "exploration", runC18) }

// stopFn runs an iterator and stops it at the stopAt-th callback (0 = never). rangeForm selects
// `for range` + break instead of a direct call with a yield function that returns false.
// It returns the items seen, the number of callbacks made and a recovered panic.
type stopFn func(stopAt int, rangeForm bool) (items []string, calls int, panicS string)

func stop2[T any](seq iter.Seq2[T, error], render func(T) string) stopFn {
	return func(stopAt int, rangeForm bool) (items []string, calls int, panicS string) {
		add := func(v T, err error) {
			calls++
			if err != nil {
				items = append(items, "ERR")
			} else {
				items = append(items, render(v))
			}
		}
		panicS = catch(func() {
			if rangeForm {
				for v, err := range seq {
					add(v, err)
					if calls == stopAt || calls > 1<<16 {
						break
					}
				}
				return
			}
			seq(func(v T, err error) bool {
				add(v, err)
				return !(calls >= stopAt && stopAt > 0) && calls <= 1<<16
			})
		})
		return
	}
}

func stop1[T any](seq iter.Seq[T], render func(T) string) stopFn {
	return func(stopAt int, rangeForm bool) (items []string, calls int, panicS string) {
		panicS = catch(func() {
			if rangeForm {
				for v := range seq {
					calls++
					items = append(items, render(v))
					if calls == stopAt || calls > 1<<20 {
						break
					}
				}
				return
			}
			seq(func(v T) bool {
				calls++
				items = append(items, render(v))
				return !(calls >= stopAt && stopAt > 0) && calls <= 1<<20
			})
		})
		return
	}
}

// readerStop builds the stopFn of a format's Reader-style iterator over data.
func readerStop(format string, data []byte) stopFn {
	return readerStopFrom(format, func() io.Reader { return bytes.NewReader(data) })
}

// readerStopFrom is readerStop over a reader factory (one fresh reader per run).
func readerStopFrom(format string, mk func() io.Reader) stopFn {
	switch format {
	case "fasta":
		return func(s int, rf bool) ([]string, int, string) { return stop2(fasta.Reader(mk()), renderFasta)(s, rf) }
	case "fastq":
		return func(s int, rf bool) ([]string, int, string) { return stop2(fastq.Reader(mk()), renderFastq)(s, rf) }
	case "sam":
		return func(s int, rf bool) ([]string, int, string) { return stop2(sam.Reader(mk()), renderSAM)(s, rf) }
	case "samh":
		return func(s int, rf bool) ([]string, int, string) {
			return stop2(sam.ReaderHeader(mk()), renderSAMOrHeader)(s, rf)
		}
	case "bed":
		return func(s int, rf bool) ([]string, int, string) { return stop2(bed.Reader(mk()), renderBED)(s, rf) }
	case "newick":
		return func(s int, rf bool) ([]string, int, string) { return stop2(newick.Reader(mk()), renderNewick)(s, rf) }
	}
	panic("format " + format)
}

func fileStop(format, path string) stopFn {
	switch format {
	case "fasta":
		return func(s int, rf bool) ([]string, int, string) { return stop2(fasta.File(path), renderFasta)(s, rf) }
	case "fastq":
		return func(s int, rf bool) ([]string, int, string) { return stop2(fastq.File(path), renderFastq)(s, rf) }
	case "sam":
		return func(s int, rf bool) ([]string, int, string) { return stop2(sam.File(path), renderSAM)(s, rf) }
	case "samh":
		return func(s int, rf bool) ([]string, int, string) {
			return stop2(sam.FileHeader(path), renderSAMOrHeader)(s, rf)
		}
	case "bed":
		return func(s int, rf bool) ([]string, int, string) { return stop2(bed.File(path), renderBED)(s, rf) }
	case "newick":
		return func(s int, rf bool) ([]string, int, string) { return stop2(newick.File(path), renderNewick)(s, rf) }
	}
	panic("format " + format)
}

// checkStops runs the iterator uninterrupted, then with every stop position in both forms.
// unordered: the items of a stopped run must be distinct members of the full result instead of
// its prefix. errLast: an "ERR" item must be the last item of the uninterrupted run.
func checkStops(what string, f stopFn, unordered, errLast bool) core.Outcome {
	full, calls, p := f(0, false)
	if p != "" {
		return core.Failf("%s: uninterrupted run panicked: %s", what, p)
	}
	if calls > 1<<16 && !unordered {
		return core.Failf("%s: uninterrupted run does not end", what)
	}
	if errLast {
		for i, it := range full {
			if it == "ERR" && i != len(full)-1 {
				return core.Failf("%s: an error item at position %d of %d is followed by further items: %s", what, i+1, len(full), trunc(fmt.Sprint(full), 300))
			}
		}
	}
	fullRange, _, p2 := f(0, true)
	if p2 != "" || len(fullRange) != len(full) {
		return core.Failf("%s: uninterrupted range-form run differs (panic %q, %d vs %d items)", what, p2, len(fullRange), len(full))
	}
	evals := 2
	members := map[string]int{}
	for _, it := range full {
		members[it]++
	}
	for t := 1; t <= len(full); t++ {
		for _, rf := range []bool{false, true} {
			items, calls, p := f(t, rf)
			evals++
			form := map[bool]string{false: "yield returning false", true: "range + break"}[rf]
			if p != "" {
				return core.Failf("%s: stopping at item %d of %d (%s) panicked: %s", what, t, len(full), form, p)
			}
			if calls != t {
				return core.Failf("%s: stopping at item %d of %d (%s): %d callbacks were made, want exactly %d", what, t, len(full), form, calls, t)
			}
			if unordered {
				seen := map[string]int{}
				for _, it := range items {
					seen[it]++
					if seen[it] > members[it] {
						return core.Failf("%s: stopped run reports %q which is not a distinct member of the full result %v", what, it, full)
					}
				}
				continue
			}
			for i := range items {
				if items[i] != full[i] {
					return core.Failf("%s: stopping at item %d (%s): item %d is %s, but the uninterrupted run has %s", what, t, form, i+1, trunc(items[i], 200), trunc(full[i], 200))
				}
			}
		}
	}
	cl := fmt.Sprint("items=", min(len(full), 3))
	if len(full) > 0 && full[len(full)-1] == "ERR" {
		cl += " ends-in-error"
	}
	return core.Outcome{Class: cl, Nontrivial: len(full) >= 2, Evals: evals}
}

// checkStopsAt is checkStops for long runs: instead of every position it tries the listed stop
// positions (positions beyond the run length are skipped; negative p means N+p+1).
func checkStopsAt(what string, f stopFn, stops []int) core.Outcome {
	full, _, p := f(0, false)
	if p != "" {
		return core.Failf("%s: uninterrupted run panicked: %s", what, p)
	}
	evals := 1
	seen := map[int]bool{}
	for _, t := range stops {
		if t < 0 {
			t = len(full) + t + 1
		}
		if t < 1 || t > len(full) || seen[t] {
			continue
		}
		seen[t] = true
		for _, rf := range []bool{false, true} {
			items, calls, p := f(t, rf)
			evals++
			form := map[bool]string{false: "yield returning false", true: "range + break"}[rf]
			if p != "" {
				return core.Failf("%s: stopping at item %d of %d (%s) panicked: %s", what, t, len(full), form, p)
			}
			if calls != t {
				return core.Failf("%s: stopping at item %d of %d (%s): %d callbacks were made, want exactly %d", what, t, len(full), form, calls, t)
			}
			for i := range items {
				if items[i] != full[i] {
					return core.Failf("%s: stopping at item %d (%s): item %d differs from the uninterrupted run", what, t, form, i+1)
				}
			}
		}
	}
	return core.Outcome{Class: fmt.Sprint("long items>0=", len(full) > 0), Nontrivial: len(full) >= 2, Evals: evals}
}

type c18Input struct {
	Format string `json:"format"`
	Input  core.S `json:"input,omitempty"`
	Corpus string `json:"corpus,omitempty"`
}

type c18File struct {
	Format string `json:"format"`
	Corpus string `json:"corpus"`
	Gz     bool   `json:"gzip"`
}

type c18Trie struct {
	Words []string `json:"words_added"`
}

type c18Kmer struct {
	Seq core.S `json:"seq"`
	K   int    `json:"k"`
}

func errLastFormat(format string) bool { return format != "sam" && format != "samh" }

func runC18(r *core.Run) {
	racePass(r, "race-formats", "all five codecs: readers each on their own stream (whole and in 7-byte reads, every corpus file), Write on shared records into separate destinations, File on one shared path; every result is compared with what the same call returned when it ran alone")
	L := core.Pick(r, 5, 7)
	r.Bound("readers", fmt.Sprintf("Reader of FASTA, FASTQ, SAM, SAM ReaderHeader, BED, Newick x (every input over the format's token alphabet up to length %d + every small, medium and placeholder-token corpus file, incl. malformed ones so that stops fall on error items and between the several error items of a SAM file) x every stop position 1..N x {direct call, range+break}", L))
	core.Clause(r, "readers", core.Opts{Rule: "every stop position of every iterator run, both call forms; exactly t callbacks, no panic, items == the first t of the uninterrupted run; for FASTA/FASTQ/BED/Newick an error item is last; non-trivial = uninterrupted run has at least 2 items"},
		func(emit func(c18Input) bool) {
			for _, f := range formats {
				if !enum.Strings(f.Alphabet, L, func(s string) bool { return emit(c18Input{Format: f.Name, Input: core.S(s)}) }) {
					return
				}
				for _, size := range []string{"small", "medium", "vocab", "ext"} {
					for i := range corpus(f.Name, size) {
						emit(c18Input{Format: f.Name, Corpus: fmt.Sprint(size, "/", i)})
					}
				}
				// inputs with several error items / errors after records
				extra := map[string][]string{
					"sam":    {"q\t1\nq\t2\n@h\nq\t3\n", "q\t0\tr\t1\t9\t1M\t*\t0\t0\tA\tI\nbad\nq\t0\tr\t1\t9\t1M\t*\t0\t0\tA\tI\nbad2\n"},
					"samh":   {"q\t1\nq\t2\n@h\nq\t3\n", "q\t0\tr\t1\t9\t1M\t*\t0\t0\tA\tI\nbad\n@x\nbad2\n"},
					"fastq":  {"@a\nA\n+\nI\n@b\nAC\n+\nI\n@c\nA\n+\nI\n"},
					"bed":    {"a\t0\t1\nb\tx\t1\nc\t0\t1\n"},
					"newick": {"(a,b);(c;(d);"},
					"fasta":  {">a\nA\n>b\nC\n>c\nG\n"},
				}
				for _, x := range extra[f.Name] {
					emit(c18Input{Format: f.Name, Input: core.S(x)})
				}
			}
		},
		func(c c18Input) core.Outcome {
			data := c.Input.B()
			if c.Corpus != "" {
				data = corpusBy(c.Format, c.Corpus)
			}
			return checkStops(fmt.Sprintf("%s.Reader on %q", c.Format, trunc(string(data), 100)), readerStop(c.Format, data), false, errLastFormat(c.Format))
		})

	type faultStop struct {
		Format   string `json:"format"`
		Corpus   string `json:"corpus"`
		At       int    `json:"fault_after_bytes"`
		Forever  bool   `json:"error_forever"`
		WithData bool   `json:"error_with_last_bytes"`
	}
	core.Clause(r, "readers-on-failing-streams", core.Opts{Rule: "every reader on every medium corpus file whose stream fails at EVERY byte offset (error alone / together with the last bytes, once / forever), stopped at every position of the resulting iteration, both call forms: exactly t callbacks, no panic; non-trivial = at least 2 items"},
		func(emit func(faultStop) bool) {
			for _, f := range formats {
				for i, d := range corpus(f.Name, "medium") {
					for at := 0; at <= len(d); at++ {
						for _, fv := range []bool{false, true} {
							for _, wd := range []bool{false, true} {
								if !emit(faultStop{f.Name, fmt.Sprint("medium/", i), at, fv, wd}) {
									return
								}
							}
						}
					}
				}
			}
		},
		func(c faultStop) core.Outcome {
			data := corpusBy(c.Format, c.Corpus)
			mk := func() io.Reader {
				return &envio.FaultReader{Data: data, At: c.At, Forever: c.Forever, WithData: c.WithData}
			}
			return checkStops(fmt.Sprintf("%s.Reader on %s failing after %d bytes (forever=%v with-data=%v)", c.Format, c.Corpus, c.At, c.Forever, c.WithData),
				readerStopFrom(c.Format, mk), false, false)
		})

	type richStop struct {
		Format    string `json:"format"`
		Corpus    string `json:"corpus"`
		SeekFails bool   `json:"seek_fails"`
		Chunk     int    `json:"bytes_per_read"`
	}
	core.Clause(r, "readers-on-rich-sources", core.Opts{Rule: "the source offers more than Read (ReadByte/UnreadByte, WriteTo, Seek, ReadAt, Close, Len - what bytes.Reader, bufio.Reader and os.File offer), with a Seek that works and one that fails like a pipe's: every stop position behaves (exactly t callbacks, no panic, prefix of the uninterrupted run) and the source is never closed; every small and medium corpus file x {whole, 5 bytes per Read}; non-trivial = at least 2 items"},
		func(emit func(richStop) bool) {
			for _, f := range formats {
				for _, size := range []string{"small", "medium"} {
					for i := range corpus(f.Name, size) {
						for _, sf := range []bool{false, true} {
							for _, ch := range []int{0, 5} {
								if !emit(richStop{f.Name, fmt.Sprint(size, "/", i), sf, ch}) {
									return
								}
							}
						}
					}
				}
			}
		},
		func(c richStop) core.Outcome {
			data := corpusBy(c.Format, c.Corpus)
			var made []*envio.RichSource
			mk := func() io.Reader {
				s := &envio.RichSource{Data: data, SeekFails: c.SeekFails, Chunk: c.Chunk}
				made = append(made, s)
				return s
			}
			out := checkStops(fmt.Sprintf("%s.Reader on %s from a source that also offers ReadByte/WriteTo/Seek/ReadAt/Close (Seek fails: %v)", c.Format, c.Corpus, c.SeekFails),
				readerStopFrom(c.Format, mk), false, errLastFormat(c.Format))
			if out.Fail != "" {
				return out
			}
			for _, s := range made {
				if s.Closed > 0 {
					return core.Failf("%s.Reader closed the caller's source (%s)", c.Format, c.Corpus)
				}
			}
			// and the items are those of a plain source
			f := formatByName(c.Format)
			want, _ := refCached(f, c.Corpus, data)
			got, p, _ := f.Read(&envio.RichSource{Data: data, SeekFails: c.SeekFails, Chunk: c.Chunk}, len(want)+8)
			if p != "" || !sameShape(got, want) {
				return core.Failf("%s.Reader on %s: from a source that also offers ReadByte/WriteTo/Seek/ReadAt the decode is %s (panic %q), from a plain reader %s", c.Format, c.Corpus, trunc(renderObs(got), 300), p, trunc(renderObs(want), 300))
			}
			return out
		})

	type transientStop struct {
		Format string `json:"format"`
		Corpus string `json:"corpus"`
		At     int    `json:"fault_after_bytes"`
		Error  string `json:"error_identity,omitempty"`
	}
	core.Clause(r, "transient-faults", core.Opts{Rule: "the stream fails ONCE at every byte offset and then goes on delivering the rest of the data (a timeout that passed, a retried read), with a plain error and with error values that look temporary (Timeout() and Temporary() true), wrap io.EOF, or are io.ErrNoProgress / io.ErrUnexpectedEOF: every stop position behaves, and for FASTA, FASTQ, BED and Newick the error item is still the last item of the iteration; every medium corpus file; non-trivial = at least 2 items"},
		func(emit func(transientStop) bool) {
			for _, f := range formats {
				for i, d := range corpus(f.Name, "medium") {
					for at := 0; at <= len(d); at++ {
						for _, id := range []string{"", "timeout-temporary", "wraps-io.EOF", "io.ErrNoProgress", "io.ErrUnexpectedEOF"} {
							if !emit(transientStop{f.Name, fmt.Sprint("medium/", i), at, id}) {
								return
							}
						}
					}
				}
			}
		},
		func(c transientStop) core.Outcome {
			data := corpusBy(c.Format, c.Corpus)
			mk := func() io.Reader {
				return &envio.FaultReader{Data: data, At: c.At, Resume: true, Err: faultIdentities[c.Error]}
			}
			return checkStops(fmt.Sprintf("%s.Reader on %s whose stream fails once after %d bytes (error %q) and then delivers the rest", c.Format, c.Corpus, c.At, c.Error),
				readerStopFrom(c.Format, mk), false, errLastFormat(c.Format))
		})

	core.Clause(r, "error-classes-then-records", core.Opts{Rule: "for BED, FASTQ and Newick: every malformed-line class of the format (one malformed field/line from a menu; for BED and Newick also every numeric field holding each of the number texts of C11: out of range, Inf/NaN spellings, hexadecimal, malformed) placed between well-formed records: the error item must be the last item, and every stop position behaves; for SAM (where iteration continues) every stop position behaves; non-trivial = at least 2 items"},
		func(emit func(c18Input) bool) {
			bedBad := []string{"a\t0", "a\tx\t1", "a\t0\tx", "a\t0\t1\tn\tx", "a\t0\t1\tn\t0\t?", "a\t0\t1\tn\t0\t+\tx", "a\t0\t1\tn\t0\t+\t0\tx", "a\t0\t1\tn\t0\t+\t0\t0\t1,2", "a\t0\t1\tn\t0\t+\t0\t0\t256,0,0",
				"a\t0\t1\tn\t0\t+\t0\t0\t0,0,0\tx", "a\t0\t1\tn\t0\t+\t0\t0\t0,0,0\t2\t1\t1,2", "a\t0\t1\tn\t0\t+\t0\t0\t0,0,0\t1\t1,2\t1", "a\t0\t1\tn\t0\t+\t0\t0\t0,0,0\t1\tx\t1", "a\t0\t1\tn\t0\t+\t0\t0\t0,0,0\t1\t1\tx",
				"a\t0\t1\tn\t0\t+\t0\t0\t0,0,0\t2", "a\t0\t1\tn\t0\t+\t0\t0\t0,0,0\t0\t\t\textra"}
			for _, bad := range bedBad {
				n := strings.Count(bad, "\t") + 1
				good := strings.Join(strings.Split("a\t0\t1\tn\t0\t+\t0\t0\t0,0,0\t0\t\t", "\t")[:min(max(n, 3), 12)], "\t")
				emit(c18Input{Format: "bed", Input: core.S(good + "\n" + bad + "\n" + good + "\n" + good + "\n")})
				emit(c18Input{Format: "bed", Input: core.S(bad + "\n" + good + "\n")})
			}
			for _, bad := range []string{"xa\nA\n+\nI\n", "@a\nA\nx\nI\n", "@a\nA\n\nI\n", "@a\nA\n+\nII\n", "@a\nAA\n+\nI\n"} {
				emit(c18Input{Format: "fastq", Input: core.S("@g\nA\n+\nI\n" + bad + "@h\nC\n+\nI\n@i\nG\n+\nI\n")})
			}
			for _, bad := range []string{"(a;", "a b;", "(a,b));", "a:x;", "(a:1:2);", ",;", "'a'b;", "a'b;", "(:;"} {
				emit(c18Input{Format: "newick", Input: core.S("(x,y);" + bad + "(z);(w);")})
			}
			// every text in the place of a number: whichever of them the reader refuses (out of range, Inf
			// where only finite values are wanted, malformed) is an error item like any other
			for _, t := range numberTexts() {
				for _, tp := range []string{"a:%s;", "(a:%s,b)c;", "(a,b)c:%s;"} {
					emit(c18Input{Format: "newick", Input: core.S("(x,y);" + strings.ReplaceAll(tp, "%s", t) + "(z);(w);")})
				}
				for _, col := range []int{1, 2, 4, 6, 7, 9, 10, 11} {
					f := strings.Split("a\t0\t1\tn\t0\t+\t0\t0\t0,0,0\t1\t1\t0", "\t")
					good := strings.Join(f, "\t")
					f[col] = t
					if col == 8 {
						f[col] = t + ",0,0"
					}
					emit(c18Input{Format: "bed", Input: core.S(good + "\n" + strings.Join(f, "\t") + "\n" + good + "\n" + good + "\n")})
				}
			}
			for _, bad := range []string{"q\t1", "q\tx\tr\t1\t9\t1M\t*\t0\t0\tA\tI", "q\t0\tr\t1\t9\t1M\t*\t0\t0\tA\tI\tXX", "q\t0\tr\t1\t9\t1M\t*\t0\t0\tA\tI\tXX:i:x"} {
				for _, f := range []string{"sam", "samh"} {
					emit(c18Input{Format: f, Input: core.S("@h\nq\t0\tr\t1\t9\t1M\t*\t0\t0\tA\tI\n" + bad + "\n" + bad + "\nq\t0\tr\t1\t9\t1M\t*\t0\t0\tA\tI\n")})
				}
			}
		},
		func(c c18Input) core.Outcome {
			return checkStops(fmt.Sprintf("%s.Reader on %q", c.Format, trunc(string(c.Input), 100)), readerStop(c.Format, c.Input.B()), false, errLastFormat(c.Format))
		})

	scratch := filepath.Join(r.Root, ".scratch", fmt.Sprintf("c18-%d", os.Getpid()))
	os.MkdirAll(scratch, 0o755)
	defer os.RemoveAll(scratch)
	core.Clause(r, "files", core.Opts{Rule: "File (and SAM FileHeader) of every format on every medium corpus file, files ending in an error, files that begin with the magic number of another file type or with a broken gzip header (under a plain name these are data), plain and .gz, every stop position, both forms; non-trivial = at least 2 items"},
		func(emit func(c18File) bool) {
			for _, f := range formats {
				for i := range corpus(f.Name, "medium") {
					for _, gz := range []bool{false, true} {
						emit(c18File{f.Name, fmt.Sprint("medium/", i), gz})
					}
				}
				for _, what := range append(fileBeginningNames(), "long-lines-of-every-kind:5000", "error", "error-middle", "longline", "large", "gzip-magic", "gzip-bytes", "zstd-magic") {
					for _, gz := range []bool{false, true} {
						emit(c18File{f.Name, what, gz})
					}
				}
			}
		},
		func(c c18File) core.Outcome {
			var data []byte
			if !strings.Contains(c.Corpus, "/") {
				data = fileContent(c.Format, c.Corpus)
			} else {
				data = corpusBy(c.Format, c.Corpus)
			}
			name := fmt.Sprintf("%s-%x.txt", c.Format, hashBytes(append([]byte(c.Corpus), data...)))
			disk := data
			if c.Gz {
				var zb bytes.Buffer
				zw := gzip.NewWriter(&zb)
				zw.Write(data)
				zw.Close()
				disk = zb.Bytes()
				name += ".gz"
			}
			path := filepath.Join(scratch, name)
			if err := os.WriteFile(path, disk, 0o644); err != nil {
				return core.Outcome{Skip: true}
			}
			defer os.Remove(path)
			return checkStops(fmt.Sprintf("%s.File(%s)", c.Format, name), fileStop(c.Format, path), false, errLastFormat(c.Format))
		})

	// A path that cannot be opened (or whose gzip stream is broken from the first byte, or breaks later)
	// makes File yield an error item; the run around that item must be as clean as any other.
	type c18Unopenable struct {
		Format string `json:"format"`
		Kind   string `json:"kind"`
	}
	unopenable := []string{"missing", "missing.gz", "directory", "directory.gz", "gz-that-is-plain-text", "gz-of-0-bytes", "gz-header-only", "gz-cut-in-the-middle", "gz-with-a-wrong-checksum", "no-read-permission"}
	core.Clause(r, "files-that-cannot-be-opened", core.Opts{Rule: "File (and SAM FileHeader) of every format on a path that does not exist, is a directory, is a .gz that is not gzip / is empty / ends after its header / is cut in the middle / has a wrong checksum, or may not be read: the uninterrupted run does not panic, ends, holds at least one error item (the last one for the formats that stop at an error), and every stop position in both forms is clean; non-trivial = all"},
		func(emit func(c18Unopenable) bool) {
			for _, f := range formats {
				for _, k := range unopenable {
					if !emit(c18Unopenable{f.Name, k}) {
						return
					}
				}
			}
		},
		func(c c18Unopenable) core.Outcome {
			dir := filepath.Join(scratch, fmt.Sprintf("unopenable-%s-%s", c.Format, c.Kind))
			os.MkdirAll(dir, 0o755)
			defer os.RemoveAll(dir)
			var zb bytes.Buffer
			zw := gzip.NewWriter(&zb)
			zw.Write(corpus(c.Format, "medium")[0])
			zw.Close()
			z := zb.Bytes()
			path := filepath.Join(dir, "f.txt")
			var content []byte
			switch c.Kind {
			case "missing":
			case "missing.gz":
				path += ".gz"
			case "directory":
				os.Mkdir(path, 0o755)
			case "directory.gz":
				path += ".gz"
				os.Mkdir(path, 0o755)
			case "gz-that-is-plain-text":
				path, content = path+".gz", corpus(c.Format, "medium")[0]
			case "gz-of-0-bytes":
				path, content = path+".gz", []byte{}
			case "gz-header-only":
				path, content = path+".gz", z[:10]
			case "gz-cut-in-the-middle":
				path, content = path+".gz", z[:len(z)/2]
			case "gz-with-a-wrong-checksum":
				bad := bytes.Clone(z)
				bad[len(bad)-8] ^= 0x55
				path, content = path+".gz", bad
			case "no-read-permission":
				content = corpus(c.Format, "medium")[0]
			}
			if content != nil {
				mode := os.FileMode(0o644)
				if c.Kind == "no-read-permission" {
					mode = 0o000
				}
				if err := os.WriteFile(path, content, mode); err != nil {
					return core.Outcome{Skip: true}
				}
				if c.Kind == "no-read-permission" {
					if f, err := os.Open(path); err == nil { // running as root: the mode bits do not bind
						f.Close()
						return core.Outcome{Skip: true}
					}
				}
			}
			what := fmt.Sprintf("%s.File(%s)", c.Format, c.Kind)
			full, _, p := fileStop(c.Format, path)(0, false)
			if p != "" {
				return core.Failf("%s: uninterrupted run panicked: %s", what, p)
			}
			if !slices.Contains(full, "ERR") {
				return core.Failf("%s: the run holds no error item: %s", what, trunc(fmt.Sprint(full), 300))
			}
			out := checkStops(what, fileStop(c.Format, path), false, errLastFormat(c.Format))
			if out.Fail == "" {
				out.Class, out.Nontrivial = c.Kind, true
			}
			return out
		})

	NT := core.Pick(r, 6, 10)
	r.Bound("traversals", fmt.Sprintf("PreOrder and PostOrder on every ordered tree with 1..%d nodes x every stop position", NT))
	core.Clause(r, "tree-traversals", core.Opts{Rule: "every ordered tree up to the node bound, both traversals, every stop position, both forms; non-trivial = at least 2 nodes"},
		func(emit func(c19Tree) bool) {
			enum.TreesUpTo(NT, func(c []int) bool { return emit(c19Tree{append([]int(nil), c...)}) })
		},
		func(c c19Tree) core.Outcome {
			root, _ := buildTree(c.Code)
			rn := func(n *newick.Node) string { return n.Name }
			o1 := checkStops(fmt.Sprint("PreOrder on tree ", c.Code), func(s int, rf bool) ([]string, int, string) { return stop1(root.PreOrder(), rn)(s, rf) }, false, false)
			if o1.Fail != "" {
				return o1
			}
			o2 := checkStops(fmt.Sprint("PostOrder on tree ", c.Code), func(s int, rf bool) ([]string, int, string) { return stop1(root.PostOrder(), rn)(s, rf) }, false, false)
			if o2.Fail != "" {
				return o2
			}
			o1.Evals += o2.Evals
			return o1
		})

	core.Clause(r, "deep-traversals", core.Opts{Rule: "PreOrder/PostOrder on a chain of 70 and 200 nodes and a comb of 100 levels (deeper than any preallocated stack), every stop position, both forms; non-trivial = all"},
		func(emit func(c19Big) bool) {
			emit(c19Big{"chain", 70})
			emit(c19Big{"chain", 200})
			emit(c19Big{"comb", 100})
		},
		func(c c19Big) core.Outcome {
			var code []int
			if c.Kind == "chain" {
				code = make([]int, c.N)
				for i := 0; i < c.N-1; i++ {
					code[i] = 1
				}
			} else {
				for i := 0; i < c.N; i++ {
					code = append(code, 2, 0)
				}
				code = append(code, 0)
			}
			root, _ := buildTree(code)
			rn := func(n *newick.Node) string { return n.Name }
			o1 := checkStops(fmt.Sprintf("PreOrder on %s(%d)", c.Kind, c.N), func(s int, rf bool) ([]string, int, string) { return stop1(root.PreOrder(), rn)(s, rf) }, false, false)
			if o1.Fail != "" {
				return o1
			}
			o2 := checkStops(fmt.Sprintf("PostOrder on %s(%d)", c.Kind, c.N), func(s int, rf bool) ([]string, int, string) { return stop1(root.PostOrder(), rn)(s, rf) }, false, false)
			if o2.Fail != "" {
				return o2
			}
			o1.Evals += o2.Evals
			return o1
		})

	longStops := []int{1, 2, 3, 7, 8, 9, 63, 64, 65, 100, 255, 256, 257, 1023, 1024, 1025, 4095, 4096, 4097, 4098, 65535, 65536, 65537, 65538, 70000, 131071, 131072, 131073, -3, -2, -1}
	r.Bound("long-runs", fmt.Sprintf("CanonicalSubsequences on sequences of 70 000 and 140 000 bases (k=1, 21), PreOrder/PostOrder on a chain and a star of 70 000 nodes, the ~9 KiB corpus file of every format: stop positions %v (negative = counted from the end); the corpus files additionally at EVERY position", longStops))
	core.Clause(r, "long-runs", core.Opts{Rule: "long iterations stopped at the listed positions (around 8, 64, 256, 1024, 4096, 65536, 131072 and the ends), both call forms; exactly t callbacks, no panic, prefix of the uninterrupted run; non-trivial = all"},
		func(emit func(c18Kmer) bool) {
			emit(c18Kmer{"kmers", 70000*100 + 1})
			emit(c18Kmer{"kmers", 70000*100 + 21})
			emit(c18Kmer{"kmers", 140000*100 + 21})
			emit(c18Kmer{"chain", 70000})
			emit(c18Kmer{"star", 70000})
			for _, f := range formats {
				emit(c18Kmer{core.S("corpus:" + f.Name), 0})
			}
		},
		func(c c18Kmer) core.Outcome {
			switch {
			case c.Seq == "kmers":
				n, k := c.K/100, c.K%100
				seq := longSeq(n)
				return checkStopsAt(fmt.Sprintf("CanonicalSubsequences(%d bases, k=%d)", n, k),
					func(s int, rf bool) ([]string, int, string) {
						return stop1(sequtil.CanonicalSubsequences(seq, k), func(b []byte) string { return string(b) })(s, rf)
					}, longStops)
			case c.Seq == "chain" || c.Seq == "star":
				var code []int
				if c.Seq == "chain" {
					code = make([]int, c.K)
					for i := 0; i < c.K-1; i++ {
						code[i] = 1
					}
				} else {
					code = make([]int, c.K+1)
					code[0] = c.K
				}
				root, _ := buildTree(code)
				rn := func(n *newick.Node) string { return n.Name }
				o := checkStopsAt(fmt.Sprintf("PreOrder on %s(%d)", c.Seq, c.K), func(s int, rf bool) ([]string, int, string) { return stop1(root.PreOrder(), rn)(s, rf) }, longStops)
				if o.Fail != "" {
					return o
				}
				return checkStopsAt(fmt.Sprintf("PostOrder on %s(%d)", c.Seq, c.K), func(s int, rf bool) ([]string, int, string) { return stop1(root.PostOrder(), rn)(s, rf) }, longStops)
			}
			format := strings.TrimPrefix(string(c.Seq), "corpus:")
			data := corpus(format, "large")[0]
			return checkStops(fmt.Sprintf("%s.Reader on the ~9 KiB corpus file", format), readerStop(format, data), false, errLastFormat(format))
		})

	// Long runs of items of ONE kind, stopped at EVERY position: a reader that counts something across items
	// (consecutive malformed lines, records since the last header, lines since the last flush) and acts
	// when the count reaches a round number is only wrong at that one stop position.
	runLen := core.Pick(r, 1100, 4200)
	r.Bound("long-runs-every-position", fmt.Sprintf("%d items of one kind per input (good records of every format, SAM header lines, SAM malformed lines that each yield an error item), EVERY stop position 1..%d, both call forms", runLen, runLen))
	core.Clause(r, "long-runs-every-position", core.Opts{Rule: "inputs that make a reader yield a long run of items of the same kind (records / SAM headers / SAM error items), stopped at every position of the run in both call forms; exactly t callbacks, no panic, prefix of the uninterrupted run; non-trivial = all"},
		func(emit func(c18Kmer) bool) {
			for _, k := range []string{"fasta:records", "fastq:records", "bed:records", "newick:records", "sam:records", "samh:records", "samh:headers", "sam:malformed", "samh:malformed", "samh:malformed-then-good"} {
				for chunk := 0; chunk < 16; chunk++ { // the stop positions t with t mod 16 == chunk: 16 cases share one input
					emit(c18Kmer{core.S(fmt.Sprint(k, ":", chunk)), runLen})
				}
			}
		},
		func(c c18Kmer) core.Outcome {
			parts := strings.Split(string(c.Seq), ":")
			format, kind := parts[0], parts[1]
			var chunk int
			fmt.Sscan(parts[2], &chunk)
			var stops []int
			for t := 1; t <= c.K+1; t++ {
				if t%16 == chunk {
					stops = append(stops, t)
				}
			}
			var sb bytes.Buffer
			for i := 0; i < c.K; i++ {
				switch {
				case kind == "headers":
					fmt.Fprintf(&sb, "@CO\tline %d\n", i)
				case strings.HasPrefix(kind, "malformed"):
					fmt.Fprintf(&sb, "r%d\tnot-a-number\tchr\n", i)
				case format == "fasta":
					fmt.Fprintf(&sb, ">r%d\nAC\n", i)
				case format == "fastq":
					fmt.Fprintf(&sb, "@r%d\nAC\n+\nII\n", i)
				case format == "bed":
					fmt.Fprintf(&sb, "c\t%d\t%d\n", i, i+1)
				case format == "newick":
					fmt.Fprintf(&sb, "(a,b)n%d;\n", i)
				default:
					fmt.Fprintf(&sb, "r%d\t0\tc\t1\t9\t2M\t*\t0\t0\tAC\tII\n", i)
				}
			}
			if kind == "malformed-then-good" {
				sb.WriteString("g\t0\tc\t1\t9\t2M\t*\t0\t0\tAC\tII\n")
			}
			return checkStopsAt(fmt.Sprintf("%s reader on %d %s", format, c.K, kind), readerStop(format, sb.Bytes()), stops)
		})

	words := enum.AllStrings("ab", 3)[1:]
	core.Clause(r, "trie-foreach", core.Opts{Rule: "ForEach on every reachable trie over {a,b}^<=3 (the 676 states of C15, rebuilt here from every subset of the 14 words and deduplicated by JSON form) x every stop position; ForEach takes a callback, so only the direct form applies; items must be distinct members of the full result; non-trivial = at least 2 members"},
		func(emit func(c18Trie) bool) {
			seen := map[string]bool{}
			for mask := 0; mask < 1<<len(words); mask++ {
				var ws []string
				t := trie.New()
				for i, w := range words {
					if mask>>i&1 == 1 {
						ws = append(ws, w)
						t.Add([]byte(w))
					}
				}
				k, _ := json.Marshal(t)
				if seen[string(k)] {
					continue
				}
				seen[string(k)] = true
				if !emit(c18Trie{ws}) {
					return
				}
			}
			long := []string{strings.Repeat("a", 9), strings.Repeat("a", 8) + "b", strings.Repeat("b", 20), strings.Repeat("ab", 35), "b" + strings.Repeat("a", 17), "c"}
			for mask := 1; mask < 1<<len(long); mask++ {
				var ws []string
				for i, w := range long {
					if mask>>i&1 == 1 {
						ws = append(ws, w)
					}
				}
				if !emit(c18Trie{ws}) {
					return
				}
			}
		},
		func(c c18Trie) core.Outcome {
			t := trie.New()
			for _, w := range c.Words {
				t.Add([]byte(w))
			}
			f := func(stopAt int, _ bool) (items []string, calls int, panicS string) {
				panicS = catch(func() {
					t.ForEach(func(b []byte) bool {
						calls++
						items = append(items, string(b))
						return !(calls >= stopAt && stopAt > 0) && calls < 1000
					})
				})
				return
			}
			out := checkStops(fmt.Sprint("ForEach on trie of ", c.Words), f, true, false)
			if out.Fail != "" {
				return out
			}
			full, _, _ := f(0, false)
			sort.Strings(full)
			for i := 1; i < len(full); i++ {
				if full[i] == full[i-1] {
					return core.Failf("ForEach reports %q twice", full[i])
				}
			}
			return out
		})

	NN := core.Pick(r, 7, 9)
	r.Bound("nested-stops", fmt.Sprintf("one iterator value ranged inside its own loop body: every outer position x every inner stop position (and no inner stop) x {outer runs on, outer stops one item later}; PreOrder/PostOrder on every ordered tree up to %d nodes, CanonicalSubsequences on every ACGT sequence up to length 5 x k in 1..2, File of every format on every medium corpus file (plain and .gz), trie ForEach (nested call inside the callback) on every trie over {a,b}^<=2", NN))
	core.Clause(r, "nested-stops-trees", core.Opts{Rule: "stopping an inner run of the SAME iterator value must be clean for the outer run that is still in progress (all-pairs / triangular loops): inner items are the leading items of an uninterrupted run, exactly s callbacks, and the outer run continues exactly like an uninterrupted one; non-trivial = at least 2 items"},
		func(emit func(c19Tree) bool) {
			enum.TreesUpTo(NN, func(c []int) bool { return emit(c19Tree{append([]int(nil), c...)}) })
		},
		func(c c19Tree) core.Outcome {
			root, _ := buildTree(c.Code)
			rn := func(n *newick.Node) string { return n.Name }
			o1 := nestedStops(fmt.Sprint("PreOrder on tree ", c.Code), asStrings1(root.PreOrder(), rn), false)
			if o1.Fail != "" {
				return o1
			}
			o2 := nestedStops(fmt.Sprint("PostOrder on tree ", c.Code), asStrings1(root.PostOrder(), rn), false)
			if o2.Fail != "" {
				return o2
			}
			o1.Evals += o2.Evals
			return o1
		})
	core.Clause(r, "nested-stops-kmers", core.Opts{Rule: "as nested-stops-trees, for one CanonicalSubsequences iterator value; non-trivial = at least 2 items"},
		func(emit func(c18Kmer) bool) {
			enum.Strings("ACGT", 5, func(s string) bool {
				for k := 1; k <= 2; k++ {
					if !emit(c18Kmer{core.S(s), k}) {
						return false
					}
				}
				return true
			})
		},
		func(c c18Kmer) core.Outcome {
			seq := c.Seq.B()
			return nestedStops(fmt.Sprintf("CanonicalSubsequences(%q,%d)", seq, c.K), asStrings1(sequtil.CanonicalSubsequences(seq, c.K), func(b []byte) string { return string(b) }), false)
		})
	core.Clause(r, "nested-stops-files", core.Opts{Rule: "as nested-stops-trees, for one File(path) iterator value of every format (each run opens the file again); non-trivial = at least 2 items"},
		func(emit func(c18File) bool) {
			for _, f := range formats {
				for i := range corpus(f.Name, "medium") {
					for _, gz := range []bool{false, true} {
						if !emit(c18File{f.Name, fmt.Sprint("medium/", i), gz}) {
							return
						}
					}
				}
			}
		},
		func(c c18File) core.Outcome {
			data := corpusBy(c.Format, c.Corpus)
			name := fmt.Sprintf("nested-%s-%x.txt", c.Format, hashBytes(append([]byte(c.Corpus), data...)))
			disk := data
			if c.Gz {
				var zb bytes.Buffer
				zw := gzip.NewWriter(&zb)
				zw.Write(data)
				zw.Close()
				disk = zb.Bytes()
				name += ".gz"
			}
			path := filepath.Join(scratch, name)
			if err := os.WriteFile(path, disk, 0o644); err != nil {
				return core.Outcome{Skip: true}
			}
			defer os.Remove(path)
			var seq iter.Seq[string]
			switch c.Format {
			case "fasta":
				seq = asStrings2(fasta.File(path), renderFasta)
			case "fastq":
				seq = asStrings2(fastq.File(path), renderFastq)
			case "sam":
				seq = asStrings2(sam.File(path), renderSAM)
			case "samh":
				seq = asStrings2(sam.FileHeader(path), renderSAMOrHeader)
			case "bed":
				seq = asStrings2(bed.File(path), renderBED)
			case "newick":
				seq = asStrings2(newick.File(path), renderNewick)
			}
			return nestedStops(fmt.Sprintf("%s.File(%s)", c.Format, name), seq, false)
		})
	core.Clause(r, "nested-stops-trie", core.Opts{Rule: "ForEach called again from inside its own callback and stopped at every position, at every outer position: the inner call reports distinct members and exactly s of them, the outer call still reports every member exactly once; every trie over {a,b}^<=2 (subsets of the 6 words); non-trivial = at least 2 members"},
		func(emit func(c18Trie) bool) {
			w2 := enum.AllStrings("ab", 2)[1:]
			for mask := 0; mask < 1<<len(w2); mask++ {
				var ws []string
				for i, w := range w2 {
					if mask>>i&1 == 1 {
						ws = append(ws, w)
					}
				}
				if !emit(c18Trie{ws}) {
					return
				}
			}
		},
		func(c c18Trie) core.Outcome {
			t := trie.New()
			for _, w := range c.Words {
				t.Add([]byte(w))
			}
			seq := func(yield func(string) bool) {
				t.ForEach(func(b []byte) bool { return yield(string(b)) })
			}
			return nestedStops(fmt.Sprint("ForEach on trie of ", c.Words), seq, true)
		})

	LK := core.Pick(r, 5, 8)
	core.Clause(r, "canonical-kmers", core.Opts{Rule: "CanonicalSubsequences on every sequence over ACGT up to the bound x k in 1..3 x every stop position, both forms; non-trivial = at least 2 items"},
		func(emit func(c18Kmer) bool) {
			enum.Strings("ACGT", LK, func(s string) bool {
				for k := 1; k <= 3; k++ {
					if !emit(c18Kmer{core.S(s), k}) {
						return false
					}
				}
				return true
			})
		},
		func(c c18Kmer) core.Outcome {
			seq := c.Seq.B()
			return checkStops(fmt.Sprintf("CanonicalSubsequences(%q,%d)", seq, c.K),
				func(s int, rf bool) ([]string, int, string) {
					return stop1(sequtil.CanonicalSubsequences(seq, c.K), func(b []byte) string { return string(b) })(s, rf)
				}, false, false)
		})
}

func hashBytes(b []byte) uint64 {
	var h uint64 = 1469598103934665603
	for _, c := range b {
		h ^= uint64(c)
		h *= 1099511628211
	}
	return h
}
