//go:build verifsched

// Command schedc16 is built ONLY against the instrumented copy of package regions (engine instr,
// through -overlay): it explores every interleaving, up to a preemption bound, of a few goroutines
// that call At on one shared Index and scribble over what they get back, and judges every single
// execution: each answer must be the brute-force answer, nobody may panic or block forever, and the
// answers asked afterwards, sequentially, must still be right.
//
//	schedc16 explore <quick|thorough> <shard> <nshards> <deadline-seconds>
//	schedc16 replay  <case.json>
package main

import (
	"encoding/json"
	"fmt"
	"os"
	"slices"
	"strconv"
	"time"

	"github.com/fluhus/biostuff/regions"

	"verif/mc/engine/sched"
)

type Scenario struct {
	Starts    []int   `json:"starts"`
	Ends      []int   `json:"ends"`
	Starts2   []int   `json:"starts2,omitempty"` // a second index alive at the same time (nil: none)
	Ends2     []int   `json:"ends2,omitempty"`
	ScanFirst int     `json:"scan_first,omitempty"` // which index the sequential scans afterwards ask first
	Progs     [][]int `json:"progs"`                // per goroutine: its calls in order; a call p asks position p%1000 of index p/1000
}

type Case struct {
	Scenario
	Schedule []int `json:"schedule"`
}

type Violation struct {
	Case Case   `json:"case"`
	Fail string `json:"fail"`
}

type Summary struct {
	Scenarios      int         `json:"scenarios"`
	Executions     int         `json:"executions"`
	Preemptive     int         `json:"preemptive_executions"`
	MaxDecisions   int         `json:"max_decisions"`
	MaxPreemptions int         `json:"max_preemptions"`
	Bound          int         `json:"bound"`
	Capped         int         `json:"capped"`
	Unstable       int         `json:"unstable"`
	Classes        []string    `json:"classes"`
	Complete       bool        `json:"complete"`
	Phase1         int         `json:"scenarios_completed_at_full_bound,omitempty"`
	Violations     []Violation `json:"violations"`
}

func brute(starts, ends []int, i int) []int {
	var r []int
	for x := range starts {
		if starts[x] <= i && i < ends[x] {
			r = append(r, x)
		}
	}
	return r
}

func same(got, want []int) bool {
	return (len(got) == 0 && len(want) == 0) || slices.Equal(got, want)
}

const maxSteps = 20000

// runOne executes one schedule on a fresh index and judges it. class is a coarse description of what
// happened (to expose vacuous exploration), fail is "" when the property held.
func runOne(sc Scenario, prefix []int) (e *sched.Exec, class, fail string) {
	lists := [][2][]int{{sc.Starts, sc.Ends}}
	if sc.Starts2 != nil {
		lists = append(lists, [2][]int{sc.Starts2, sc.Ends2})
	}
	regions.VerifResetPools()
	var idxs []*regions.Index
	var given [][2][]int
	for _, l := range lists {
		st, en := slices.Clone(l[0]), slices.Clone(l[1])
		given = append(given, [2][]int{st, en})
		idxs = append(idxs, regions.NewIndex(st, en))
	}
	type answer struct {
		which, pos int
		got        []int
	}
	answers := make([][]answer, len(sc.Progs))
	var yield func(int)
	bodies := make([]func(), len(sc.Progs))
	for t := range sc.Progs {
		t := t
		bodies[t] = func() {
			for _, p := range sc.Progs[t] {
				w, pos := (p/1000)%len(idxs), p%1000
				r := idxs[w].At(pos)
				answers[t] = append(answers[t], answer{w, pos, slices.Clone(r)})
				yield(-1)
				for j := range r {
					r[j] = -9 - t // what At returns is the caller's: writing into it must be harmless
				}
				yield(-1)
			}
		}
	}
	e = sched.Run(prefix, maxSteps, func(h sched.Hooks) {
		regions.VerifHooks.Point, regions.VerifHooks.Block, regions.VerifHooks.Wake = h.Point, h.Block, h.Wake
		yield = h.Point
	}, bodies)
	class = fmt.Sprintf("indexes=%d threads=%d preemptions=%d", len(idxs), len(sc.Progs), e.Preemptions())
	if e.Capped {
		return e, "capped", ""
	}
	if e.Deadlock {
		return e, "deadlock", "concurrent At calls block each other forever (every goroutine waits for a lock)"
	}
	for t, p := range e.Panics {
		if p != "" {
			return e, "panic", fmt.Sprintf("goroutine %d: At panicked: %s", t, p)
		}
	}
	for t := range sc.Progs {
		if len(answers[t]) != len(sc.Progs[t]) {
			return e, "lost", fmt.Sprintf("goroutine %d finished %d of %d calls", t, len(answers[t]), len(sc.Progs[t]))
		}
		for k, a := range answers[t] {
			if want := brute(lists[a.which][0], lists[a.which][1], a.pos); !same(a.got, want) {
				return e, "wrong-answer", fmt.Sprintf("goroutine %d, call %d: At(%d) on index %d = %v, want %v", t, k+1, a.pos, a.which, a.got, want)
			}
		}
	}
	for w := range idxs {
		if !slices.Equal(given[w][0], lists[w][0]) || !slices.Equal(given[w][1], lists[w][1]) {
			return e, "args-modified", "the starts/ends given to NewIndex were modified"
		}
	}
	for pass := 0; pass < 2; pass++ {
		for k := range idxs {
			w := (k + sc.ScanFirst) % len(idxs)
			hi := 3
			for _, e := range lists[w][1] {
				hi = max(hi, e+1)
			}
			for i := -1; i <= hi; i++ {
				var got []int
				if p := func() (p any) { defer func() { p = recover() }(); got = idxs[w].At(i); return }(); p != nil {
					return e, "panic-later", fmt.Sprintf("after the concurrent calls, sequential At(%d) on index %d panicked: %v", i, w, p)
				}
				if want := brute(lists[w][0], lists[w][1], i); !same(got, want) {
					return e, "wrong-later", fmt.Sprintf("after the concurrent calls, sequential At(%d) on index %d = %v, want %v (pass %d)", i, w, got, want, pass+1)
				}
			}
		}
	}
	return e, class, ""
}

// siteName turns an instrumentation site into file:line (table written by the driver next to the binary).
var sites []struct {
	File string `json:"file"`
	Line int    `json:"line"`
}

func siteName(site int) string {
	switch {
	case site == -1:
		return "the driver (between two calls / before writing into a result)"
	case site == -2:
		return "a lock that is held"
	case site == -3:
		return "the end of a goroutine"
	case site >= 0 && site < len(sites):
		return fmt.Sprintf("%s:%d", sites[site].File, sites[site].Line)
	}
	return fmt.Sprint("site ", site)
}

func describe(e *sched.Exec) string {
	s := ""
	for i, p := range e.Points {
		if p.Chosen != 0 {
			s += fmt.Sprintf(" [decision %d, running goroutine about to execute %s: goroutine %d runs instead (enabled %v)]", i, siteName(p.Site), p.Enabled[p.Chosen], p.Enabled)
		}
	}
	return s
}

func scenarios(tier string, emit func(Scenario) bool) {
	coords := []int{0, 1, 2}
	type iv struct{ s, e int }
	var ivs []iv
	for _, s := range coords {
		for _, e := range coords {
			ivs = append(ivs, iv{s, e})
		}
	}
	maxLen := 2
	if tier == "thorough" {
		maxLen = 3
	}
	var lists [][]iv
	var gen func(cur []iv)
	gen = func(cur []iv) {
		lists = append(lists, slices.Clone(cur))
		if len(cur) == maxLen {
			return
		}
		for _, v := range ivs {
			gen(append(cur, v))
		}
	}
	gen(nil)
	slices.SortStableFunc(lists, func(a, b []iv) int { return len(a) - len(b) })
	ok := true
	// one shared index, every assignment of positions to the calls
	single := func(shape []int) {
		total := 0
		for _, n := range shape {
			total += n
		}
		for _, l := range lists {
			sc := Scenario{Starts: []int{}, Ends: []int{}}
			for _, v := range l {
				sc.Starts = append(sc.Starts, v.s)
				sc.Ends = append(sc.Ends, v.e)
			}
			pos := make([]int, total)
			for ok {
				sc.Progs = nil
				k := 0
				for _, n := range shape {
					sc.Progs = append(sc.Progs, slices.Clone(pos[k:k+n]))
					k += n
				}
				if ok = emit(sc); !ok {
					return
				}
				i := total - 1
				for i >= 0 && pos[i] == len(coords)-1 {
					pos[i] = 0
					i--
				}
				if i < 0 {
					break
				}
				pos[i]++
			}
		}
	}
	// Two indexes alive at once, each call on either of them: state that At keeps OUTSIDE the index
	// (a package-level memo that follows "the index in use") is shared between callers of different indexes.
	small := [][]iv{{}, {{0, 1}}, {{0, 2}}, {{1, 2}}, {{0, 2}, {1, 2}}}
	if tier == "thorough" {
		small = append(small, []iv{{1, 1}}, []iv{{0, 1}, {1, 2}}, []iv{{2, 0}, {0, 2}})
	}
	calls := []int{0, 1, 2, 1000, 1001, 1002}
	double := func(shape []int) {
		total := shape[0] + shape[1]
		for _, la := range small {
			for _, lb := range small {
				sc := Scenario{Starts: []int{}, Ends: []int{}, Starts2: []int{}, Ends2: []int{}}
				for _, v := range la {
					sc.Starts, sc.Ends = append(sc.Starts, v.s), append(sc.Ends, v.e)
				}
				for _, v := range lb {
					sc.Starts2, sc.Ends2 = append(sc.Starts2, v.s), append(sc.Ends2, v.e)
				}
				pos := make([]int, total)
				for ok {
					both, one := false, false // some call on each index, else the single-index scenarios cover it
					for _, x := range pos {
						both = both || calls[x] >= 1000
						one = one || calls[x] < 1000
					}
					for first := 0; first < 2 && both && one; first++ {
						sc.ScanFirst = first // what is asked first afterwards may wipe what the concurrent phase left behind
						sc.Progs = nil
						k := 0
						for _, n := range shape {
							var pr []int
							for _, x := range pos[k : k+n] {
								pr = append(pr, calls[x])
							}
							sc.Progs = append(sc.Progs, pr)
							k += n
						}
						if ok = emit(sc); !ok {
							return
						}
					}
					i := total - 1
					for i >= 0 && pos[i] == len(calls)-1 {
						pos[i] = 0
						i--
					}
					if i < 0 {
						break
					}
					pos[i]++
				}
			}
		}
	}
	// Large indexes: a code path that At takes only from some number of pieces on (a dense table built
	// on first use, a different search) is never entered by indexes of two or three intervals.
	large := func(shape []int) {
		total := 0
		for _, n := range shape {
			total += n
		}
		for _, n := range []int{16, 17, 32, 33, 64} {
			sc := Scenario{Starts: []int{}, Ends: []int{}}
			for i := 0; i < n; i++ {
				sc.Starts, sc.Ends = append(sc.Starts, 2*i), append(sc.Ends, 2*i+1)
			}
			menu := []int{0, n, 2*n - 2, 2*n + 5}
			pos := make([]int, total)
			for ok {
				sc.Progs = nil
				k := 0
				for _, m := range shape {
					var pr []int
					for _, x := range pos[k : k+m] {
						pr = append(pr, menu[x])
					}
					sc.Progs = append(sc.Progs, pr)
					k += m
				}
				if ok = emit(sc); !ok {
					return
				}
				i := total - 1
				for i >= 0 && pos[i] == len(menu)-1 {
					pos[i] = 0
					i--
				}
				if i < 0 {
					break
				}
				pos[i]++
			}
		}
	}
	// Deep pieces: many intervals covering ONE position (duplicates and nested ones). A code path that At
	// takes only for pieces listing more than some number of intervals (sorted lazily, stored differently)
	// is never entered by the other families, whose pieces list at most three.
	deep := func(shape []int) {
		total := 0
		for _, n := range shape {
			total += n
		}
		for _, n := range []int{16, 17, 32, 33, 64, 65, 66, 130} {
			sc := Scenario{Starts: []int{}, Ends: []int{}}
			for i := 0; i < n; i++ {
				sc.Starts, sc.Ends = append(sc.Starts, (i*7)%3), append(sc.Ends, 4+(i*5)%2) // all cover 2 and 3
			}
			menu := []int{0, 2, 3}
			pos := make([]int, total)
			for ok {
				sc.Progs = nil
				k := 0
				for _, m := range shape {
					var pr []int
					for _, x := range pos[k : k+m] {
						pr = append(pr, menu[x])
					}
					sc.Progs = append(sc.Progs, pr)
					k += m
				}
				if ok = emit(sc); !ok {
					return
				}
				i := total - 1
				for i >= 0 && pos[i] == len(menu)-1 {
					pos[i] = 0
					i--
				}
				if i < 0 {
					break
				}
				pos[i]++
			}
		}
	}
	// simplest first: fewer calls, fewer goroutines
	single([]int{1, 1})
	double([]int{1, 1})
	large([]int{1, 1})
	deep([]int{1, 1})
	single([]int{2, 1})
	double([]int{2, 1})
	large([]int{2, 1})
	single([]int{1, 1, 1})
	if tier == "thorough" {
		single([]int{2, 2})
		single([]int{2, 1, 1})
	}
}

func main() {
	if b, err := os.ReadFile(os.Getenv("VERIF_SCHED_SITES")); err == nil {
		json.Unmarshal(b, &sites)
	}
	if len(os.Args) >= 3 && os.Args[1] == "replay" {
		var c Case
		b, err := os.ReadFile(os.Args[2])
		if err == nil {
			err = json.Unmarshal(b, &c)
		}
		if err != nil {
			fmt.Fprintln(os.Stderr, err)
			os.Exit(2)
		}
		e, class, fail := runOne(c.Scenario, c.Schedule)
		json.NewEncoder(os.Stdout).Encode(map[string]any{"class": class, "fail": fail, "schedule": describe(e)})
		return
	}
	if len(os.Args) < 6 || os.Args[1] != "explore" {
		fmt.Fprintln(os.Stderr, "usage: schedc16 explore <tier> <shard> <nshards> <deadline-s> | replay <case.json>")
		os.Exit(2)
	}
	tier := os.Args[2]
	shard, _ := strconv.Atoi(os.Args[3])
	nshards, _ := strconv.Atoi(os.Args[4])
	secs, _ := strconv.Atoi(os.Args[5])
	deadline := time.Now().Add(time.Duration(secs) * time.Second)
	bound := 2
	if tier == "thorough" {
		bound = 3
	}
	sum := Summary{Bound: bound, Complete: true}
	classes := map[string]bool{}
	n := 0
	key := func(sc Scenario) string { b, _ := json.Marshal(sc); return string(b) }
	inQuick := map[string]bool{}
	explore := func(b int, skipQuick bool) func(sc Scenario) bool {
		return func(sc Scenario) bool {
			if skipQuick && inQuick[key(sc)] {
				return true
			}
			if !skipQuick && tier == "thorough" {
				inQuick[key(sc)] = true
			}
			n++
			if (n-1)%nshards != shard {
				return true
			}
			if time.Now().After(deadline) {
				sum.Complete = false
				return false
			}
			sum.Scenarios++
			failed := false
			st := sched.Explore(b, func(prefix []int) *sched.Exec {
				e, class, fail := runOne(sc, prefix)
				classes[class] = true
				if e.Preemptions() > 0 {
					sum.Preemptive++
				}
				if fail != "" && !failed {
					// determinism gate: the same schedule must fail the same way twice more
					c := Case{sc, slices.Clone(e.Choices)}
					// (the same KIND of failure: what a wrong answer contains may legitimately vary, e.g. with map order)
					_, c2, f2 := runOne(sc, c.Schedule)
					_, c3, f3 := runOne(sc, c.Schedule)
					if f2 != "" && f3 != "" && c2 == class && c3 == class {
						failed = true
						if len(sum.Violations) < 8 {
							sum.Violations = append(sum.Violations, Violation{c, fail + "; schedule:" + describe(e)})
						}
					} else {
						sum.Unstable++
					}
				}
				return e
			}, func(e *sched.Exec) bool { return !failed })
			sum.Executions += st.Executions
			sum.Capped += st.Capped
			sum.MaxDecisions = max(sum.MaxDecisions, st.MaxDecisions)
			sum.MaxPreemptions = max(sum.MaxPreemptions, st.MaxPreemptions)
			return len(sum.Violations) < 8
		}
	}
	// quick: the quick scenarios with <= 2 preemptions. thorough: first the SAME scenarios with <= 3
	// preemptions (a complete statement one bound deeper), then the larger scenarios with <= 2.
	scenarios("quick", explore(bound, false))
	if tier == "thorough" && sum.Complete && len(sum.Violations) == 0 {
		sum.Phase1 = sum.Scenarios
		scenarios("thorough", explore(2, true))
	}
	for c := range classes {
		sum.Classes = append(sum.Classes, c)
	}
	slices.Sort(sum.Classes)
	json.NewEncoder(os.Stdout).Encode(sum)
}
