package props

import (
	"bytes"
	"fmt"
	"math"
	"math/rand"
	"strconv"
	"strings"
	"sync"
	"unsafe"

	"github.com/fluhus/biostuff/align"

	"verif/mc/engine/core"
	"verif/mc/engine/enum"
	"verif/mc/ref"
)

// alnCase is one alignment execution: function x pair x matrix (by name, see matrixByName).
type alnCase struct {
	Fn     string `json:"fn"` // Global | Local
	A      core.S `json:"a"`
	B      core.S `json:"b"`
	Matrix string `json:"matrix"`
}

const alnLetters = "ABC"

// symMatrix: match/mismatch/gap/open over letters ABC.
func symMatrix(mt, x, g, o float64) align.SubstitutionMatrix {
	m := align.SubstitutionMatrix{}
	for i := 0; i < len(alnLetters); i++ {
		for j := 0; j < len(alnLetters); j++ {
			if i == j {
				m[[2]byte{alnLetters[i], alnLetters[j]}] = mt
			} else {
				m[[2]byte{alnLetters[i], alnLetters[j]}] = x
			}
		}
		m[[2]byte{alnLetters[i], align.Gap}] = g
		m[[2]byte{align.Gap, alnLetters[i]}] = g
	}
	m[[2]byte{align.Gap, align.Gap}] = o
	return m
}

// asymMatrix k: s(x,y) != s(y,x), deletion gaps != insertion gaps, per-letter gaps differ.
func asymMatrix(k int, o float64) align.SubstitutionMatrix {
	m := align.SubstitutionMatrix{}
	pair := [][3][3]float64{
		{{2, -1, 0}, {1, 3, -2}, {-3, 0, 1}},
		{{1, 2, -1}, {-2, 1, 0}, {0, -1, 4}},
	}[k%2]
	del := [][3]float64{{-1, -2, 0}, {0, -1, -3}}[k%2]
	ins := [][3]float64{{-2, -1, -3}, {-1, 0, -2}}[k%2]
	for i := 0; i < 3; i++ {
		for j := 0; j < 3; j++ {
			m[[2]byte{alnLetters[i], alnLetters[j]}] = pair[i][j]
		}
		m[[2]byte{alnLetters[i], align.Gap}] = del[i]
		m[[2]byte{align.Gap, alnLetters[i]}] = ins[i]
	}
	m[[2]byte{align.Gap, align.Gap}] = o
	return m
}

func seededMatrix(seed int64, i int) align.SubstitutionMatrix {
	rng := rand.New(rand.NewSource(seed*1000003 + int64(i)))
	m := align.SubstitutionMatrix{}
	for x := 0; x < 3; x++ {
		for y := 0; y < 3; y++ {
			m[[2]byte{alnLetters[x], alnLetters[y]}] = float64(rng.Intn(9) - 3)
		}
		m[[2]byte{alnLetters[x], align.Gap}] = float64(-rng.Intn(4))
		m[[2]byte{align.Gap, alnLetters[x]}] = float64(-rng.Intn(4))
	}
	m[[2]byte{align.Gap, align.Gap}] = float64(-(i % 2) * (1 + rng.Intn(3))) // even i: zero gap-open
	return m
}

var (
	matMu    sync.Mutex
	matCache = map[string]align.SubstitutionMatrix{}
	matFast  sync.Map
)

// matrixByName resolves "sym:m:x:g:o", "asym:k:o", "seed:S:i" and the shipped names.
func matrixByName(name string) align.SubstitutionMatrix {
	if m, ok := matFast.Load(name); ok {
		return m.(align.SubstitutionMatrix)
	}
	matMu.Lock()
	defer matMu.Unlock()
	if m, ok := matCache[name]; ok {
		return m
	}
	defer func() {
		if m, ok := matCache[name]; ok {
			matFast.Store(name, m)
		}
	}()
	var m align.SubstitutionMatrix
	p := strings.Split(name, ":")
	f := func(i int) float64 { v, _ := strconv.ParseFloat(p[i], 64); return v }
	switch p[0] {
	case "sym":
		m = symMatrix(f(1), f(2), f(3), f(4))
	case "asym":
		m = asymMatrix(int(f(1)), f(2))
	case "seed":
		s, _ := strconv.ParseInt(p[1], 10, 64)
		m = seededMatrix(s, int(f(2)))
	case "over":
		// "over:<byte>:m:x:g:o": the symmetric matrix over the two letters 'A' and <byte>
		v := byte(f(1))
		m = align.SubstitutionMatrix{}
		for _, a := range []byte{'A', v} {
			for _, b := range []byte{'A', v} {
				if a == b {
					m[[2]byte{a, b}] = f(2)
				} else {
					m[[2]byte{a, b}] = f(3)
				}
			}
			m[[2]byte{a, align.Gap}] = f(4)
			m[[2]byte{align.Gap, a}] = f(4)
		}
		m[[2]byte{align.Gap, align.Gap}] = f(5)
	case "scaled":
		// small integer scores times a power of two: every sum stays exact, only the magnitude changes
		k := math.Ldexp(1, int(f(1)))
		m = symMatrix(f(2)*k, f(3)*k, f(4)*k, f(5)*k)
	case "exact":
		// scores that float64 adds exactly over these short sequences but float32 cannot hold
		switch p[1] {
		case "big":
			m = symMatrix(16777217, -16777217, -16777219, f(2)*16777217)
		case "fine":
			m = symMatrix(1+1.0/(1<<30), -(1 + 1.0/(1<<29)), -(0.5 + 1.0/(1<<31)), f(2)*(0.25+1.0/(1<<32)))
		case "forbid-open": // gaps forbidden through an infinite / huge gap-open score
			m = symMatrix(1, -1, -1, []float64{math.Inf(-1), -math.MaxFloat64, -1e308}[int(f(2))])
		case "forbid-gap": // gaps forbidden through an infinite per-character gap score, gap-open 0
			m = symMatrix(2, -1, math.Inf(-1), 0)
		}
	case "Levenshtein":
		m = align.Levenshtein
	case "PAM120":
		m = align.PAM120
	case "PAM160":
		m = align.PAM160
	case "PAM250":
		m = align.PAM250
	case "BLOSUM45":
		m = align.BLOSUM45
	case "BLOSUM62":
		m = align.BLOSUM62
	case "BLOSUM80":
		m = align.BLOSUM80
	default:
		panic("unknown matrix " + name)
	}
	matCache[name] = m
	return m
}

var shippedNames = []string{"PAM120", "PAM160", "PAM250", "BLOSUM45", "BLOSUM62", "BLOSUM80"}

// matrixFamily lists the family F. which: "all" | "zero-open" | "nonzero-open".
// forLocal drops members with a positive gap or gap-open score.
func matrixFamily(r *core.Run, which string, forLocal bool) []string {
	var out []string
	add := func(name string) {
		m := matrixByName(name)
		o := m[[2]byte{align.Gap, align.Gap}]
		if which == "zero-open" && o != 0 {
			return
		}
		if which == "nonzero-open" && o == 0 {
			return
		}
		pos := o > 0
		for k, v := range m {
			if (k[0] == align.Gap || k[1] == align.Gap) && v > 0 {
				pos = true
			}
		}
		// Local: C08 and C10 state "non-positive gap scores"; C09 ("any matrix whose gap-open score is
		// zero") does not, and the pinned tree is optimal there, so the zero-open family keeps them.
		if pos && ((forLocal && which != "zero-open") || which == "nonzero-open") {
			return
		}
		out = append(out, name)
	}
	ms, xs, gs, os := []int{1, 2, 5}, []int{0, -1, -3}, []int{0, -1, -2}, []int{0, -1, -3}
	for im, mt := range ms {
		for ix, x := range xs {
			for ig, g := range gs {
				for io, o := range os {
					// quick: a covering subset (every pair of parameter values occurs); thorough: all 81
					if !r.Thorough() && (im+ix+ig+io)%3 != 0 && !(mt == 1 && x == -1 && g == -1) && !(mt == 3 && x == -3) {
						continue
					}
					add(fmt.Sprintf("sym:%d:%d:%d:%d", mt, x, g, o))
				}
			}
		}
	}
	add("sym:3:-3:-1:-2")
	add("sym:3:-3:-1:0")
	for k := 0; k < 2; k++ {
		for _, o := range []int{0, -1, -2} {
			add(fmt.Sprintf("asym:%d:%d", k, o))
		}
	}
	// Global only: positive gap / gap-open scores
	add("sym:1:-1:1:0")
	add("sym:2:-3:2:0")
	add("sym:5:-3:1:0")
	add("sym:1:0:3:0")
	add("sym:2:-1:-1:2")
	add("sym:1:0:1:1")
	for i := 0; i < 8; i++ {
		add(fmt.Sprintf("seed:%d:%d", r.Seed, i))
	}
	for _, k := range []string{"big", "fine"} {
		add("exact:" + k + ":0")
		add("exact:" + k + ":-1")
	}
	// the same integer matrices at very small and very large magnitudes (the property does not bound the scale)
	for _, e := range []int{-50, -1000, 900} {
		add(fmt.Sprintf("scaled:%d:2:-3:0:-1", e))
		add(fmt.Sprintf("scaled:%d:1:-1:-1:-1", e))
		add(fmt.Sprintf("scaled:%d:2:-3:0:0", e))
		add(fmt.Sprintf("scaled:%d:2:-1:-1:0", e))
	}
	add("exact:forbid-open:0")
	add("exact:forbid-open:1")
	add("exact:forbid-open:2")
	add("exact:forbid-gap:0")
	return out
}

// pairsOver emits every ordered pair of strings over sigma^<=L.
func pairsOver(sigma string, L int, f func(a, b string) bool) {
	all := enum.AllStrings(sigma, L)
	for _, a := range all {
		for _, b := range all {
			if !f(a, b) {
				return
			}
		}
	}
}

func toRefMat(m align.SubstitutionMatrix) ref.Mat { return ref.Mat(m) }

func stepsBytes(s []align.Step) []byte {
	out := make([]byte, len(s))
	for i, x := range s {
		out[i] = byte(x)
	}
	return out
}

// alnResult is what one call returned.
type alnResult struct {
	steps  []byte
	ai, bi int
	score  float64
	panicS string
}

// runAlignRaw is runAlign but keeps the returned step slice uncopied (viewed as bytes), so that a
// caller can detect a later call overwriting it.
func runAlignRaw(c alnCase, m align.SubstitutionMatrix) (res alnResult, inputsChanged bool) {
	a, b := c.A.B(), c.B.B()
	a0, b0 := bytes.Clone(a), bytes.Clone(b)
	res.panicS = catch(func() {
		var st []align.Step
		if c.Fn == "Global" {
			st, res.score = align.Global(a, b, m)
		} else {
			st, res.ai, res.bi, res.score = align.Local(a, b, m)
		}
		if len(st) > 0 {
			res.steps = unsafe.Slice((*byte)(unsafe.Pointer(&st[0])), len(st))
		}
	})
	return res, !bytes.Equal(a, a0) || !bytes.Equal(b, b0)
}

func runAlign(c alnCase, m align.SubstitutionMatrix) (res alnResult, inputsChanged bool) {
	a, b := c.A.B(), c.B.B()
	a0, b0 := bytes.Clone(a), bytes.Clone(b)
	res.panicS = catch(func() {
		if c.Fn == "Global" {
			st, sc := align.Global(a, b, m)
			res.steps, res.score = stepsBytes(st), sc
		} else {
			st, ai, bi, sc := align.Local(a, b, m)
			res.steps, res.ai, res.bi, res.score = stepsBytes(st), ai, bi, sc
		}
	})
	return res, !bytes.Equal(a, a0) || !bytes.Equal(b, b0)
}

// optimum returns the reference optimum: brute force when both sequences are short, Gotoh
// otherwise; on short inputs both are computed and must agree (else harness error).
func optimum(r *core.Run, c alnCase, m ref.Mat, bruteMax int) float64 {
	a, b := c.A.B(), c.B.B()
	var g float64
	if c.Fn == "Global" {
		g = ref.GotohGlobal(a, b, m)
	} else {
		g = ref.GotohLocal(a, b, m)
	}
	if len(a) <= bruteMax && len(b) <= bruteMax {
		var bf float64
		if c.Fn == "Global" {
			bf = ref.BruteGlobal(a, b, m)
		} else {
			bf = ref.BruteLocalFast(a, b, m)
		}
		if bf != g {
			r.HarnessError("reference models disagree on %s(%q,%q,%s): brute force %v, Gotoh %v", c.Fn, a, b, c.Matrix, bf, g)
		}
		return bf
	}
	return g
}
