package ref

import "math"

// Mat is a substitution matrix: pair -> score, byte 255 is the gap symbol and {255,255} the
// gap-open score (same layout as the judged package's map type, deliberately not imported).
type Mat = map[[2]byte]float64

// GapSym is the gap byte.
const GapSym = 255

// Steps of an alignment (same numbering as the documented constants).
const (
	StepMatch     = 1
	StepDeletion  = 2 // a character of a against a gap
	StepInsertion = 3 // a character of b against a gap
)

var negInf = math.Inf(-1)

func open(m Mat) float64 { return m[[2]byte{GapSym, GapSym}] }

// Rescore walks steps over a[ai:], b[bi:] and returns the documented score: pair score per
// match step, per-character gap score per gap step, gap-open once per run of consecutive gap
// steps of the same kind. ok=false if a step leaves a or b or is not a valid step; na, nb are
// the numbers of characters consumed.
func Rescore(a, b []byte, ai, bi int, steps []byte, m Mat) (score float64, na, nb int, ok bool) {
	if ai < 0 || bi < 0 || ai > len(a) || bi > len(b) {
		return 0, 0, 0, false
	}
	i, j := ai, bi
	prev := byte(0)
	for _, s := range steps {
		switch s {
		case StepMatch:
			if i >= len(a) || j >= len(b) {
				return 0, 0, 0, false
			}
			score += m[[2]byte{a[i], b[j]}]
			i++
			j++
		case StepDeletion:
			if i >= len(a) {
				return 0, 0, 0, false
			}
			score += m[[2]byte{a[i], GapSym}]
			if prev != StepDeletion {
				score += open(m)
			}
			i++
		case StepInsertion:
			if j >= len(b) {
				return 0, 0, 0, false
			}
			score += m[[2]byte{GapSym, b[j]}]
			if prev != StepInsertion {
				score += open(m)
			}
			j++
		default:
			return 0, 0, 0, false
		}
		prev = s
	}
	return score, i - ai, j - bi, true
}

// BruteGlobal enumerates every alignment (every step sequence consuming exactly a and b) and
// returns the best score. Exponential: use for |a|,|b| <= 4 or so.
func BruteGlobal(a, b []byte, m Mat) float64 {
	best := negInf
	var rec func(i, j int, prev byte, sc float64)
	rec = func(i, j int, prev byte, sc float64) {
		if i == len(a) && j == len(b) {
			if sc > best {
				best = sc
			}
			return
		}
		if i < len(a) && j < len(b) {
			rec(i+1, j+1, StepMatch, sc+m[[2]byte{a[i], b[j]}])
		}
		if i < len(a) {
			s := sc + m[[2]byte{a[i], GapSym}]
			if prev != StepDeletion {
				s += open(m)
			}
			rec(i+1, j, StepDeletion, s)
		}
		if j < len(b) {
			s := sc + m[[2]byte{GapSym, b[j]}]
			if prev != StepInsertion {
				s += open(m)
			}
			rec(i, j+1, StepInsertion, s)
		}
	}
	rec(0, 0, 0, 0)
	return best
}

// BruteLocal is the maximum of BruteGlobal over all pairs of substrings (the empty pair gives 0).
func BruteLocal(a, b []byte, m Mat) float64 {
	best := 0.0
	for i := 0; i <= len(a); i++ {
		for i2 := i; i2 <= len(a); i2++ {
			for j := 0; j <= len(b); j++ {
				for j2 := j; j2 <= len(b); j2++ {
					if s := BruteGlobal(a[i:i2], b[j:j2], m); s > best {
						best = s
					}
				}
			}
		}
	}
	return best
}

func max3(a, b, c float64) float64 { return math.Max(a, math.Max(b, c)) }

// GotohGlobal is the three-state affine-gap DP for the global optimum.
func GotohGlobal(a, b []byte, m Mat) float64 {
	n, k := len(a), len(b)
	o := open(m)
	M := make([][]float64, n+1)
	D := make([][]float64, n+1)
	I := make([][]float64, n+1)
	for i := range M {
		M[i] = make([]float64, k+1)
		D[i] = make([]float64, k+1)
		I[i] = make([]float64, k+1)
		for j := range M[i] {
			M[i][j], D[i][j], I[i][j] = negInf, negInf, negInf
		}
	}
	M[0][0] = 0
	for i := 0; i <= n; i++ {
		for j := 0; j <= k; j++ {
			if i > 0 && j > 0 {
				M[i][j] = m[[2]byte{a[i-1], b[j-1]}] + max3(M[i-1][j-1], D[i-1][j-1], I[i-1][j-1])
			}
			if i > 0 {
				D[i][j] = m[[2]byte{a[i-1], GapSym}] + max3(D[i-1][j], M[i-1][j]+o, I[i-1][j]+o)
			}
			if j > 0 {
				I[i][j] = m[[2]byte{GapSym, b[j-1]}] + max3(I[i][j-1], M[i][j-1]+o, D[i][j-1]+o)
			}
		}
	}
	return max3(M[n][k], D[n][k], I[n][k])
}

// GotohLocal is the three-state DP for the best-scoring alignment of any pair of substrings
// (0 for the empty alignment). An alignment may start in any state at any cell.
func GotohLocal(a, b []byte, m Mat) float64 {
	n, k := len(a), len(b)
	o := open(m)
	M := make([][]float64, n+1)
	D := make([][]float64, n+1)
	I := make([][]float64, n+1)
	for i := range M {
		M[i] = make([]float64, k+1)
		D[i] = make([]float64, k+1)
		I[i] = make([]float64, k+1)
		for j := range M[i] {
			M[i][j], D[i][j], I[i][j] = negInf, negInf, negInf
		}
	}
	best := 0.0
	for i := 0; i <= n; i++ {
		for j := 0; j <= k; j++ {
			if i > 0 && j > 0 {
				M[i][j] = m[[2]byte{a[i-1], b[j-1]}] + math.Max(0, max3(M[i-1][j-1], D[i-1][j-1], I[i-1][j-1]))
			}
			if i > 0 {
				D[i][j] = m[[2]byte{a[i-1], GapSym}] + math.Max(o, max3(D[i-1][j], M[i-1][j]+o, I[i-1][j]+o))
			}
			if j > 0 {
				I[i][j] = m[[2]byte{GapSym, b[j-1]}] + math.Max(o, max3(I[i][j-1], M[i][j-1]+o, D[i][j-1]+o))
			}
			best = math.Max(best, max3(M[i][j], D[i][j], I[i][j]))
		}
	}
	return best
}

// SingleStateGlobal is NOT a reference for the property: it is an executable model of the known
// defect (one (score, step) per cell, ties resolved match >= deletion >= insertion, gap-open
// decided by the step stored in the predecessor cell). It is used only to attribute a
// sub-optimal score to the documented finding.
func SingleStateGlobal(a, b []byte, m Mat) float64 {
	sc, _ := singleState(a, b, m, false)
	return sc
}

// SingleStateLocal is the local variant of the defect model (cells clamped at 0).
func SingleStateLocal(a, b []byte, m Mat) float64 {
	sc, _ := singleState(a, b, m, true)
	return sc
}

func singleState(a, b []byte, m Mat, local bool) (float64, int) {
	n, k := len(a)+1, len(b)+1
	score := make([]float64, n*k)
	step := make([]byte, n*k)
	o := open(m)
	clamp := func(c int) {
		if local && score[c] < 0 {
			score[c], step[c] = 0, 0
		}
	}
	for c := 1; c < n*k; c++ {
		i, j := c/k, c%k
		switch {
		case i == 0:
			step[c] = StepInsertion
			score[c] = score[c-1] + m[[2]byte{GapSym, b[j-1]}]
			if j == 1 {
				score[c] += o
			}
		case j == 0:
			step[c] = StepDeletion
			score[c] = score[c-k] + m[[2]byte{a[i-1], GapSym}]
			if i == 1 {
				score[c] += o
			}
		default:
			mch := score[c-k-1] + m[[2]byte{a[i-1], b[j-1]}]
			del := score[c-k] + m[[2]byte{a[i-1], GapSym}]
			if step[c-k] != StepDeletion {
				del += o
			}
			ins := score[c-1] + m[[2]byte{GapSym, b[j-1]}]
			if step[c-1] != StepInsertion {
				ins += o
			}
			if mch >= del && mch >= ins {
				score[c], step[c] = mch, StepMatch
			} else if del >= ins {
				score[c], step[c] = del, StepDeletion
			} else {
				score[c], step[c] = ins, StepInsertion
			}
		}
		clamp(c)
	}
	if !local {
		return score[n*k-1], n*k - 1
	}
	best, at := 0.0, 0
	for c, s := range score {
		if s > best {
			best, at = s, c
		}
	}
	return best, at
}

// EditDistance is the classic Wagner-Fischer Levenshtein distance.
func EditDistance(a, b []byte) int {
	prev := make([]int, len(b)+1)
	cur := make([]int, len(b)+1)
	for j := range prev {
		prev[j] = j
	}
	for i := 1; i <= len(a); i++ {
		cur[0] = i
		for j := 1; j <= len(b); j++ {
			c := prev[j-1]
			if a[i-1] != b[j-1] {
				c++
			}
			if prev[j]+1 < c {
				c = prev[j] + 1
			}
			if cur[j-1]+1 < c {
				c = cur[j-1] + 1
			}
			cur[j] = c
		}
		prev, cur = cur, prev
	}
	return prev[len(b)]
}

// BruteLocalFast computes the same value as BruteLocal by enumerating, from every start cell,
// every step sequence and taking the best score over all prefixes (every prefix of a path from
// (i,j) is an alignment of a pair of substrings starting at i and j).
func BruteLocalFast(a, b []byte, m Mat) float64 {
	best := 0.0
	var rec func(i, j int, prev byte, sc float64)
	rec = func(i, j int, prev byte, sc float64) {
		if sc > best {
			best = sc
		}
		if i < len(a) && j < len(b) {
			rec(i+1, j+1, StepMatch, sc+m[[2]byte{a[i], b[j]}])
		}
		if i < len(a) {
			s := sc + m[[2]byte{a[i], GapSym}]
			if prev != StepDeletion {
				s += open(m)
			}
			rec(i+1, j, StepDeletion, s)
		}
		if j < len(b) {
			s := sc + m[[2]byte{GapSym, b[j]}]
			if prev != StepInsertion {
				s += open(m)
			}
			rec(i, j+1, StepInsertion, s)
		}
	}
	for i := 0; i <= len(a); i++ {
		for j := 0; j <= len(b); j++ {
			rec(i, j, 0, 0)
		}
	}
	return best
}
