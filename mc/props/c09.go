package props

import (
	"fmt"
	"sort"

	"github.com/fluhus/biostuff/align"

	"verif/mc/engine/core"
	"verif/mc/ref"
)

func init() {
	register("C09", "exploration", runC09)
	register("C10", "exploration", runC10)
}

// checkOptimal compares the returned score with the reference optimum. knownIDs maps a function
// name to the known-finding id that may explain a sub-optimal score (C10 only).
func checkOptimal(r *core.Run, bruteMax int, knownIDs map[string]string) func(c alnCase) core.Outcome {
	return func(c alnCase) core.Outcome {
		m := matrixByName(c.Matrix)
		rm := toRefMat(m)
		a, b := c.A.B(), c.B.B()
		res, _ := runAlign(c, m)
		if res.panicS != "" {
			return core.Failf("%s(%q,%q,%s) panicked: %s", c.Fn, a, b, c.Matrix, res.panicS)
		}
		opt := optimum(r, c, rm, bruteMax)
		nontrivial := len(a) > 0 && len(b) > 0
		if res.score == opt {
			// "the one Global/Local returns" is an alignment, not only a number: the returned steps must be
			// that alignment (inside C08's domain, where the pinned tree guarantees it)
			if f := stepsCarryScore(c, res, rm); f != "" {
				return core.Failf("%s", f)
			}
			return core.Outcome{Class: c.Fn + " optimal", Nontrivial: nontrivial}
		}
		what := "an alignment"
		if c.Fn == "Local" {
			what = "an alignment of a pair of substrings"
		}
		out := core.Failf("%s(%q,%q,%s) returned score %v but %s scores %v", c.Fn, a, b, c.Matrix, res.score, what, opt)
		if id := knownIDs[c.Fn]; id != "" && res.score < opt && r.KnownListed(id) {
			var model float64
			if c.Fn == "Global" {
				model = ref.SingleStateGlobal(a, b, rm)
			} else {
				model = ref.SingleStateLocal(a, b, rm)
			}
			if model == res.score {
				out.Known = id
				out.Class = c.Fn + " suboptimal (known finding " + id + ")"
			}
		}
		return out
	}
}

// stepsCarryScore re-scores the returned steps (C08's clause) for results whose score is optimal. Local
// with positive gap scores is outside C08's domain and is not judged here.
func stepsCarryScore(c alnCase, res alnResult, rm ref.Mat) string {
	a, b := c.A.B(), c.B.B()
	if c.Fn == "Global" {
		sc, na, nb, ok := ref.Rescore(a, b, 0, 0, res.steps, rm)
		if !ok || na != len(a) || nb != len(b) || sc != res.score {
			return fmt.Sprintf("Global(%q,%q,%s) returned the optimal score %v but steps %v that score %v and consume %d of %d and %d of %d letters", a, b, c.Matrix, res.score, res.steps, sc, na, len(a), nb, len(b))
		}
		return ""
	}
	for k, v := range rm {
		if (k[0] == ref.GapSym || k[1] == ref.GapSym) && v > 0 {
			return ""
		}
	}
	if len(res.steps) == 0 {
		if res.score != 0 {
			return fmt.Sprintf("Local(%q,%q,%s) returned score %v and no steps", a, b, c.Matrix, res.score)
		}
		return ""
	}
	sc, _, _, ok := ref.Rescore(a, b, res.ai, res.bi, res.steps, rm)
	if !ok || sc != res.score {
		return fmt.Sprintf("Local(%q,%q,%s) returned the optimal score %v but steps %v from offsets (%d,%d) that score %v (inside the sequences: %v)", a, b, c.Matrix, res.score, res.steps, res.ai, res.bi, sc, ok)
	}
	return ""
}

type c09Table struct {
	Matrix string `json:"matrix"`
	A      int    `json:"a"`
	B      int    `json:"b"`
}

func runC09(r *core.Run) {
	racePass(r, "race-align", "Global and Local on shared sequences and a shared matrix (gap-open 0, Levenshtein, BLOSUM62)")
	firstCallClause(r, "align.Global", "align.Local")
	L2 := core.Pick(r, 5, 8)
	bruteMax := core.Pick(r, 3, 4)
	r.Bound("pairs", fmt.Sprintf("all ordered pairs over {A,B}^<=%d and {A,B,C}^<=%d; Levenshtein over {a,b,c}^<=%d; shipped over {A,R,W,X}^<=%d", L2, core.Pick(r, 3, 5), core.Pick(r, 4, 5), core.Pick(r, 3, 4)))
	r.Bound("reference", fmt.Sprintf("brute-force enumeration of all alignments when both lengths <= %d (Gotoh DP must agree there, else harness error); Gotoh beyond", bruteMax))
	r.Bound("matrices", fmt.Sprintf("%d zero-gap-open matrices for Global, %d for Local", len(matrixFamily(r, "zero-open", false)), len(matrixFamily(r, "zero-open", true))))
	r.Assume("integer-valued matrices: sums are exact and compared with ==")
	rule := "every ordered pair up to the bound x every zero-gap-open matrix of the family x {Global, Local}: returned score == optimum over all alignments (of all substring pairs for Local); non-trivial = both sequences non-empty"
	chk := checkOptimal(r, bruteMax, nil)
	core.Clause(r, "family-AB", core.Opts{Rule: rule}, genAlign(r, "zero-open", "AB", L2, bothFns), chk)
	core.Clause(r, "family-ABC", core.Opts{Rule: rule}, genAlign(r, "zero-open", "ABC", core.Pick(r, 3, 5), bothFns), chk)

	alignHistories(r, []string{"sym:1:-1:-1:0", "sym:2:-3:-2:0", "asym:1:0", "exact:fine:0"}, judgeOptimal(r, nil))
	matrixMutationHistories(r, true, judgeOptimal(r, nil))
	alignWideAlphabets(r, judgeOptimal(r, nil))
	alignAllLengthPairs(r, "sym:2:-1:-1:0", judgeOptimal(r, nil))
	alignBufferReuse(r, []string{"sym:1:-1:-1:0", "sym:2:-3:-2:0"})
	alignAllBytes(r, true, []string{"2:-1:-1:0", "1:-3:0:0"}, judgeOptimal(r, nil))
	alignAllBytePairs(r, judgeOptimal(r, nil))
	alignAliasing(r, "AB", core.Pick(r, 4, 5), []string{"sym:1:-1:-1:0", "sym:2:-3:-2:0", "sym:0:-1:-1:0", "asym:1:0", "Levenshtein"}, judgeOptimal(r, nil))

	core.Clause(r, "levenshtein", core.Opts{Rule: "every ordered pair over {a,b,c} up to the bound (and over {0x00,0xFE,a} up to 3): Global score == -(Wagner-Fischer edit distance), Local score == optimum; non-trivial = both non-empty"},
		func(emit func(alnCase) bool) {
			for _, fn := range bothFns {
				pairsOver("abc", core.Pick(r, 4, 5), func(a, b string) bool { return emit(alnCase{fn, core.S(a), core.S(b), "Levenshtein"}) })
				pairsOver("\x00\xfea", 3, func(a, b string) bool { return emit(alnCase{fn, core.S(a), core.S(b), "Levenshtein"}) })
			}
		},
		func(c alnCase) core.Outcome {
			out := chk(c)
			if out.Fail != "" || c.Fn != "Global" {
				return out
			}
			res, _ := runAlign(c, align.Levenshtein)
			if d := ref.EditDistance(c.A.B(), c.B.B()); res.score != -float64(d) {
				return core.Failf("Global(%q,%q,Levenshtein) = %v, edit distance is %d", c.A, c.B, res.score, d)
			}
			return out
		})

	core.Clause(r, "shipped-symmetric", core.Opts{Rule: "every ordered pair over {A,R,W,X} up to the bound x each shipped PAM/BLOSUM matrix: optimal, no panic, score(a,b) == score(b,a); non-trivial = both non-empty"},
		func(emit func(alnCase) bool) {
			for _, fn := range bothFns {
				for _, mn := range shippedNames {
					pairsOver("ARWX", core.Pick(r, 3, 4), func(a, b string) bool { return emit(alnCase{fn, core.S(a), core.S(b), mn}) })
				}
			}
		},
		func(c alnCase) core.Outcome {
			out := chk(c)
			if out.Fail != "" {
				return out
			}
			m := matrixByName(c.Matrix)
			r1, _ := runAlign(c, m)
			r2, _ := runAlign(alnCase{c.Fn, c.B, c.A, c.Matrix}, m)
			if r2.panicS != "" {
				return core.Failf("%s(%q,%q,%s) panicked: %s", c.Fn, c.B, c.A, c.Matrix, r2.panicS)
			}
			if r1.score != r2.score {
				return core.Failf("%s with %s: score(%q,%q) = %v but score(%q,%q) = %v", c.Fn, c.Matrix, c.A, c.B, r1.score, c.B, c.A, r2.score)
			}
			out.Evals = 3
			return out
		})

	core.Clause(r, "tables-complete", core.Opts{Rule: "all 65536 Levenshtein entries (0 on the diagonal, -1 elsewhere) and for each shipped matrix every pair over its own alphabet (23 letters + gap, discovered from the map): defined, mirror-equal, {Gap,Gap} == 0; non-trivial = all"},
		func(emit func(c09Table) bool) {
			for a := 0; a < 256; a++ {
				for b := 0; b < 256; b++ {
					if !emit(c09Table{"Levenshtein", a, b}) {
						return
					}
				}
			}
			for _, mn := range shippedNames {
				alpha := matrixAlphabet(matrixByName(mn))
				for _, a := range alpha {
					for _, b := range alpha {
						emit(c09Table{mn, int(a), int(b)})
					}
				}
				emit(c09Table{mn, -1, len(alpha)}) // alphabet-size check
			}
		},
		func(c c09Table) core.Outcome {
			m := matrixByName(c.Matrix)
			if c.A == -1 {
				if c.B != 24 {
					return core.Failf("%s has an alphabet of %d symbols (incl. gap), want 24: %q", c.Matrix, c.B, matrixAlphabet(m))
				}
				if len(m) != 24*24 {
					return core.Failf("%s has %d entries, want 576", c.Matrix, len(m))
				}
				return core.OK("alphabet", true)
			}
			a, b := byte(c.A), byte(c.B)
			v, ok := m[[2]byte{a, b}]
			if !ok {
				return core.Failf("%s has no entry for (%q,%q)", c.Matrix, a, b)
			}
			w, ok2 := m[[2]byte{b, a}]
			if !ok2 || v != w {
				return core.Failf("%s is not symmetric at (%q,%q): %v vs %v", c.Matrix, a, b, v, w)
			}
			if c.Matrix == "Levenshtein" {
				want := -1.0
				if a == b {
					want = 0
				}
				if v != want {
					return core.Failf("Levenshtein[%d,%d] = %v, want %v", a, b, v, want)
				}
			}
			if a == align.Gap && b == align.Gap && v != 0 {
				return core.Failf("%s gap-open is %v, want 0", c.Matrix, v)
			}
			return core.OK("entry", true)
		})
}

func matrixAlphabet(m align.SubstitutionMatrix) []byte {
	set := map[byte]struct{}{}
	for k := range m {
		set[k[0]] = struct{}{}
		set[k[1]] = struct{}{}
	}
	var out []byte
	for b := range set {
		out = append(out, b)
	}
	sort.Slice(out, func(i, j int) bool { return out[i] < out[j] })
	return out
}

func runC10(r *core.Run) {
	racePass(r, "race-align-affine", "Global and Local with three gap-open matrices on eight input pairs of different sizes; each goroutine works through the pairs in its own order; every result is compared with what the same call returned when it ran alone")
	firstCallClause(r, "align.Global", "align.Local")
	L2 := core.Pick(r, 6, 8)
	bruteMax := core.Pick(r, 3, 4)
	r.Bound("pairs", fmt.Sprintf("all ordered pairs over {A,B}^<=%d and {A,B,C}^<=%d", L2, core.Pick(r, 3, 5)))
	r.Bound("reference", fmt.Sprintf("brute-force enumeration of all alignments when both lengths <= %d (Gotoh DP must agree there, else harness error); Gotoh beyond", bruteMax))
	r.Bound("matrices", fmt.Sprintf("%d matrices with gap-open < 0 and non-positive gap scores", len(matrixFamily(r, "nonzero-open", true))))
	r.Assume("integer-valued matrices: sums are exact and compared with ==")
	r.Assume("a sub-optimal score is attributed to a listed known finding only if it equals the score of the single-state-DP model of that defect on the same input; everything else is a VIOLATION")
	rule := "every ordered pair up to the bound x every matrix with gap-open != 0 (non-positive gap scores) x {Global, Local}: returned score == affine-gap optimum; non-trivial = both sequences non-empty"
	chk := checkOptimal(r, bruteMax, map[string]string{"Global": "C10-global", "Local": "C10-local"})
	core.Clause(r, "family-AB", core.Opts{Rule: rule}, genAlign(r, "nonzero-open", "AB", L2, bothFns), chk)
	core.Clause(r, "family-ABC", core.Opts{Rule: rule}, genAlign(r, "nonzero-open", "ABC", core.Pick(r, 3, 5), bothFns), chk)
	alignHistories(r, []string{"sym:1:-1:-1:-1", "sym:3:-3:-1:-2", "asym:0:-2", "exact:big:-1"}, judgeOptimal(r, map[string]string{"Global": "C10-global", "Local": "C10-local"}))
	matrixMutationHistories(r, false, judgeOptimal(r, map[string]string{"Global": "C10-global", "Local": "C10-local"}))
	alignAllLengthPairs(r, "sym:2:-1:-1:-1", judgeOptimal(r, map[string]string{"Global": "C10-global", "Local": "C10-local"}))
	alignBufferReuse(r, []string{"sym:1:-1:-1:-1", "sym:3:-3:-1:-2"})
	alignAllBytes(r, false, []string{"2:-1:-1:-1", "2:-3:0:-1"}, judgeOptimal(r, map[string]string{"Global": "C10-global", "Local": "C10-local"}))
	alignAliasing(r, "AB", core.Pick(r, 4, 5), []string{"sym:1:-1:-1:-1", "sym:3:-3:-1:-2", "sym:2:-3:0:-1", "asym:0:-2"}, judgeOptimal(r, map[string]string{"Global": "C10-global", "Local": "C10-local"}))
}
