#!/usr/bin/env python3
"""mkseedround.py <round> — prepares one round of independent seeded changes.

For every property: a scratch worktree /tmp/seed<round>-<ID> of /repo HEAD and a directory
/tmp/seedout<round>/<ID>/ holding PROPERTY.txt and PROMPT.txt. A prompt carries the property text and,
to avoid duplicates, one line per change other engineers already made for that property (taken from
seeded/<ID>*/meta.json, i.e. from earlier sub-agents' own descriptions). Nothing about /verif's checks
is passed on.
"""
import json, os, subprocess, sys, glob

rnd = int(sys.argv[1])
root = os.path.dirname(os.path.dirname(os.path.abspath(__file__)))
props = [json.loads(l) for l in open(os.path.join(root, "properties.jsonl"))]
for p in props:
    pid = p["id"]
    wt = f"/tmp/seed{rnd}-{pid}"
    out = f"/tmp/seedout{rnd}/{pid}"
    os.makedirs(out, exist_ok=True)
    if not os.path.isdir(wt):
        subprocess.run(["git", "-C", "/repo", "worktree", "add", "--detach", wt, "HEAD"], check=True,
                       stdout=subprocess.DEVNULL, stderr=subprocess.DEVNULL)
    text = f"{pid} — {p['title']}\n\nSTATEMENT: {p['statement']}\n\nQUANTIFIED OVER: {p['quantifier']['text']}\n"
    open(os.path.join(out, "PROPERTY.txt"), "w").write(text)
    earlier = []
    for m in sorted(glob.glob(os.path.join(root, "seeded", pid + "*", "meta.json"))):
        earlier.append(json.load(open(m))["change"])
    lst = "\n".join(f"  {i+1}. {c}" for i, c in enumerate(earlier))
    prompt = f"""You are working in a scratch git worktree of the small Go bioinformatics library fluhus/biostuff at {wt} (Go module github.com/fluhus/biostuff, Go 1.23). Work ONLY inside {wt} and {out}. Do NOT touch /repo, and do NOT read, list or touch anything under /verif. There is no network: before every go command run
  export GOFLAGS=-mod=mod GOPROXY=off GOSUMDB=off GOTOOLCHAIN=local

Here is a semantic property the library is supposed to satisfy (also in {out}/PROPERTY.txt):

{text}

TASK. Make ONE realistic, small change to the library's source code (non-test .go files) in {wt} that BREAKS this property, such that
 (a) the library still compiles: `go build ./...`
 (b) the library's existing test suite still passes, unedited: `go test -vet=off -count=1 ./...`  (do not add or edit *_test.go files inside the worktree)
 (c) the change looks like something a maintainer could plausibly introduce (a refactor, an optimisation, a "simplification", an off-by-one, a reused buffer, a dropped check, a changed default, a well-meant robustness or standards-compliance feature), and
 (d) it needs something SPECIFIC to manifest: a particular multi-step sequence of operations, an unusual input shape/length/byte, a particular way the io.Reader splits the stream into reads, a fault at a particular point, a particular stop position of an iterator, or two cooperating sites that each look fine alone. It must NOT be something ordinary use exposes at once, and must not make "everything" fail. Prefer subtle over gross. Read the relevant source files first and pick a spot where the property genuinely depends on the code.

IMPORTANT: {len(earlier)} other engineers have already made the breaking changes listed below for this property. Do not repeat any of them or a close variant (same site and same trigger); find a genuinely DIFFERENT defect: another site, another clause of the statement, another kind of trigger. Read the statement word by word and think about the semantic corner cases of THIS property, about combinations of conditions, about values that are special to the algorithm rather than to the machine (ties, duplicates, symmetric inputs, zero-length pieces in the middle, inputs equal to each other, already-canonical forms, arguments that share memory), about documented behaviours of dependencies (bufio, strconv, fmt verbs, sort stability, map iteration, gzip, json, unicode/utf8, regexp), about state that survives between calls, and about the difference between the entry points the property names. The break must be a genuine violation of the property AS WRITTEN on inputs INSIDE its stated domain (quote the clause and show the input is in the domain in NOTES.md) and must stay subtle.
{lst}

DELIVERABLES, all under {out}/ :
 1. patch.diff  — output of `git -C {wt} diff` (library files only; must apply with `git apply` to a clean checkout of the same commit).
 2. demo_test.go — a self-contained Go test file whose first line is a comment `// DIR: <package directory relative to the repo root, e.g. formats/fasta>` naming the directory it must be copied into (use an external test package name like `fasta_test` unless you need internals). It must FAIL with your change applied and PASS on the unmodified tree. Verify both yourself: copy it into the worktree, run `go test -vet=off -count=1 -run <YourTest> ./<dir>/` with the change; then undo the change with `git -C {wt} apply -R {out}/patch.diff`, run again (must pass), then re-apply with `git -C {wt} apply {out}/patch.diff`; finally remove demo_test.go from the worktree again. NEVER use `git stash` (the stash is shared between worktrees).
 3. NOTES.md — which clause of the property is broken, exactly what is needed for the breakage to manifest (the input / operation sequence / read schedule / fault point), and the commands you ran with their outcomes (including the full existing test suite passing with the change).

Leave the worktree with only your library change applied (no test files added). End with a short summary (5 lines max) of the change and what it needs to manifest.
"""
    open(os.path.join(out, "PROMPT.txt"), "w").write(prompt)
print("prepared round", rnd)
