package props

import (
	"bytes"
	"fmt"

	"verif/mc/engine/core"
)

// Every ordered PAIR of byte values at every offset of a sequence long enough for a word-at-a-time
// fast path (8 or 16 bytes per step): a validity test done on whole machine words ("SWAR") has false
// accepts that depend on the NEIGHBOURING byte in the same word, and a tail loop never sees them.
// The clauses over single bytes and over 2-byte strings stay in the tail path of such code.

type pairLongCase struct {
	Fn     string `json:"fn"`
	X      int    `json:"x"`
	Y      int    `json:"y"`
	Offset int    `json:"offset"`
}

type pairLongFn struct {
	Name string
	// Call runs the library function on in; Ref gives the expected result, ok=false if in is invalid (must panic).
	Call func(in []byte) []byte
	Ref  func(in []byte) ([]byte, bool)
}

func pairsInLongSequences(r *core.Run, base string, fns []pairLongFn) {
	byName := map[string]pairLongFn{}
	for _, f := range fns {
		byName[f.Name] = f
	}
	offsets := []int{0, 1, 3, 6, 7, 8, 14, 15, 16, len(base) - 2}
	core.Clause(r, "byte-pairs-in-long-sequences", core.Opts{Rule: fmt.Sprintf("the valid %d-base sequence %q with bytes (x,y) written at offsets o, o+1 for EVERY ordered pair of byte values and o in %v (inside a machine word, across 8- and 16-byte word boundaries, at the end): the function panics iff the reference says the sequence is invalid, else returns the reference result; non-trivial = all", len(base), base, offsets),
		Bounds: fmt.Sprintf("65 536 pairs x %d offsets x %d functions", len(offsets), len(fns))},
		func(emit func(pairLongCase) bool) {
			for _, f := range fns {
				for _, o := range offsets {
					for x := 0; x < 256; x++ {
						for y := 0; y < 256; y++ {
							if !emit(pairLongCase{f.Name, x, y, o}) {
								return
							}
						}
					}
				}
			}
		},
		func(c pairLongCase) core.Outcome {
			f := byName[c.Fn]
			in := []byte(base)
			in[c.Offset], in[c.Offset+1] = byte(c.X), byte(c.Y)
			orig := bytes.Clone(in)
			want, ok := f.Ref(in)
			var got []byte
			p := catch(func() { got = f.Call(in) })
			if !bytes.Equal(in, orig) {
				return core.Failf("%s modified its input %q", c.Fn, orig)
			}
			if !ok {
				if p == "" {
					return core.Failf("%s(%q) did not panic although bytes %#02x %#02x at offset %d make the sequence invalid (returned %q)", c.Fn, orig, c.X, c.Y, c.Offset, trunc(string(got), 60))
				}
				return core.Outcome{Class: "panics", Nontrivial: true}
			}
			if p != "" {
				return core.Failf("%s(%q) panicked on a valid sequence: %s", c.Fn, orig, p)
			}
			if !bytes.Equal(got, want) {
				return core.Failf("%s(%q) = %q, want %q", c.Fn, orig, trunc(string(got), 60), trunc(string(want), 60))
			}
			return core.Outcome{Class: "valid", Nontrivial: true}
		})
}
