package props

import (
	"fmt"

	"verif/mc/engine/core"
)

// The caller's buffer is the caller's: between two calls it may hold different content at the same
// address and length (the package documentation itself edits a sequence in place). A function that
// remembers something about its argument by identity (address, length, a pointer kept from the last
// call) instead of by content shows here and in no run that allocates a fresh slice per call.

type reuseCase struct {
	Fn string `json:"fn"`
	X1 core.S `json:"first_content"`
	X2 core.S `json:"second_content"`
}

// bufferReuse: calls maps a function name to a renderer of everything observable about one call on in.
func bufferReuse(r *core.Run, inputs []string, fns []string, call func(fn string, in []byte) string) {
	core.Clause(r, "buffer-reuse-histories", core.Opts{Rule: fmt.Sprintf("for every function of %v and every ordered pair (x1, x2) of %d inputs: ONE buffer holds x1, is passed, is overwritten in place with x2 (same address; same or another length), is passed again, then holds x1 again: every call gives what a call on a freshly allocated copy gives; non-trivial = x1 != x2", fns, len(inputs)),
		Bounds: fmt.Sprintf("%d functions x %d^2 ordered input pairs, 3 calls each", len(fns), len(inputs))},
		func(emit func(reuseCase) bool) {
			for _, fn := range fns {
				for _, a := range inputs {
					for _, b := range inputs {
						if !emit(reuseCase{fn, core.S(a), core.S(b)}) {
							return
						}
					}
				}
			}
		},
		func(c reuseCase) core.Outcome {
			x1, x2 := c.X1.B(), c.X2.B()
			fresh := func(x []byte) string {
				var out string
				if p := catch(func() { out = call(c.Fn, append([]byte(nil), x...)) }); p != "" {
					return "panic: " + p
				}
				return out
			}
			want1, want2 := fresh(x1), fresh(x2)
			buf := make([]byte, max(len(x1), len(x2))+3)
			var got [3]string
			p := catch(func() {
				copy(buf, x1)
				got[0] = call(c.Fn, buf[:len(x1)])
				copy(buf, x2)
				got[1] = call(c.Fn, buf[:len(x2)])
				copy(buf, x1)
				got[2] = call(c.Fn, buf[:len(x1)])
			})
			if p != "" {
				// a panic is a legitimate answer for some inputs, but then the fresh call panics too
				if want1 == "panic: "+p || want2 == "panic: "+p {
					return core.Outcome{Class: "panics", Nontrivial: false}
				}
				return core.Failf("%s on a reused buffer (%q then %q then %q): panic: %s", c.Fn, x1, x2, x1, p)
			}
			for i, w := range []string{want1, want2, want1} {
				if got[i] != w {
					return core.Failf("%s on ONE buffer holding %q, then %q, then %q again: call %d gives %s, a call on a fresh copy gives %s", c.Fn, x1, x2, x1, i+1, trunc(got[i], 200), trunc(w, 200))
				}
			}
			return core.Outcome{Class: c.Fn, Nontrivial: string(x1) != string(x2), Evals: 5}
		})
}
