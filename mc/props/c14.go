package props

import (
	"bytes"
	"fmt"
	"strings"

	"github.com/fluhus/biostuff/sequtil"

	"verif/mc/engine/core"
	"verif/mc/engine/enum"
	"verif/mc/ref"
)

func init() { register("C14", "exploration", runC14) }

type c14Codon struct {
	Codon core.S `json:"codon"`
}

type c14Pair struct {
	A   core.S `json:"a"`
	B   core.S `json:"b"`
	Dst int    `json:"dst_variant"`
}

type c14Bad struct {
	Seq core.S `json:"seq"`
}

type c14Amino struct {
	Byte int `json:"byte"`
}

func runC14(r *core.Run) {
	defer pairsInLongSequences(r, "ATGAAATAGATGCCCGGGTTTAAAcccgggATGTAG", []pairLongFn{
		{"Translate(nil, seq)", func(in []byte) []byte { return sequtil.Translate(nil, in) }, func(in []byte) ([]byte, bool) { return ref.Translate(in) }},
	})
	defer srcWindows(r, "ACGTacgt", 6, []string{"ATGAAATAGATGCCCGGGTTTAAACCCGGGATGTAG", string(longSeq(300))}, []srcWindowFn{
		{"Translate(nil, seq)", func(in []byte) { sequtil.Translate(nil, in) }},
		{"Translate(dst with spare capacity, seq)", func(in []byte) { sequtil.Translate(make([]byte, 2, 64), in) }},
		{"TranslateReadingFrames(seq)", func(in []byte) { sequtil.TranslateReadingFrames(in) }},
	})
	firstCallClause(r, "sequtil.Translate", "sequtil.AminoName")
	askedAgain(r, []againFunc{
		{"AminoName", func(in []byte) string {
			if len(in) != 1 {
				panic("not one byte")
			}
			c, n := sequtil.AminoName(in[0])
			return c + "/" + n
		}},
		{"Translate", func(in []byte) string { return string(sequtil.Translate([]byte("x"), in)) }},
		{"TranslateReadingFrames", func(in []byte) string { return fmt.Sprintf("%q", sequtil.TranslateReadingFrames(in)) }},
	}, againInputs([]string{"AC", "ACGTG", "at"}, "", "ATG", "atgGCAtggAAA", "ATGNCA", "AT", "ATGG", "NNN"))
	racePass(r, "race-sequtil", "ReverseComplement(String), DNATo2Bit/From2Bit, Translate(ReadingFrames), CanonicalSubsequences, AminoName on one shared src")

	core.Clause(r, "codon-table", core.Opts{Rule: "all 64 codons x all 8 upper/lower case patterns against the NCBI table-1 string; non-trivial = all"},
		func(emit func(c14Codon) bool) {
			enum.StringsLen("TCAG", 3, func(s string) bool {
				for mask := 0; mask < 8; mask++ {
					b := []byte(s)
					for j := 0; j < 3; j++ {
						if mask>>j&1 == 1 {
							b[j] += 'a' - 'A'
						}
					}
					emit(c14Codon{core.S(b)})
				}
				return true
			})
		},
		func(c c14Codon) core.Outcome {
			src := c.Codon.B()
			want, _ := ref.TranslateCodon(src[0], src[1], src[2])
			var got []byte
			if p := catch(func() { got = sequtil.Translate(nil, src) }); p != "" {
				return core.Failf("Translate(%q) panicked: %s", src, p)
			}
			if len(got) != 1 || got[0] != want {
				return core.Failf("Translate(%q) = %q, want %q", src, got, string(want))
			}
			if string(src) != string(c.Codon) {
				return core.Failf("src modified")
			}
			return core.OK(string(want), true)
		})

	core.Clause(r, "concatenation", core.Opts{Rule: "all 4096 ordered codon pairs x 3 dst prefixes: Translate(dst, a+b) == dst + T(a) + T(b); plus every sequence of 0..3 codons over a 4-codon pool in mixed case; non-trivial = all"},
		func(emit func(c14Pair) bool) {
			enum.StringsLen("ACGT", 3, func(a string) bool {
				enum.StringsLen("ACGT", 3, func(b string) bool {
					for d := 0; d < 3; d++ {
						emit(c14Pair{core.S(a), core.S(b), d})
					}
					return true
				})
				return true
			})
			pool := []string{"", "atG", "TAA", "gGc", "tga", "ATGaaa"}
			for _, a := range pool {
				for _, b := range pool {
					for d := 0; d < 3; d++ {
						emit(c14Pair{core.S(a), core.S(b), d})
					}
				}
			}
		},
		func(c c14Pair) core.Outcome {
			src := append(c.A.B(), c.B.B()...)
			dst := dstVariants()[c.Dst]
			dstCopy := bytes.Clone(dst)
			ta, _ := ref.Translate(c.A.B())
			tb, _ := ref.Translate(c.B.B())
			want := append(append(bytes.Clone(dstCopy), ta...), tb...)
			var got, ga, gb []byte
			if p := catch(func() {
				got = sequtil.Translate(dst, src)
				ga = sequtil.Translate(nil, c.A.B())
				gb = sequtil.Translate(nil, c.B.B())
			}); p != "" {
				return core.Failf("Translate(%q) panicked: %s", src, p)
			}
			if !bytes.Equal(got, want) {
				return core.Failf("Translate(dst=%q, %q) = %q, want %q", dstCopy, src, got, want)
			}
			if !bytes.Equal(got, append(append(bytes.Clone(dstCopy), ga...), gb...)) {
				return core.Failf("Translate(%q) != Translate(%q)+Translate(%q)", src, c.A, c.B)
			}
			if !bytes.Equal(dst, dstCopy) {
				return core.Failf("existing dst content modified")
			}
			return core.Outcome{Class: "ok", Nontrivial: true, Evals: 3}
		})

	core.Clause(r, "translate-panics", core.Opts{Rule: "every byte 0..255 at each of the 3 positions of each codon of AAACGT (6 positions) panics iff not in aAcCgGtT; every length 1,2,4,5,7,8 panics; non-trivial = all"},
		func(emit func(c14Bad) bool) {
			base := "AAACGT"
			for pos := 0; pos < 6; pos++ {
				for b := 0; b < 256; b++ {
					s := []byte(base)
					s[pos] = byte(b)
					emit(c14Bad{core.S(s)})
				}
			}
			for _, l := range []int{1, 2, 4, 5, 7, 8} {
				emit(c14Bad{core.S(strings.Repeat("ACGTACGT", 2)[:l])})
			}
		},
		func(c c14Bad) core.Outcome {
			src := c.Seq.B()
			want, ok := ref.Translate(src)
			var got []byte
			p := catch(func() { got = sequtil.Translate(nil, src) })
			if ok {
				if p != "" {
					return core.Failf("Translate(%q) panicked: %s", src, p)
				}
				if !bytes.Equal(got, want) {
					return core.Failf("Translate(%q) = %q, want %q", src, got, want)
				}
				return core.OK("accepted", true)
			}
			if p == "" {
				return core.Failf("Translate(%q) did not panic (returned %q)", src, got)
			}
			return core.OK("panics", true)
		})

	bufferReuse(r, append(enum.AllStrings("ACGT", 3), "ATGGCATGG", "ATGGCTTGG", "atgGCAtggAAA", "TTTTTTTTTTTT", "ATGNCA"), []string{"Translate", "TranslateReadingFrames"},
		func(fn string, in []byte) string {
			if fn == "Translate" {
				return string(sequtil.Translate(nil, in))
			}
			f := sequtil.TranslateReadingFrames(in)
			return string(f[0]) + "|" + string(f[1]) + "|" + string(f[2])
		})

	core.Clause(r, "length-and-alphabet-together", core.Opts{Rule: "the two panic conditions at once: every string of length 0..6 over {A, c, G, LF, CR, blank, N, NUL}, and ACG / ACGTGA followed by every 1-byte and every 2-byte suffix: Translate (and TranslateReadingFrames where it must) panics iff the length is not a multiple of 3 or some byte is outside aAcCgGtT, and gives the reference translation otherwise; non-trivial = all"},
		func(emit func(c14Bad) bool) {
			if !enum.Strings("AcG\n\r N\x00", 6, func(s string) bool { return emit(c14Bad{core.S(s)}) }) {
				return
			}
			for _, pre := range []string{"ACG", "ACGTGA"} {
				for a := 0; a < 256; a++ {
					if !emit(c14Bad{core.S(pre + string([]byte{byte(a)}))}) {
						return
					}
					for b := 0; b < 256; b++ {
						if !emit(c14Bad{core.S(pre + string([]byte{byte(a), byte(b)}))}) {
							return
						}
					}
				}
			}
		},
		func(c c14Bad) core.Outcome {
			src := c.Seq.B()
			want, ok := ref.Translate(src)
			var got []byte
			p := catch(func() { got = sequtil.Translate(nil, src) })
			if ok {
				if p != "" || !bytes.Equal(got, want) {
					return core.Failf("Translate(%q) = %q (panic %q), want %q", src, got, p, want)
				}
				return core.OK("accepted", true)
			}
			if p == "" {
				return core.Failf("Translate(%q) did not panic (returned %q) although the length is %d and/or a byte is outside aAcCgGtT", src, got, len(src))
			}
			return core.OK("panics", true)
		})

	// TranslateReadingFrames is defined through Translate: frame i is Translate of seq[i:] cut to whole
	// codons. That holds for ANY bytes, including where Translate panics: bytes are bytes, whatever text
	// encoding they look like (a case mapping applied to the text changes its LENGTH for some code points).
	r.Bound("reading-frames-arbitrary-bytes", "every 2-byte string and the UTF-8 encoding of every code point U+0080..U+10FFFF, each alone and as A+x, x+G, AC+x, x+x, AC+x+GT"+core.Pick(r, "", "; every 3-byte string"))
	core.Clause(r, "reading-frames-arbitrary-bytes", core.Opts{Rule: "for any byte string: TranslateReadingFrames panics iff Translate panics on one of the three frames (seq[i:] cut to whole codons, i = 0, 1, 2), and otherwise returns exactly the three Translate results; non-trivial = all"},
		func(emit func(c14Bad) bool) {
			forms := func(x string) bool {
				for _, s := range []string{x, "A" + x, x + "G", "AC" + x, x + x, "AC" + x + "GT"} {
					if !emit(c14Bad{core.S(s)}) {
						return false
					}
				}
				return true
			}
			for a := 0; a < 256; a++ {
				for b := 0; b < 256; b++ {
					if !forms(string([]byte{byte(a), byte(b)})) {
						return
					}
				}
			}
			if !enum.Runes(0x80, 0x10FFFF, func(cp rune) bool { return forms(string(cp)) }) {
				return
			}
			if r.Thorough() {
				for a := 0; a < 256; a++ {
					for b := 0; b < 256; b++ {
						for c := 0; c < 256; c++ {
							if !emit(c14Bad{core.S([]byte{byte(a), byte(b), byte(c)})}) {
								return
							}
						}
					}
				}
			}
		},
		func(c c14Bad) core.Outcome {
			seq := c.Seq.B()
			var want [3][]byte
			mustPanic := false
			for i := 0; i < 3; i++ {
				sub := seq[min(i, len(seq)):]
				sub = sub[:len(sub)/3*3]
				w, ok := ref.Translate(sub)
				if !ok {
					mustPanic = true
				}
				want[i] = w
			}
			var got [3][]byte
			p := catch(func() { got = sequtil.TranslateReadingFrames(bytes.Clone(seq)) })
			if mustPanic {
				if p == "" {
					return core.Failf("TranslateReadingFrames(%q) returned %q although Translate panics on one of its frames", seq, got)
				}
				return core.OK("panics", true)
			}
			if p != "" {
				return core.Failf("TranslateReadingFrames(%q) panicked (%s) although Translate accepts all three frames", seq, p)
			}
			for i := range got {
				if !bytes.Equal(got[i], want[i]) {
					return core.Failf("TranslateReadingFrames(%q)[%d] = %q, Translate of that frame gives %q", seq, i, got[i], want[i])
				}
			}
			return core.OK("accepted", true)
		})

	core.Clause(r, "dst-shares-memory-with-src", core.Opts{Rule: dstAliasRule},
		genDstAlias([]string{"", "ATG", "atgGCAtggAAA", "ATGGCATGGAAATAGCCCGGGTTTACGTGA", "ATGNCA", "NNN", "AT", "ATGG"}),
		checkDstAlias("Translate", sequtil.Translate, ref.Translate))

	core.Clause(r, "dst-contents", core.Opts{Rule: dstRule},
		genDstCases([]string{"", "ATG", "atgGCAtggAAA", "ATGGCATGGAAATAGCCCGGGTTTACGTGA", "ATGNCA", "NNN", "ATGGCATGGAAN", "AT\x00", "ATGGCATGGAAATAGCCCGGGTTTACGTG-", "AT", "ATGG"}),
		checkDstContract("Translate", sequtil.Translate, ref.Translate))

	// every byte that a case fold, a bit mask or an offset could turn into a base: all bytes sharing the
	// low 5 bits with A, C, G or T (0x01/0x21/0x41/0x61/0x81/0xA1/0xC1/0xE1 for A, ...), plus assorted others
	var special []byte
	for b := 0; b < 256; b++ {
		switch b & 0x1F {
		case 'A' & 0x1F, 'C' & 0x1F, 'G' & 0x1F, 'T' & 0x1F:
			special = append(special, byte(b))
		}
	}
	special = append(special, 0x00, ' ', '-', 'N', 'n', 'U', 'u', '@', '[', '`', '{', 0x7f, 0x80, 0xff, '*', 'R', 'X', '0', '\n', '.', '?')
	r.Bound("codon-space", fmt.Sprintf("every codon over %d selected bytes (all 32 bytes that share their low 5 bits with a base, i.e. everything a case fold or mask could turn into a base, and 21 others incl. 0x00, N, U, 0x80, 0xff) = %d codons, as the only codon, as the first of two and as the second of two%s", len(special), len(special)*len(special)*len(special), core.Pick(r, "", "; thorough: ALL 256^3 codons as the only codon")))
	core.Clause(r, "codon-space", core.Opts{Rule: "whole codons, not single positions: Translate panics iff some byte of the codon is outside aAcCgGtT, else gives the reference amino acid; also with a valid codon before or after it; non-trivial = all"},
		func(emit func(c14Bad) bool) {
			for _, a := range special {
				for _, b := range special {
					for _, c := range special {
						cod := string([]byte{a, b, c})
						if !emit(c14Bad{core.S(cod)}) || !emit(c14Bad{core.S(cod + "ATG")}) || !emit(c14Bad{core.S("ATG" + cod)}) {
							return
						}
					}
				}
			}
			if r.Thorough() {
				for a := 0; a < 256; a++ {
					for b := 0; b < 256; b++ {
						for c := 0; c < 256; c++ {
							if !emit(c14Bad{core.S([]byte{byte(a), byte(b), byte(c)})}) {
								return
							}
						}
					}
				}
			}
		},
		func(c c14Bad) core.Outcome {
			src := c.Seq.B()
			want, ok := ref.Translate(src)
			var got []byte
			p := catch(func() { got = sequtil.Translate(nil, src) })
			if ok {
				if p != "" || !bytes.Equal(got, want) {
					return core.Failf("Translate(%q) = %q (panic %q), want %q", src, got, p, want)
				}
				return core.OK("accepted", true)
			}
			if p == "" {
				return core.Failf("Translate(%q) did not panic (returned %q)", src, got)
			}
			return core.OK("panics", true)
		})

	L := core.Pick(r, 7, 11)
	r.Bound("frames", fmt.Sprintf("all sequences over ACGT of length 0..%d, plus every case pattern of every sequence of length <= 4", L))
	core.Clause(r, "reading-frames", core.Opts{Rule: "every sequence over ACGT up to the bound (incl. lengths 0,1,2) and all mixed-case variants up to length 4: frame i == Translate(seq[min(i,len):] cut to a multiple of 3); non-trivial = all (lengths 0..2 are the boundary cases)"},
		func(emit func(c14Bad) bool) {
			enum.Strings("ACGT", L, func(s string) bool { return emit(c14Bad{core.S(s)}) })
			enum.Strings("acgt", 4, func(s string) bool {
				for mask := 1; mask < 1<<len(s); mask++ { // mask 0 = all lower case is included via mask loop below
					b := []byte(s)
					for j := range b {
						if mask>>j&1 == 1 {
							b[j] -= 'a' - 'A'
						}
					}
					if string(b) == strings.ToUpper(s) {
						continue // already enumerated above
					}
					emit(c14Bad{core.S(b)})
				}
				if len(s) > 0 {
					emit(c14Bad{core.S(s)})
				}
				return true
			})
		},
		func(c c14Bad) core.Outcome {
			seq := c.Seq.B()
			orig := bytes.Clone(seq)
			var got [3][]byte
			if p := catch(func() { got = sequtil.TranslateReadingFrames(seq) }); p != "" {
				return core.Failf("TranslateReadingFrames(%q) (length %d) panicked: %s", seq, len(seq), p)
			}
			for i := 0; i < 3; i++ {
				sub := orig[min(i, len(orig)):]
				sub = sub[:len(sub)/3*3]
				want, _ := ref.Translate(sub)
				if !bytes.Equal(got[i], want) {
					return core.Failf("TranslateReadingFrames(%q)[%d] = %q, want %q", orig, i, got[i], want)
				}
			}
			if !bytes.Equal(seq, orig) {
				return core.Failf("seq modified")
			}
			return core.OK(fmt.Sprint("len", min(len(seq), 3)), true)
		})

	core.Clause(r, "reading-frames-long", core.Opts{Rule: "position-dependent mixed-case sequences of EVERY length 8..1100 (thorough 8..9000) and 3000..3005, 65535..65540: the frame law, Translate(dst, seq) == dst + reference translation, and appending to any one of the three results (within its capacity) leaves the other two unchanged; non-trivial = all"},
		func(emit func(c14Bad) bool) {
			var lens []int
			for l := 8; l <= core.Pick(r, 1100, 9000); l++ {
				lens = append(lens, l)
			}
			lens = append(lens, 3000, 3001, 3002, 3003, 3004, 3005, 65535, 65536, 65537, 65538, 65539, 65540)
			for _, l := range lens {
				b := make([]byte, l)
				for i := range b {
					b[i] = "ACGTtgcaGATCagct"[(i*7+i/16+i*i/5+l)%16]
				}
				if !emit(c14Bad{core.S(b)}) {
					return
				}
			}
		},
		func(c c14Bad) core.Outcome {
			seq := c.Seq.B()
			var got [3][]byte
			if p := catch(func() { got = sequtil.TranslateReadingFrames(seq) }); p != "" {
				return core.Failf("TranslateReadingFrames on a sequence of length %d panicked: %s", len(seq), p)
			}
			for i := 0; i < 3; i++ {
				sub := c.Seq.B()[min(i, len(seq)):]
				sub = sub[:len(sub)/3*3]
				want, _ := ref.Translate(sub)
				if !bytes.Equal(got[i], want) {
					return core.Failf("TranslateReadingFrames(length %d)[%d] differs from the reference (got %d letters %q, want %d letters %q)", len(seq), i, len(got[i]), trunc(string(got[i]), 50), len(want), trunc(string(want), 50))
				}
				dst := dstVariants()[i]
				dc := bytes.Clone(dst)
				t := sequtil.Translate(dst, sub)
				if !bytes.Equal(t, append(dc, want...)) {
					return core.Failf("Translate(dst, sequence of length %d) != dst + translation", len(sub))
				}
			}
			// The three results belong to the caller, each with all of its capacity: filling one up to its
			// capacity and appending to it (what using it as dst of a later Translate does) must leave the
			// other two as they were. Frames cut from one buffer without a capacity limit fail here.
			for i := 0; i < 3; i++ {
				var snap [3]string
				for j := range got {
					snap[j] = string(got[j])
				}
				full := got[i][:cap(got[i])]
				for k := len(got[i]); k < len(full); k++ {
					full[k] = '#'
				}
				_ = append(got[i], "MKV"...)
				for j := range got {
					if j != i && string(got[j]) != snap[j] {
						return core.Failf("TranslateReadingFrames(length %d): appending to result %d (within its capacity %d) changed result %d from %q to %q", len(seq), i, cap(got[i]), j, trunc(snap[j], 40), trunc(string(got[j]), 40))
					}
				}
			}
			return core.Outcome{Class: fmt.Sprint("len%3=", len(seq)%3), Nontrivial: true, Evals: 4}
		})

	core.Clause(r, "frames-result-retention", core.Opts{Rule: "call histories: TranslateReadingFrames(x) then TranslateReadingFrames(y) (and Translate(nil, z)) for all ordered pairs over a pool of 9 sequences; the three slices of the first result must be unchanged afterwards and must not alias each other; non-trivial = all"},
		func(emit func(c14Pair) bool) {
			pool := []string{"", "A", "ATG", "ATGAAATAG", "atgccc", "TTTTTTTTTTTT", "ACGTACGTACGTACGTACGTA", "GGGCCCAAATTTGGGCCCAAATTT", "CATCATCATCAT"}
			for _, a := range pool {
				for _, b := range pool {
					emit(c14Pair{core.S(a), core.S(b), 0})
				}
			}
		},
		func(c c14Pair) core.Outcome {
			var first, second [3][]byte
			if p := catch(func() { first = sequtil.TranslateReadingFrames(c.A.B()) }); p != "" {
				return core.Failf("panic: %s", p)
			}
			var snap [3]string
			for i := range first {
				snap[i] = string(first[i])
			}
			if p := catch(func() {
				second = sequtil.TranslateReadingFrames(c.B.B())
				sequtil.Translate(nil, []byte("ATGAAATAGATG"))
			}); p != "" {
				return core.Failf("panic: %s", p)
			}
			for i := range first {
				if string(first[i]) != snap[i] {
					return core.Failf("frame %d of TranslateReadingFrames(%q) was %q and became %q after a later call on %q", i, c.A, snap[i], first[i], c.B)
				}
			}
			for i := range first {
				for j := range first {
					if i != j && len(first[i]) > 0 && len(first[j]) > 0 && &first[i][0] == &first[j][0] {
						return core.Failf("frames %d and %d of one result share memory", i, j)
					}
				}
				for k := range first[i] {
					first[i][k] = '#'
				}
			}
			for i := range second {
				sub := c.B.B()[min(i, len(c.B)):]
				sub = sub[:len(sub)/3*3]
				want, _ := ref.Translate(sub)
				if !bytes.Equal(second[i], want) {
					return core.Failf("writing into the result of an earlier call changed the result of TranslateReadingFrames(%q)", c.B)
				}
			}
			return core.Outcome{Class: "ok", Nontrivial: true, Evals: 3}
		})

	core.Clause(r, "amino-name", core.Opts{Rule: "all 256 byte values: accepted iff the upper-cased byte is listed in AminoAcids, code and name non-empty, case-insensitive; else panic"},
		func(emit func(c14Amino) bool) {
			for b := 0; b < 256; b++ {
				emit(c14Amino{b})
			}
		},
		func(c c14Amino) core.Outcome {
			b := byte(c.Byte)
			up := b
			if b >= 'a' && b <= 'z' {
				up = b - 32
			}
			valid := strings.IndexByte(sequtil.AminoAcids, up) >= 0
			if sequtil.AminoAcids != "ABCDEFGHIKLMNPQRSTVWXYZ*" {
				return core.Failf("AminoAcids changed: %q", sequtil.AminoAcids)
			}
			var code, name string
			p := catch(func() { code, name = sequtil.AminoName(b) })
			if valid {
				if p != "" {
					return core.Failf("AminoName(%q) panicked: %s", b, p)
				}
				if code == "" || name == "" {
					return core.Failf("AminoName(%q) = (%q,%q)", b, code, name)
				}
				c2, n2 := sequtil.AminoName(up)
				if c2 != code || n2 != name {
					return core.Failf("AminoName(%q) = (%q,%q) but upper case gives (%q,%q)", b, code, name, c2, n2)
				}
				return core.OK("accepted", true)
			}
			if p == "" {
				return core.Failf("AminoName(%#x) did not panic (returned %q,%q)", b, code, name)
			}
			return core.OK("panics", true)
		})
}
