package props

import (
	"bytes"
	"fmt"
	"io"
	"os"
	"path/filepath"
	"strings"
	"sync/atomic"

	"github.com/fluhus/biostuff/formats/bed"
	"github.com/fluhus/biostuff/formats/fasta"
	"github.com/fluhus/biostuff/formats/fastq"
	"github.com/fluhus/biostuff/formats/newick"
	"github.com/fluhus/biostuff/formats/sam"
	"github.com/fluhus/biostuff/formats/smtext"

	"verif/mc/engine/core"
	"verif/mc/engine/enum"
)

func init() { register("C11", "exploration", runC11) }

// byteReader hands out one byte per Read and remembers whether EOF was ever returned.
type byteReader struct {
	data     []byte
	off      int
	eofGiven bool
	reads    int
}

func (r *byteReader) Read(p []byte) (int, error) {
	if len(p) == 0 {
		return 0, nil
	}
	r.reads++
	if r.reads > 1<<20 {
		panic("parser polls the reader forever")
	}
	if r.off == len(r.data) {
		r.eofGiven = true
		return 0, io.EOF
	}
	p[0] = r.data[r.off]
	r.off++
	return 1, nil
}

const hasDelims = "\t\r\n"

// parseRun is the result of one decoder run on one input.
type parseRun struct {
	fail      string // property violated (panic, hang, bogus item, fixed point broken)
	items     int
	accepted  int
	errors    int
	endedEOF  bool // the decoder was given EOF (it saw the whole input)
	lastIsErr bool
}

// Each decoder runner decodes data through a byteReader and checks the fixed-point clause on
// every accepted record inside the statement's domain.
type decoderRun func(data []byte) parseRun

func runFasta(data []byte) (pr parseRun) {
	rd := &byteReader{data: data}
	p := catch(func() {
		for f, err := range fasta.Reader(rd) {
			pr.items++
			pr.lastIsErr = err != nil
			if pr.items > len(data)+8 {
				pr.fail = "iteration does not end"
				return
			}
			if err != nil {
				pr.errors++
				continue
			}
			if f == nil {
				pr.fail = "item is neither a record nor an error"
				return
			}
			pr.accepted++
			if bytes.ContainsAny(f.Name, hasDelims) || bytes.ContainsAny(f.Sequence, hasDelims+">") {
				continue
			}
			want := renderFasta(f)
			txt, _ := f.MarshalText()
			back, pp := readFastaAll(txt)
			if pp != "" || len(back) != 1 || back[0].Rec != want {
				pr.fail = fmt.Sprintf("accepted record %s is not a fixed point: written as %q, read back as %s %s", want, txt, renderObs(back), pp)
				return
			}
		}
	})
	if p != "" && pr.fail == "" {
		pr.fail = "panic: " + p
	}
	pr.endedEOF = rd.eofGiven
	return
}

func runFastq(data []byte) (pr parseRun) {
	rd := &byteReader{data: data}
	p := catch(func() {
		for f, err := range fastq.Reader(rd) {
			pr.items++
			pr.lastIsErr = err != nil
			if pr.items > len(data)+8 {
				pr.fail = "iteration does not end"
				return
			}
			if err != nil {
				pr.errors++
				continue
			}
			if f == nil {
				pr.fail = "item is neither a record nor an error"
				return
			}
			pr.accepted++
			if bytes.ContainsAny(f.Name, hasDelims) || bytes.ContainsAny(f.Sequence, hasDelims) || bytes.ContainsAny(f.Quals, hasDelims) {
				continue
			}
			want := renderFastq(f)
			txt, _ := f.MarshalText()
			back, pp := readFastqAll(txt)
			if pp != "" || len(back) != 1 || back[0].Rec != want {
				pr.fail = fmt.Sprintf("accepted record %s is not a fixed point: written as %q, read back as %s %s", want, txt, renderObs(back), pp)
				return
			}
		}
	})
	if p != "" && pr.fail == "" {
		pr.fail = "panic: " + p
	}
	pr.endedEOF = rd.eofGiven
	return
}

func samInDomain(s *sam.SAM) bool {
	for _, f := range []string{s.Qname, s.Rname, s.Cigar, s.Rnext, s.Seq, s.Qual} {
		if strings.ContainsAny(f, hasDelims) {
			return false
		}
	}
	if strings.HasPrefix(s.Qname, "@") {
		return false
	}
	for k, v := range s.Tags {
		if strings.ContainsAny(k, hasDelims) {
			return false
		}
		if z, ok := v.(string); ok && strings.ContainsAny(z, hasDelims) {
			return false
		}
		if a, ok := v.(byte); ok && strings.IndexByte(hasDelims, a) >= 0 { // an A tag is a one-byte text field
			return false
		}
	}
	return true
}

func samFixedPoint(s *sam.SAM) string {
	want := renderSAM(s)
	var txt []byte
	if p := catch(func() { txt, _ = s.MarshalText() }); p != "" {
		return fmt.Sprintf("accepted record %s cannot be written: panic: %s", want, p)
	}
	back, pp := readSAMAll(txt)
	if pp != "" || len(back) != 1 || back[0].Rec != want {
		return fmt.Sprintf("accepted record %s is not a fixed point: written as %q, read back as %s %s", want, txt, renderObs(back), pp)
	}
	return ""
}

func runSAM(data []byte) (pr parseRun) {
	rd := &byteReader{data: data}
	p := catch(func() {
		for sh, err := range sam.ReaderHeader(rd) {
			pr.items++
			pr.lastIsErr = err != nil
			if pr.items > len(data)+8 {
				pr.fail = "iteration does not end"
				return
			}
			if err != nil {
				pr.errors++
				continue
			}
			if (sh.H == nil) == (sh.S == nil) {
				pr.fail = "item without error is not exactly one of header / record"
				return
			}
			pr.accepted++
			if sh.S == nil || !samInDomain(sh.S) {
				continue
			}
			if f := samFixedPoint(sh.S); f != "" {
				pr.fail = f
				return
			}
		}
	})
	if p != "" && pr.fail == "" {
		pr.fail = "panic: " + p
	}
	pr.endedEOF = rd.eofGiven
	if pr.fail == "" {
		pr.fail = samReaderAgrees(data, pr)
	}
	return
}

// samReaderAgrees drives sam.Reader (records only) on the same input: no panic, termination,
// as many records and errors as ReaderHeader reported; and, when there is an error item, once
// more with a consumer that stops at the first error item (a decoder must not panic then either).
func samReaderAgrees(data []byte, hdr parseRun) string {
	recs, errs := 0, 0
	if p := catch(func() {
		for s, err := range sam.Reader(&byteReader{data: data}) {
			if err != nil {
				errs++
			} else if s == nil {
				panic("Reader yielded neither a record nor an error")
			} else {
				recs++
			}
			if recs+errs > len(data)+8 {
				panic("Reader iteration does not end")
			}
		}
	}); p != "" {
		return "sam.Reader: panic: " + p
	}
	if errs != hdr.errors {
		return fmt.Sprintf("sam.Reader yields %d error items, ReaderHeader %d", errs, hdr.errors)
	}
	if errs == 0 {
		return ""
	}
	for _, form := range []int{0, 1} {
		if p := catch(func() {
			if form == 0 {
				for _, err := range sam.Reader(&byteReader{data: data}) {
					if err != nil {
						break
					}
				}
			} else {
				for _, err := range sam.ReaderHeader(&byteReader{data: data}) {
					if err != nil {
						break
					}
				}
			}
		}); p != "" {
			return fmt.Sprintf("a consumer that stops at the first error item makes the decoder panic (%s): %s", []string{"Reader", "ReaderHeader"}[form], p)
		}
	}
	return ""
}

func runBED(data []byte) (pr parseRun) {
	rd := &byteReader{data: data}
	p := catch(func() {
		for b, err := range bed.Reader(rd) {
			pr.items++
			pr.lastIsErr = err != nil
			if pr.items > len(data)+8 {
				pr.fail = "iteration does not end"
				return
			}
			if err != nil {
				pr.errors++
				continue
			}
			if b == nil {
				pr.fail = "item is neither a record nor an error"
				return
			}
			pr.accepted++
			if strings.ContainsAny(b.Chrom, hasDelims) || strings.ContainsAny(b.Name, hasDelims) || strings.HasPrefix(b.Chrom, "#") {
				continue
			}
			want := renderBED(b)
			txt, werr := b.MarshalText()
			if werr != nil {
				pr.fail = fmt.Sprintf("accepted record %s cannot be written: %v", want, werr)
				return
			}
			back, pp := readBedAll(txt)
			if pp != "" || len(back) != 1 || back[0].Rec != want {
				pr.fail = fmt.Sprintf("accepted record %s is not a fixed point: written as %q, read back as %s %s", want, txt, renderObs(back), pp)
				return
			}
		}
	})
	if p != "" && pr.fail == "" {
		pr.fail = "panic: " + p
	}
	pr.endedEOF = rd.eofGiven
	return
}

func treeInDomain(n *newick.Node) bool {
	for x := range n.PreOrder() {
		if strings.ContainsAny(x.Name, hasDelims) {
			return false
		}
	}
	return true
}

func runNewick(data []byte) (pr parseRun) {
	rd := &byteReader{data: data}
	p := catch(func() {
		for n, err := range newick.Reader(rd) {
			pr.items++
			pr.lastIsErr = err != nil
			if pr.items > len(data)+8 {
				pr.fail = "iteration does not end"
				return
			}
			if err != nil {
				pr.errors++
				continue
			}
			if n == nil {
				pr.fail = "item is neither a tree nor an error"
				return
			}
			pr.accepted++
			if !treeInDomain(n) {
				continue
			}
			want := renderNewick(n)
			txt, _ := n.MarshalText()
			back, pp := readNewickAll(txt)
			if pp != "" || len(back) != 1 || back[0].Rec != want {
				pr.fail = fmt.Sprintf("accepted tree %s is not a fixed point: written as %q, read back as %s %s", want, txt, renderObs(back), pp)
				return
			}
		}
	})
	if p != "" && pr.fail == "" {
		pr.fail = "panic: " + p
	}
	pr.endedEOF = rd.eofGiven
	return
}

func runNCBI(data []byte) (pr parseRun) {
	rd := &byteReader{data: data}
	p := catch(func() {
		m, err := smtext.ReadNCBI(rd)
		pr.items = 1
		if err != nil {
			pr.errors, pr.lastIsErr = 1, true
			if m != nil {
				pr.fail = "ReadNCBI returned a matrix together with an error"
			}
			return
		}
		if m == nil {
			pr.fail = "ReadNCBI returned neither a matrix nor an error"
			return
		}
		pr.accepted = 1
	})
	if p != "" && pr.fail == "" {
		pr.fail = "panic: " + p
	}
	pr.endedEOF = rd.eofGiven
	return
}

type c11Format struct {
	name, alphabet string
	run            decoderRun
	lq, lt         int
}

var c11Formats = []c11Format{
	{"fasta", ">A\n\r ", runFasta, 8, 9},
	{"fastq", "@+A\n\r", runFastq, 9, 10},
	{"bed", "a0\t\n,#\"-", runBED, 6, 7},
	{"newick", "(),:;'a1_ \n", runNewick, 6, 7},
	{"ncbi", "A*1-. \n#x", runNCBI, 6, 7},
	{"sam", "\t0a@\"\n", runSAM, 7, 8},
}

func c11Format_(name string) c11Format {
	for _, f := range c11Formats {
		if f.name == name {
			return f
		}
	}
	panic("format " + name)
}

// c11Tree: explore the whole subtree of inputs below Prefix (up to MaxLen) as a prefix tree.
// Single=true: only the input Prefix itself (replay of one failing input).
type c11Tree struct {
	Format string `json:"format"`
	Prefix core.S `json:"prefix"`
	MaxLen int    `json:"max_len"`
	Single bool   `json:"single_input,omitempty"`
}

type treeStats struct {
	runs, pruned, accepted, errors int64
}

func exploreSubtree(f c11Format, prefix []byte, maxLen int, st *treeStats) (fail string, at []byte) {
	pr := f.run(prefix)
	st.runs++
	st.accepted += int64(pr.accepted)
	st.errors += int64(pr.errors)
	if pr.fail != "" {
		return pr.fail, append([]byte(nil), prefix...)
	}
	if !pr.endedEOF {
		// The decoder ended without ever being told that the input is over: it has only seen a
		// prefix of this input, so every extension behaves identically. Count and skip.
		rem := maxLen - len(prefix)
		st.pruned += enum.Count(len(f.alphabet), rem) - 1
		return "", nil
	}
	if len(prefix) == maxLen {
		return "", nil
	}
	for i := 0; i < len(f.alphabet); i++ {
		if fail, at := exploreSubtree(f, append(prefix, f.alphabet[i]), maxLen, st); fail != "" {
			return fail, at
		}
	}
	return "", nil
}

type c11Line struct {
	Fields []core.S `json:"fields"`
}

type c11Corrupt struct {
	Lines []int  `json:"line_indices"` // into the pool of valid lines
	At    int    `json:"corrupted_line"`
	Kind  string `json:"corruption"`
}

func samValidPool() []string {
	return []string{
		"q0\t0\tchr1\t1\t60\t4M\t=\t5\t0\tACGT\tIIII",
		"@HD\tVN:1.6",
		"q1\t99\tchr\"2\t7\t0\t*\t*\t0\t-3\t*\t\"*\tNM:i:2\tXA:Z:a:b",
		"q2\t4\t*\t0\t0\t*\t*\t0\t0\tA\tI\tZF:f:1.5\tXH:H:00ff\tXC:A:q",
		"@CO\tcomment \"quoted\"",
	}
}

// corruptLine applies one corruption from the menu to a valid alignment line; ok=false if the
// corruption does not apply to this line.
func corruptLine(line, kind string) (string, bool) {
	if strings.HasPrefix(line, "@") {
		return "", false
	}
	f := strings.Split(line, "\t")
	var k int
	var v string
	switch {
	case strings.HasPrefix(kind, "keep-fields-"):
		fmt.Sscanf(kind, "keep-fields-%d", &k)
		return strings.Join(f[:k], "\t"), true
	case strings.HasPrefix(kind, "int-"):
		p := strings.SplitN(kind, "-", 3)
		fmt.Sscan(p[1], &k)
		v = intSpellings[p[2]]
		f[k] = v
		return strings.Join(f, "\t"), true
	case strings.HasPrefix(kind, "tag-"):
		v = map[string]string{"nocolon": "XX", "onecolon": "XX:i", "unknowntype": "XX:Q:1", "A-empty": "XX:A:", "A-two": "XX:A:ab", "i-nonint": "XX:i:x", "i-float": "XX:i:1.5",
			"f-nonnum": "XX:f:x", "H-odd": "XX:H:abc", "H-nonhex": "XX:H:zz", "emptytag": "",
			"i-sign": "XX:i:-", "i-plus": "XX:i:+", "i-empty": "XX:i:", "i-over": "XX:i:9223372036854775808", "i-underscore": "XX:i:1_0", "i-hex": "XX:i:0x10",
			"f-sign": "XX:f:-", "f-dot": "XX:f:.", "f-empty": "XX:f:", "f-comma": "XX:f:1,5", "f-two": "XX:f:1.5.2", "H-0x": "XX:H:0xff", "H-space": "XX:H:0 ", "type-lower": "XX:z:a", "type-empty": "XX::a", "type-two": "XX:ii:1",
			// a tag cut after its type, for EVERY type (a type whose value may be empty must still have its second colon), and after its name
			"onecolon-A": "XX:A", "onecolon-f": "XX:f", "onecolon-Z": "XX:Z", "onecolon-H": "XX:H", "onecolon-B": "XX:B", "name-colon": "XX:"}[strings.TrimPrefix(kind, "tag-")]
		// once appended after the existing tags, once in front of them
		return strings.Join(append(f, v), "\t"), true
	case strings.HasPrefix(kind, "tagfirst-"):
		v = map[string]string{"nocolon": "XX", "i-nonint": "XX:i:x", "H-odd": "XX:H:abc", "onecolon-Z": "XX:Z", "onecolon-H": "XX:H"}[strings.TrimPrefix(kind, "tagfirst-")]
		g := append(append(append([]string{}, f[:11]...), v), f[11:]...)
		return strings.Join(g, "\t"), true
	}
	panic("unknown corruption " + kind)
}

// intSpellings: texts that are NOT a decimal integer in the int range, whatever a lenient or hand-rolled
// parser might make of them.
var intSpellings = map[string]string{"empty": "", "x": "x", "1x": "1x", "float": "1.5", "huge": "99999999999999999999", "space": " 1", "hex": "0x10",
	"minus": "-", "plus": "+", "doubleminus": "--1", "plusminus": "+-1", "trailminus": "1-", "exp": "1e3", "bin": "0b1", "oct": "0o7", "underscore": "1_0",
	"arabic": "\u0661", "fullwidth": "\uff11", "over": "9223372036854775808", "under": "-9223372036854775809", "nan": "NaN", "inf": "Inf", "nul": "1\x00", "trailspace": "1 ", "dot": ".", "comma": "1,0"}

var intSpellingNames = []string{"empty", "x", "1x", "float", "huge", "space", "hex", "minus", "plus", "doubleminus", "plusminus", "trailminus", "exp", "bin", "oct", "underscore", "arabic", "fullwidth", "over", "under", "nan", "inf", "nul", "trailspace", "dot", "comma"}

func corruptionMenu() []string {
	var m []string
	for k := 1; k <= 10; k++ {
		m = append(m, fmt.Sprint("keep-fields-", k))
	}
	for _, fi := range []int{1, 3, 4, 7, 8} {
		for _, v := range intSpellingNames {
			m = append(m, fmt.Sprintf("int-%d-%s", fi, v))
		}
	}
	for _, t := range []string{"nocolon", "onecolon", "unknowntype", "A-empty", "A-two", "i-nonint", "i-float", "f-nonnum", "H-odd", "H-nonhex", "emptytag",
		"i-sign", "i-plus", "i-empty", "i-over", "i-underscore", "i-hex", "f-sign", "f-dot", "f-empty", "f-comma", "f-two", "H-0x", "H-space", "type-lower", "type-empty", "type-two",
		"onecolon-A", "onecolon-f", "onecolon-Z", "onecolon-H", "onecolon-B", "name-colon"} {
		m = append(m, "tag-"+t)
	}
	for _, t := range []string{"nocolon", "i-nonint", "H-odd", "onecolon-Z", "onecolon-H"} {
		m = append(m, "tagfirst-"+t)
	}
	return m
}

func runC11(r *core.Run) {
	racePass(r, "race-formats", "all five codecs: readers each on their own stream (whole and in 7-byte reads, every corpus file), Write on shared records into separate destinations, File on one shared path; every result is compared with what the same call returned when it ran alone")
	var bounds []string
	for _, f := range c11Formats {
		bounds = append(bounds, fmt.Sprintf("%s: alphabet %q, all strings of length 0..%d", f.name, f.alphabet, core.Pick(r, f.lq, f.lt)))
	}
	r.Bound("prefix-trees", strings.Join(bounds, "; "))
	r.Assume("pruning: when a decoder ends with an error without ever having been handed EOF by the byte-at-a-time reader it has only seen a prefix of the input, so all extensions behave identically and are counted as covered")
	var totalRuns, totalPruned, totalAccepted int64
	check := func(c c11Tree) core.Outcome {
		f := c11Format_(c.Format)
		if c.Single {
			pr := f.run(c.Prefix.B())
			if pr.fail != "" {
				return core.Failf("%s decoder on %q: %s", c.Format, c.Prefix, pr.fail)
			}
			return core.OK("single", true)
		}
		var st treeStats
		fail, at := exploreSubtree(f, c.Prefix.B(), c.MaxLen, &st)
		if fail != "" {
			out := core.Failf("%s decoder on %q: %s", c.Format, at, fail)
			out.ReplayCase = c11Tree{Format: c.Format, Prefix: core.S(at), MaxLen: len(at), Single: true}
			return out
		}
		atomic.AddInt64(&totalRuns, st.runs)
		atomic.AddInt64(&totalPruned, st.pruned)
		atomic.AddInt64(&totalAccepted, st.accepted)
		return core.Outcome{Class: fmt.Sprintf("%s accepted>0=%v errors>0=%v pruned>0=%v", c.Format, st.accepted > 0, st.errors > 0, st.pruned > 0), Nontrivial: true, Evals: int(st.runs)}
	}
	core.Clause(r, "prefix-trees", core.Opts{Rule: "engine E3 prefix-tree DFS: the decoder is a transition system driven byte by byte; every string over the token alphabet up to the bound is either executed (evaluations counts decoder runs) or lies in a soundly pruned subtree; oracle: no panic, termination, only records/errors, every accepted in-domain record is a fixed point of write->read; a case = one subtree below a 2-symbol prefix (plus the 0- and 1-symbol inputs); non-trivial = all"},
		func(emit func(c11Tree) bool) {
			for _, f := range c11Formats {
				L := core.Pick(r, f.lq, f.lt)
				emit(c11Tree{f.name, "", 0, true})
				for i := 0; i < len(f.alphabet); i++ {
					emit(c11Tree{f.name, core.S(f.alphabet[i : i+1]), 1, true})
				}
				for i := 0; i < len(f.alphabet); i++ {
					for j := 0; j < len(f.alphabet); j++ {
						if !emit(c11Tree{Format: f.name, Prefix: core.S([]byte{f.alphabet[i], f.alphabet[j]}), MaxLen: L}) {
							return
						}
					}
				}
			}
		}, check)
	r.Extra("prefix_tree", map[string]int64{"decoder_runs": totalRuns, "inputs_covered_by_sound_pruning": totalPruned, "records_accepted_and_checked_for_fixed_point": totalAccepted})

	type junkCase struct {
		Format string `json:"format"`
		Kind   string `json:"kind"`
		Len    int    `json:"len"`
	}
	r.Bound("long-junk", "every decoder on inputs made of one repeated token-alphabet byte, of an alternating pattern over the whole alphabet and of a valid record followed by junk, for lengths 4095..4097, 65535..65537 and 200000")
	core.Clause(r, "long-junk", core.Opts{Rule: "totality on long inputs: long lines/tokens of junk (longer than every internal buffer) must give records or errors, never a panic or a hang; accepted in-domain records must be fixed points; non-trivial = all"},
		func(emit func(junkCase) bool) {
			for _, f := range c11Formats {
				for _, l := range []int{4095, 4096, 4097, 65535, 65536, 65537, 200000} {
					for i := 0; i < len(f.alphabet); i++ {
						emit(junkCase{f.name, fmt.Sprint("repeat-", i), l})
					}
					emit(junkCase{f.name, "cycle", l})
					emit(junkCase{f.name, "valid-then-junk", l})
				}
			}
		},
		func(c junkCase) core.Outcome {
			f := c11Format_(c.Format)
			data := make([]byte, 0, c.Len+64)
			switch {
			case strings.HasPrefix(c.Kind, "repeat-"):
				var i int
				fmt.Sscanf(c.Kind, "repeat-%d", &i)
				data = bytes.Repeat([]byte{f.alphabet[i]}, c.Len)
			case c.Kind == "cycle":
				for len(data) < c.Len {
					data = append(data, f.alphabet[(len(data)*7+len(data)/13)%len(f.alphabet)])
				}
			default:
				valid := map[string]string{"fasta": ">a\nAC\n", "fastq": "@a\nA\n+\nI\n", "bed": "a\t0\t1\n", "newick": "(a,b);", "ncbi": "  A\nA 1\n", "sam": "q\t0\tr\t1\t9\t1M\t*\t0\t0\tA\tI\n"}[c.Format]
				data = append(data, valid...)
				for len(data) < c.Len {
					data = append(data, "xyzzy"[len(data)%5])
				}
			}
			pr := f.run(data)
			if pr.fail != "" {
				return core.Failf("%s decoder on %d bytes of %s: %s", c.Format, len(data), c.Kind, trunc(pr.fail, 300))
			}
			return core.Outcome{Class: fmt.Sprintf("%s accepted>0=%v", c.Format, pr.accepted > 0), Nontrivial: true}
		})

	type slotCase struct {
		Format   string `json:"format"`
		Template int    `json:"template"`
		Byte     int    `json:"byte"`  // -1: Fill is used
		Shape    int    `json:"shape"` // 0: v   1: v v   2: a v b
		Fill     core.S `json:"fill,omitempty"`
		After    bool   `json:"after_a_plain_record"` // the template is not the first thing in the stream
	}
	slotTemplates := map[string][]string{
		"fasta":  {">a\x00\nAC\n", ">a\nA\x00C\n>b\nG\n", "\x00\n>b\nG\n", ">\x00a\nAC\n"},
		"fastq":  {"@a\x00\nAC\n+\nII\n", "@a\nA\x00\n+\nI\x00\n@b\nC\n+\nI\n", "@a\nAC\n+\x00\nII\n", "@\x00a\nAC\n+\nII\n"},
		"bed":    {"c\x00\t0\t1\tn\x00\n", "c\t0\t1\tn\t0\t\x00\n", "c\t0\t1\tn\t0\t+\t0\t0\t1,2,\x00\n", "c\t\x00\t1\n", "\x00c\t0\t1\t\x00n\n"},
		"newick": {"(a\x00,b);", "('a\x00',b);", "('\x00',b)'x\x00y';", "(a:1\x00,b);", "(a,b)\x00;(c);", "(a,b);\x00(c);", "(\x00a,b);"},
		"ncbi":   {" A \x00\nA 1 2\n\x00 3 4\n", " A\nA 1\x00\n", "#\x00\n A\nA 1\n"},
		"sam":    {"q\x00\t0\tr\x00\t1\t9\t1M\t*\t0\t0\tA\tI\tXZ:Z:\x00\n", "q\t0\tr\t1\t9\t\x00\t\x00\t0\t0\t\x00\t\x00\n", "q\t0\tr\t1\t9\t1M\t*\t0\t0\tA\tI\tXA:A:\x00\n", "@CO\t\x00\nq\t0\tr\t1\t9\t1M\t*\t0\t0\tA\tI\n", "q\t0\tr\t1\t9\t1M\t*\t0\t0\tA\tI\tX\x00:Z:v\n", "\x00q\t0\t\x00r\t1\t9\t1M\t*\t0\t0\tA\tI\n"},
	}
	plainFirst := map[string]string{"fasta": ">first\nAC\n", "fastq": "@first\nA\n+\nI\n", "bed": "first\t0\t1\tn\t0\t+\t0\t0\t1,2,3\n", "newick": "(x,y)first;\n", "ncbi": "# first\n", "sam": "first\t0\tr\t1\t9\t1M\t*\t0\t0\tA\tI\n"}
	extraFills := []string{"\xef\xbb\xbf", "\xef\xbb\xbfx", "\xff\xfe", "\xfe\xff", "\xe2\x80\xa8", "\xc2\x85", "\xc2\xa0", "\x1f\x8b", "%s", "%d%%", "\\N", "NA", "[c]", "[", "]", "''", "\"\"", "a''b", "=", "*", ".", "..", "0x10", "1_0", "+1", "1e3", "00", "-0", "NaN", "Inf"}
	r.Bound("all-bytes-in-templates", fmt.Sprintf("per format 3..7 well-formed templates with a slot in every kind of text position (name incl. its first byte, sequence, qualities, plus line, Chrom/Name/strand/RGB, unquoted and quoted Newick labels, lengths, between trees, NCBI labels/scores/comments, SAM text fields, Z/A tag values, tag names, header text): the slot filled with v, v v and a v b for ALL 256 byte values v and with %d multi-byte tokens (byte order marks, U+2028, NEL, NBSP, gzip magic, percent verbs, placeholders, brackets, doubled quotes, number spellings); each as the first thing in the stream and after a plain record", len(extraFills)))
	core.Clause(r, "all-bytes-in-templates", core.Opts{Rule: "every byte value (and every listed token) in every kind of text position of every format, at the start of the stream and after another record: the decoder ends without panic, and every accepted in-domain record is a fixed point of write -> read (a byte the reader gives a meaning to must be one the writer protects; what the reader strips at the start of a stream it must also strip, or the writer protect, elsewhere); non-trivial = all"},
		func(emit func(slotCase) bool) {
			for _, f := range c11Formats {
				for ti := range slotTemplates[f.name] {
					for _, after := range []bool{false, true} {
						for shape := 0; shape < 3; shape++ {
							for v := 0; v < 256; v++ {
								if !emit(slotCase{f.name, ti, v, shape, "", after}) {
									return
								}
							}
						}
						for _, x := range extraFills {
							if !emit(slotCase{f.name, ti, -1, 0, core.S(x), after}) {
								return
							}
						}
					}
				}
			}
		},
		func(c slotCase) core.Outcome {
			f := c11Format_(c.Format)
			fill := c.Fill.B()
			if c.Byte >= 0 {
				fill = [][]byte{{byte(c.Byte)}, {byte(c.Byte), byte(c.Byte)}, {'a', byte(c.Byte), 'b'}}[c.Shape]
			}
			data := bytes.ReplaceAll([]byte(slotTemplates[c.Format][c.Template]), []byte{0}, fill)
			if c.After {
				first := plainFirst[c.Format]
				if c.Format == "bed" { // all lines of a BED stream share one field count: the same template, filled plainly
					first = strings.ReplaceAll(slotTemplates[c.Format][c.Template], "\x00", "z")
				}
				data = append([]byte(first), data...)
			}
			pr := f.run(data)
			if pr.fail != "" {
				return core.Failf("%s decoder on %q: %s", c.Format, data, trunc(pr.fail, 400))
			}
			return core.Outcome{Class: fmt.Sprintf("%s accepted>0=%v errors>0=%v", c.Format, pr.accepted > 0, pr.errors > 0), Nontrivial: true}
		})

	type faLong struct {
		Len   int `json:"len"`
		Pos   int `json:"special_pos"`
		Byte  int `json:"special_byte"`
		Width int `json:"input_wrap_width"` // 0 = one line
	}
	r.Bound("fasta-wrap-fixed-point", "sequences of length 75..165 containing one special byte (blank, ';', '-', '*', '.', 'x', 0x80) at EVERY position, given to the reader unwrapped and wrapped at 60, 79, 80, 81: the accepted record is written (80-column wrapping puts the byte at every position of an output line, incl. first and last) and must read back identically")
	core.Clause(r, "fasta-wrap-fixed-point", core.Opts{Rule: "accepted FASTA records long enough to be wrapped by the writer are fixed points whatever byte ends or begins an output line; non-trivial = all"},
		func(emit func(faLong) bool) {
			for _, l := range []int{75, 79, 80, 81, 82, 159, 160, 161, 165} {
				for pos := 0; pos < l; pos++ {
					for _, b := range []int{' ', ';', '-', '*', '.', 'x', 0x80} {
						for _, w := range []int{0, 60, 79, 80, 81} {
							if !emit(faLong{l, pos, b, w}) {
								return
							}
						}
					}
				}
			}
		},
		func(c faLong) core.Outcome {
			seq := longSeq(c.Len)
			seq[c.Pos] = byte(c.Byte)
			var in bytes.Buffer
			in.WriteString(">r\n")
			w := c.Width
			if w == 0 {
				w = c.Len
			}
			for i := 0; i < len(seq); i += w {
				in.Write(seq[i:min(i+w, len(seq))])
				in.WriteString("\n")
			}
			pr := runFasta(in.Bytes())
			if pr.fail != "" {
				return core.Failf("fasta decoder on a %d-base record with byte %q at position %d (input wrapped at %d): %s", c.Len, byte(c.Byte), c.Pos, c.Width, trunc(pr.fail, 400))
			}
			return core.Outcome{Class: fmt.Sprint("accepted=", pr.accepted), Nontrivial: true}
		})

	// SAM template lines: 11 fields over {"", 0, a} followed by 0..2 tags
	tagPool := []string{"", "NM:i:0", "XA:Z:", "XB:A:\x80", "XC:A:a", "XF:f:nan", "XH:H:", "XH:H:AB", "XB:B:c,1", "X:i:+1", ":Z:", "XZ:Z:\"", "NM:i:1\tNM:i:2"}
	r.Bound("sam-templates", fmt.Sprintf("every line of 11 fields each in {'',0,a} (3^11) with no tag, and every such line whose integer fields are all 0 with every 1- and 2-tag suffix from %q", tagPool))
	core.Clause(r, "sam-template-lines", core.Opts{Rule: "all 3^11 template lines (most are rejected: totality) and tagged variants of the accepted ones: no panic, accepted records are fixed points; non-trivial = all"},
		func(emit func(c11Line) bool) {
			sizes := make([]int, 11)
			for i := range sizes {
				sizes[i] = 3
			}
			vals := []string{"", "0", "a"}
			enum.Tuples(sizes, func(t []int) bool {
				f := make([]core.S, 11)
				okInts := true
				for i, x := range t {
					f[i] = core.S(vals[x])
					if (i == 1 || i == 3 || i == 4 || i == 7 || i == 8) && x != 1 {
						okInts = false
					}
				}
				if !emit(c11Line{f}) {
					return false
				}
				if okInts {
					for _, t1 := range tagPool[1:] {
						if !emit(c11Line{append(append([]core.S{}, f...), core.S(t1))}) {
							return false
						}
						for _, t2 := range tagPool[1:] {
							if !emit(c11Line{append(append([]core.S{}, f...), core.S(t1), core.S(t2))}) {
								return false
							}
						}
					}
				}
				return true
			})
		},
		func(c c11Line) core.Outcome {
			parts := make([]string, len(c.Fields))
			for i, f := range c.Fields {
				parts[i] = string(f)
			}
			line := strings.Join(parts, "\t") + "\n"
			pr := runSAM([]byte(line))
			if pr.fail != "" {
				return core.Failf("sam decoder on %q: %s", line, pr.fail)
			}
			return core.Outcome{Class: fmt.Sprintf("accepted=%d errors=%d", pr.accepted, pr.errors), Nontrivial: true}
		})

	// BED template lines: the raw alphabet cannot reach the later fields within its length bound
	bedMenus := [][]string{
		{"a", "", "#a", "\""},                  // chrom
		{"0", "", "x", "-1", "1.5"},            // start
		{"0", "", "x", "99999999999999999999"}, // end
		{"n", "", "\"q\""},                     // name
		{"0", "", "x", "-5"},                   // score
		{"+", "", "x", "-", ".", "+-"},         // strand
		{"0", "", "x"},                         // thickStart
		{"0", "", "x"},                         // thickEnd
		{"0,0,0", "", "1,2", "1,2,3,4", "256,0,0", "a,b,c", "0x1,0,0", ",", ",,", "-1,0,0", "1,2,3,"}, // rgb
		{"0", "", "1", "2", "x", "-1"},              // blockCount
		{"", "1", "1,2", "1,,2", "x", "1,2,3", ","}, // blockSizes
		{"", "1", "1,2", "1,,2", "x", "0,5,9", ","}, // blockStarts
	}
	bdev := core.Pick(r, 3, 4)
	r.Bound("bed-templates", fmt.Sprintf("every line of N = 1..13 fields whose fields are taken from per-field menus of valid, empty and malformed values (%d..%d values per field) with <= %d fields deviating from the first (valid) value", 3, 11, bdev))
	core.Clause(r, "bed-template-lines", core.Opts{Rule: "deviation-bounded BED lines over per-field menus, every N: no panic; accepted records are fixed points of write->read; non-trivial = all"},
		func(emit func(c11Line) bool) {
			for n := 1; n <= 13; n++ {
				menus := make([]int, min(n, 12))
				for i := range menus {
					menus[i] = len(bedMenus[i]) - 1
				}
				ok := enum.Deviations(menus, bdev, func(t []int) bool {
					f := make([]core.S, 0, n)
					for i, a := range t {
						f = append(f, core.S(bedMenus[i][a+1]))
					}
					for len(f) < n {
						f = append(f, "extra")
					}
					return emit(c11Line{f})
				})
				if !ok {
					return
				}
			}
		},
		func(c c11Line) core.Outcome {
			parts := make([]string, len(c.Fields))
			for i, f := range c.Fields {
				parts[i] = string(f)
			}
			line := strings.Join(parts, "\t") + "\n"
			pr := runBED([]byte(line))
			if pr.fail != "" {
				return core.Failf("bed decoder on %q: %s", line, pr.fail)
			}
			return core.Outcome{Class: fmt.Sprintf("N=%d accepted=%d", len(c.Fields), pr.accepted), Nontrivial: true}
		})

	tl := core.Pick(r, 5, 6)
	r.Bound("sam-tags", fmt.Sprintf("every string over {X,:,A,i,f,Z,H,B,1,g,0x80} of length 0..%d as the 12th field of a valid line", tl))
	core.Clause(r, "sam-tag-strings", core.Opts{Rule: "every tag string over the alphabet up to the bound appended to a valid alignment line: no panic; accepted records are fixed points; non-trivial = all"},
		func(emit func(c11Line) bool) {
			base := core.SS("q", "0", "r", "1", "9", "1M", "*", "0", "0", "A", "I")
			enum.Strings("X:AifZHB1g\x80", tl, func(s string) bool {
				return emit(c11Line{append(append([]core.S{}, base...), core.S(s))})
			})
		},
		func(c c11Line) core.Outcome {
			parts := make([]string, len(c.Fields))
			for i, f := range c.Fields {
				parts[i] = string(f)
			}
			line := strings.Join(parts, "\t") + "\n"
			pr := runSAM([]byte(line))
			if pr.fail != "" {
				return core.Failf("sam decoder on %q: %s", line, pr.fail)
			}
			return core.Outcome{Class: fmt.Sprintf("accepted=%d errors=%d", pr.accepted, pr.errors), Nontrivial: true}
		})

	tagTexts := []string{}
	for _, v := range []string{"0", "-0", "1", ".5", "5.", "+5", "1E5", "1e-5", "0.1", "0.1234567890123456789", "0.123456789", "16777217", "3.4028236e38", "1e40", "-2.5e-50", "5e-324", "2.2250738585072014e-308",
		"1.7976931348623157e308", "1e400", "NaN", "nan", "Inf", "+Inf", "-inf", "infinity", "0x1p-2", "0x1.8p1", "1_0", "1e", "e1", "", " 1", "1 ", "123456789.125", "9007199254740993"} {
		tagTexts = append(tagTexts, "ZF:f:"+v)
	}
	for _, v := range []string{"0", "-0", "+7", "007", "9223372036854775807", "-9223372036854775808", "9223372036854775808", "1e3", "0x10", "1_000", " 1", ""} {
		tagTexts = append(tagTexts, "ZI:i:"+v)
	}
	for _, v := range []string{"", "00", "ff", "FF", "aB", "0", "0g", "00ff7f80", " 00"} {
		tagTexts = append(tagTexts, "ZH:H:"+v)
	}
	for b := 0; b < 256; b++ {
		if b != '\t' && b != '\n' && b != '\r' {
			tagTexts = append(tagTexts, "ZA:A:"+string([]byte{byte(b)}), "ZZ:Z:a"+string([]byte{byte(b)})+"c", "ZB:B:"+string([]byte{byte(b)}))
		}
	}
	r.Bound("sam-tag-values", fmt.Sprintf("%d tag texts on a valid line, alone and in every ordered pair with 12 others: f values with up to 19 digits, above 2^24, outside float32 range, subnormal, hex floats, Inf/NaN spellings, malformed; i extremes and malformed; H upper/lower/odd; every byte as A value, inside a Z value and as B value", len(tagTexts)))
	core.Clause(r, "sam-tag-values", core.Opts{Rule: "typed tag values as text (what only a parser sees): no panic; every accepted record is a fixed point of write->read (so values must survive with full precision); non-trivial = all"},
		func(emit func(c11Line) bool) {
			base := core.SS("q", "0", "r", "1", "9", "1M", "*", "0", "0", "A", "I")
			for _, t := range tagTexts {
				if !emit(c11Line{append(append([]core.S{}, base...), core.S(t))}) {
					return
				}
			}
			for i := 0; i < len(tagTexts); i++ {
				for j := 0; j < 12; j++ {
					o := tagTexts[(i*7+j*13)%len(tagTexts)]
					if !emit(c11Line{append(append([]core.S{}, base...), core.S(tagTexts[i]), core.S(o))}) {
						return
					}
				}
			}
		},
		func(c c11Line) core.Outcome {
			parts := make([]string, len(c.Fields))
			for i, f := range c.Fields {
				parts[i] = string(f)
			}
			line := strings.Join(parts, "\t") + "\n"
			pr := runSAM([]byte(line))
			if pr.fail != "" {
				return core.Failf("sam decoder on %q: %s", line, pr.fail)
			}
			return core.Outcome{Class: fmt.Sprintf("accepted=%d errors=%d", pr.accepted, pr.errors), Nontrivial: true}
		})

	// Newick branch lengths as TEXT: what strconv.ParseFloat accepts is more than decimal numbers (Inf, NaN
	// and infinity in any letter case and with signs, hexadecimal floats, underscores are rejected, values
	// out of range are errors). Whatever the reader accepts, the writer must write back so that it reads
	// the same (NaN equal to NaN).
	type c11Dist struct {
		Template string `json:"template"`
		Text     string `json:"distance_text"`
	}
	distTexts := numberTexts()
	distTemplates := []string{"a:%s;", "(a:%s,b:1)c;", "((a,b)x:%s,d)r;", "(a,b)r:%s;", "(a:%s,b:%s)c:%s;", "(:%s,:%s);", "('q q':%s)'r';(z:%s);"}
	r.Bound("newick-distance-texts", fmt.Sprintf("%d texts in the place of a branch length (decimal, exponent, out of range, subnormal, Inf / NaN / infinity spellings in every case and sign, hexadecimal floats, malformed) x %d templates (leaf, inner node, root, all three at once, unnamed leaves, two trees)", len(distTexts), len(distTemplates)))
	core.Clause(r, "newick-distance-texts", core.Opts{Rule: "branch lengths as text (what only a parser sees): no panic; every accepted tree is a fixed point of write->read with its distances compared as numbers (NaN equal to NaN), so a value the reader accepts must be written in a form that reads back as the same value; non-trivial = all"},
		func(emit func(c11Dist) bool) {
			for _, tp := range distTemplates {
				for _, t := range distTexts {
					if !emit(c11Dist{tp, t}) {
						return
					}
				}
			}
		},
		func(c c11Dist) core.Outcome {
			text := strings.ReplaceAll(c.Template, "%s", c.Text)
			pr := runNewick([]byte(text))
			if pr.fail != "" {
				return core.Failf("newick decoder on %q: %s", text, pr.fail)
			}
			return core.Outcome{Class: fmt.Sprintf("accepted=%d errors=%d", min(pr.accepted, 2), min(pr.errors, 2)), Nontrivial: true}
		})

	pool := samValidPool()
	menu := corruptionMenu()
	corruptScratch = filepath.Join(r.Root, ".scratch", fmt.Sprintf("c11-%d", os.Getpid()))
	os.MkdirAll(corruptScratch, 0o755)
	defer os.RemoveAll(corruptScratch)
	maxLines := core.Pick(r, 3, 4)
	r.Bound("sam-line-corruptions", fmt.Sprintf("every file of 1..%d lines from a pool of %d valid lines (3 alignments, 2 headers) x every alignment-line position x %d corruptions (keep only the first k fields k=1..10; each of the 5 integer fields <- 26 texts that are not a decimal integer in range ('', x, 1x, 1.5, 20 digits, ' 1', 0x10, a bare '-' or '+', --1, +-1, 1-, 1e3, 0b1, 0o7, 1_0, an Arabic-Indic and a full-width digit, MaxInt64+1, MinInt64-1, NaN, Inf, 1 NUL, '1 ', '.', '1,0'); a tag with no colon / one colon / unknown type / A with 0 or 2 bytes / i non-integer / f non-number / H odd or non-hex / empty tag field, appended or placed before the existing tags)", maxLines, len(pool), len(menu)))
	core.Clause(r, "sam-line-corruptions", core.Opts{Rule: "every single-line corruption of every small valid file: ReaderHeader yields exactly one error in that line's position and the uncorrupted decode at every other position; Reader yields the records before, one error, the records after; FileHeader and File on a file holding the same bytes yield the same; non-trivial = all"},
		func(emit func(c11Corrupt) bool) {
			enum.Sequences(len(pool), maxLines, func(sq []int) bool {
				if len(sq) == 0 {
					return true
				}
				for at, li := range sq {
					if strings.HasPrefix(pool[li], "@") {
						continue
					}
					for _, k := range menu {
						if !emit(c11Corrupt{append([]int(nil), sq...), at, k}) {
							return false
						}
					}
				}
				return true
			})
		},
		func(c c11Corrupt) core.Outcome {
			var good, bad []string
			for i, li := range c.Lines {
				good = append(good, pool[li])
				if i == c.At {
					cl, ok := corruptLine(pool[li], c.Kind)
					if !ok {
						return core.Outcome{Skip: true}
					}
					bad = append(bad, cl)
				} else {
					bad = append(bad, pool[li])
				}
			}
			goodText := strings.Join(good, "\n") + "\n"
			badText := strings.Join(bad, "\n") + "\n"
			ref, p1 := readSAMHeaderAll([]byte(goodText))
			got, p2 := readSAMHeaderAll([]byte(badText))
			if p1 != "" || p2 != "" {
				return core.Failf("panic: %s %s on %q", p1, p2, badText)
			}
			if len(ref) != len(c.Lines) {
				return core.Failf("the uncorrupted file %q does not decode line for line: %s", goodText, renderObs(ref))
			}
			if len(got) != len(ref) {
				return core.Failf("corruption %s of line %d: %q decodes to %d items %s, want %d (one per line)", c.Kind, c.At, badText, len(got), trunc(renderObs(got), 400), len(ref))
			}
			for i := range got {
				if i == c.At {
					if !got[i].IsErr() {
						return core.Failf("corruption %s of line %d: %q: the malformed line is accepted as %s", c.Kind, c.At, badText, got[i].Rec)
					}
					continue
				}
				if got[i].IsErr() || got[i].Rec != ref[i].Rec {
					return core.Failf("corruption %s of line %d: %q: line %d decodes to %s, uncorrupted %s", c.Kind, c.At, badText, i, renderObs(got[i:i+1]), ref[i].Rec)
				}
			}
			// Reader: records only
			gr, p3 := readSAMAll([]byte(badText))
			if p3 != "" {
				return core.Failf("Reader panicked on %q: %s", badText, p3)
			}
			var want []obsItem
			for i, it := range ref {
				if i == c.At {
					want = append(want, obsItem{Err: "error"})
				} else if strings.HasPrefix(it.Rec, "sam{") {
					want = append(want, it)
				}
			}
			if !sameShape(gr, want) {
				return core.Failf("corruption %s of line %d: Reader on %q yields %s, want %s", c.Kind, c.At, badText, trunc(renderObs(gr), 300), trunc(renderObs(want), 300))
			}
			// the same bytes through the other two entry points: File and FileHeader
			path := filepath.Join(corruptScratch, fmt.Sprintf("c-%d.sam", corruptSeq.Add(1)))
			if err := os.WriteFile(path, []byte(badText), 0o644); err == nil {
				defer os.Remove(path)
				fh, p4, _ := fileWalker("samh", path)(len(c.Lines) + 8)
				fr, p5, _ := fileWalker("sam", path)(len(c.Lines) + 8)
				if p4 != "" || p5 != "" {
					return core.Failf("corruption %s of line %d: FileHeader / File panicked on %q: %s %s", c.Kind, c.At, badText, p4, p5)
				}
				if !sameShape(fh, got) {
					return core.Failf("corruption %s of line %d: FileHeader on a file holding %q yields %s, ReaderHeader on those bytes %s", c.Kind, c.At, badText, trunc(renderObs(fh), 300), trunc(renderObs(got), 300))
				}
				if !sameShape(fr, want) {
					return core.Failf("corruption %s of line %d: File on a file holding %q yields %s, want %s", c.Kind, c.At, badText, trunc(renderObs(fr), 300), trunc(renderObs(want), 300))
				}
			}
			return core.Outcome{Class: strings.SplitN(c.Kind, "-", 2)[0], Nontrivial: true, Evals: 5}
		})
}

// numberTexts: texts in the place of a number: decimal, exponent, out of range, subnormal, Inf / NaN /
// infinity spellings in every case and sign, hexadecimal floats, malformed, non-ASCII digits.
func numberTexts() []string {
	return append([]string{"0", "-0", "1", ".5", "5.", "+5", "1E5", "1e-5", "1E+2", "0e0", "0.1", "0.1234567890123456789", "16777217", "3.4028236e38", "1e40", "-2.5e-50", "5e-324", "2.2250738585072014e-308", "1.7976931348623157e308",
		"1e400", "1e999", "-1e999", "1e-999", "NaN", "nan", "NAN", "+nan", "-nan", "Inf", "inf", "INF", "+Inf", "-inf", "infinity", "Infinity", "-Infinity", "+INFINITY", "infinit", "in", "0x1p-2", "0x1.8p1", "0x10", "1_0", "1e", "e1", "", "1f", "1d", "1,5", "١", "９", "9007199254740993"}, sharpFloats()...)
}

var (
	corruptScratch string
	corruptSeq     atomic.Int64
)
