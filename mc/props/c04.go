package props

import (
	"bytes"
	"fmt"
	"io"
	"math"
	"strings"

	"github.com/fluhus/biostuff/formats/bed"

	"verif/mc/engine/core"
	"verif/mc/engine/enum"
)

func init() { register("C04", "exploration", runC04) }

type bedRec struct {
	N           int    `json:"n"`
	Chrom       core.S `json:"chrom"`
	ChromStart  int    `json:"chrom_start"`
	ChromEnd    int    `json:"chrom_end"`
	Name        core.S `json:"name"`
	Score       int    `json:"score"`
	Strand      string `json:"strand"`
	ThickStart  int    `json:"thick_start"`
	ThickEnd    int    `json:"thick_end"`
	RGB         [3]int `json:"rgb"`
	BlockCount  int    `json:"block_count"`
	BlockSizes  []int  `json:"block_sizes"`
	BlockStarts []int  `json:"block_starts"`
}

func (r bedRec) build() *bed.BED {
	return &bed.BED{N: r.N, Chrom: string(r.Chrom), ChromStart: r.ChromStart, ChromEnd: r.ChromEnd, Name: string(r.Name), Score: r.Score,
		Strand: r.Strand, ThickStart: r.ThickStart, ThickEnd: r.ThickEnd, ItemRGB: [3]byte{byte(r.RGB[0]), byte(r.RGB[1]), byte(r.RGB[2])},
		BlockCount: r.BlockCount, BlockSizes: append([]int(nil), r.BlockSizes...), BlockStarts: append([]int(nil), r.BlockStarts...)}
}

// expectBack is the record the reader must return: first N fields, the rest zero.
func (r bedRec) expectBack() *bed.BED {
	b := r.build()
	z := &bed.BED{N: r.N, Chrom: b.Chrom, ChromStart: b.ChromStart, ChromEnd: b.ChromEnd}
	if r.N > 3 {
		z.Name = b.Name
	}
	if r.N > 4 {
		z.Score = b.Score
	}
	if r.N > 5 {
		z.Strand = b.Strand
	}
	if r.N > 6 {
		z.ThickStart = b.ThickStart
	}
	if r.N > 7 {
		z.ThickEnd = b.ThickEnd
	}
	if r.N > 8 {
		z.ItemRGB = b.ItemRGB
	}
	if r.N > 9 {
		z.BlockCount = b.BlockCount
	}
	if r.N > 10 {
		z.BlockSizes = b.BlockSizes
	}
	if r.N > 11 {
		z.BlockStarts = b.BlockStarts
	}
	return z
}

// bedText is the literal text model of the writer.
func bedText(r bedRec) string {
	f := []string{string(r.Chrom), fmt.Sprint(r.ChromStart), fmt.Sprint(r.ChromEnd), string(r.Name), fmt.Sprint(r.Score), r.Strand,
		fmt.Sprint(r.ThickStart), fmt.Sprint(r.ThickEnd), fmt.Sprintf("%d,%d,%d", r.RGB[0], r.RGB[1], r.RGB[2]), fmt.Sprint(r.BlockCount),
		joinInts(r.BlockSizes), joinInts(r.BlockStarts)}
	return strings.Join(f[:r.N], "\t") + "\n"
}

func joinInts(a []int) string {
	s := make([]string, len(a))
	for i, x := range a {
		s[i] = fmt.Sprint(x)
	}
	return strings.Join(s, ",")
}

// defaultBed returns the default record for N with garbage in every field beyond N.
func defaultBed(n int) bedRec {
	r := bedRec{N: n, Chrom: "x", Name: "x"}
	if n <= 3 {
		r.Name = "garbage"
	}
	if n <= 4 {
		r.Score = 77
	}
	if n <= 5 {
		r.Strand = "?"
	}
	if n <= 6 {
		r.ThickStart = 78
	}
	if n <= 7 {
		r.ThickEnd = 79
	}
	if n <= 8 {
		r.RGB = [3]int{9, 8, 7}
	}
	if n <= 9 {
		r.BlockCount = 7
	}
	if n <= 10 {
		r.BlockSizes = []int{4, 4}
	}
	if n <= 11 {
		r.BlockStarts = []int{6}
	}
	return r
}

type bedBlocks struct {
	count  int
	sizes  []int
	starts []int
}

func bedBlockMenu() []bedBlocks {
	var out []bedBlocks
	vals := []int{0, 5, -1}
	for _, a := range vals {
		for _, b := range vals {
			out = append(out, bedBlocks{1, []int{a}, []int{b}})
		}
	}
	for _, a := range vals {
		for _, b := range vals {
			for _, c := range vals {
				for _, d := range vals {
					out = append(out, bedBlocks{2, []int{a, b}, []int{c, d}})
				}
			}
		}
	}
	trip := [][]int{{0, 5, -1}, {5, 5, 5}, {-1, 0, math.MaxInt64}}
	for _, a := range trip {
		for _, b := range trip {
			out = append(out, bedBlocks{3, a, b})
		}
	}
	return out
}

func writeBedChecked(r bedRec) ([]byte, string) {
	b := r.build()
	var w bytes.Buffer
	var werr, merr error
	var mt []byte
	if p := catch(func() { werr = b.Write(&w); mt, merr = b.MarshalText() }); p != "" {
		return nil, "Write/MarshalText panicked: " + p
	}
	if werr != nil || merr != nil {
		return nil, fmt.Sprintf("Write/MarshalText returned an error for N=%d: %v %v", r.N, werr, merr)
	}
	if !bytes.Equal(w.Bytes(), mt) {
		return nil, fmt.Sprintf("MarshalText %q differs from Write %q", mt, w.Bytes())
	}
	out := w.String()
	if !strings.HasSuffix(out, "\n") || strings.ContainsAny(out[:len(out)-1], "\r\n") || strings.Count(out, "\t") != r.N-1 {
		return nil, fmt.Sprintf("N=%d: written line %q does not consist of exactly N tab-separated fields and a line break (the literal model gives %q)", r.N, out, bedText(r))
	}
	if renderBED(b) != renderBED(r.build()) {
		return nil, "Write modified the record"
	}
	return w.Bytes(), ""
}

func readBedAll(data []byte) ([]obsItem, string) {
	items, p, over := collect2(bed.Reader(bytes.NewReader(data)), renderBED, 1<<16)
	if over {
		p = "iterator did not end"
	}
	return items, p
}

type c04File struct {
	N    int   `json:"n"`
	Recs []int `json:"record_indices"`
}

type c04BadN struct {
	N int `json:"n"`
}

func bedFilePool(n int) []bedRec {
	d := defaultBed(n)
	p := []bedRec{d, d, d, d}
	p[0].Chrom = "chr1"
	p[1].Chrom, p[1].ChromStart = `c"2`, 5
	p[2].Chrom, p[2].ChromEnd = `"c3"`, -1
	p[3].Chrom = ""
	if n > 3 {
		p[1].Name, p[2].Name, p[3].Name = `"`, "#n", ""
	}
	if n > 5 {
		p[1].Strand, p[2].Strand = "+", "-"
	}
	if n > 11 {
		p[1].BlockCount, p[1].BlockSizes, p[1].BlockStarts = 2, []int{1, 2}, []int{0, 5}
	}
	return p
}

func runC04(r *core.Run) {
	defer everyLength(r)
	racePass(r, "race-format-bed", "the bed codec: readers each on their own stream (whole and in 7-byte reads, every corpus file), Write on shared records into separate destinations, File on one shared path; every result is compared with what the same call returned when it ran alone")
	firstCallClause(r, "bed.")
	texts := enum.AllStrings("a\",# ", 2)
	texts = append(texts, `"a"`, `a"b"`, "\x00", "\x80", "'", `\"`)
	// the format's own vocabulary used as ordinary field content, and multi-byte UTF-8 (incl. the
	// Unicode line separators and a BOM, which some line splitters treat specially)
	texts = append(texts, "track", "track name=x", "browser", "browser position chr1", "chr", "#", "Track", "trackx", "é", "\xc5\x81", "日本", "\xe2\x80\xa8", "\xc2\x85", "\xef\xbb\xbfx", "a\xc2\xa0b")
	var chroms []string
	for _, t := range texts {
		if !strings.HasPrefix(t, "#") {
			chroms = append(chroms, t)
		}
	}
	ints := []int{1, -1, math.MaxInt64, math.MinInt64}
	strands := []string{"+", "-", ".", ""}
	var rgbs [][3]int
	for _, a := range []int{0, 1, 255} {
		for _, b := range []int{0, 1, 255} {
			for _, c := range []int{0, 1, 255} {
				if a|b|c != 0 {
					rgbs = append(rgbs, [3]int{a, b, c})
				}
			}
		}
	}
	blocks := bedBlockMenu()
	dev := core.Pick(r, 2, 3)
	r.Bound("records", fmt.Sprintf("every N in 3..12; Chrom/Name default 'x' with a menu of %d strings over {a,\",comma,#,space}^<=2 plus quote patterns, 0x00, 0x80 (Chrom not '#'-leading); ints default 0, menu %v; strand %q; %d RGB triples over {0,1,255}; block triples (count, sizes, starts) for N=12: %d; <= %d deviating fields; fields beyond N hold non-zero garbage", len(texts), ints, strands, len(rgbs), len(blocks), dev))
	core.Clause(r, "records", core.Opts{Rule: "for every N, deviation-bounded tuples over the first N fields (the block triple counts as one field and is only varied for N=12; N=10,11 keep block count 0), written and read back: same N, same first N fields, rest zero; written line == literal text model with N-1 tabs; non-trivial = at least one deviating field"},
		func(emit func(bedRec) bool) {
			for n := 3; n <= 12; n++ {
				// positions: 0 chrom 1 start 2 end 3 name 4 score 5 strand 6 thickStart 7 thickEnd 8 rgb 9 blocks
				menus := []int{len(chroms), len(ints), len(ints), len(texts), len(ints), len(strands), len(ints), len(ints), len(rgbs), len(blocks)}
				npos := min(n, 9)
				if n == 12 {
					npos = 10
				}
				ok := enum.Deviations(menus[:npos], dev, func(t []int) bool {
					rec := defaultBed(n)
					for i, a := range t {
						if a < 0 {
							continue
						}
						switch i {
						case 0:
							rec.Chrom = core.S(chroms[a])
						case 1:
							rec.ChromStart = ints[a]
						case 2:
							rec.ChromEnd = ints[a]
						case 3:
							rec.Name = core.S(texts[a])
						case 4:
							rec.Score = ints[a]
						case 5:
							rec.Strand = strands[a]
						case 6:
							rec.ThickStart = ints[a]
						case 7:
							rec.ThickEnd = ints[a]
						case 8:
							rec.RGB = rgbs[a]
						case 9:
							rec.BlockCount, rec.BlockSizes, rec.BlockStarts = blocks[a].count, blocks[a].sizes, blocks[a].starts
						}
					}
					if n >= 6 && rec.Strand == "?" {
						rec.Strand = ""
					}
					return emit(rec)
				})
				if !ok {
					return
				}
			}
		},
		func(rec bedRec) core.Outcome {
			data, fail := writeBedChecked(rec)
			if fail != "" {
				return core.Failf("%s", fail)
			}
			got, p := readBedAll(data)
			if p != "" {
				return core.Failf("Reader panicked/hung on %q: %s", data, p)
			}
			want := renderBED(rec.expectBack())
			if len(got) != 1 || got[0].IsErr() || got[0].Rec != want {
				return core.Failf("N=%d: line %q reads back as %s, want %s", rec.N, data, renderObs(got), want)
			}
			d := defaultBed(rec.N)
			trivial := renderBED(d.build()) == renderBED(rec.build())
			return core.Outcome{Class: fmt.Sprint("N=", rec.N), Nontrivial: !trivial, Evals: 3}
		})

	core.Clause(r, "all-bytes-fields", core.Opts{Rule: "every byte value except TAB, CR, LF in Chrom and Name (alone, first, middle, last; '#' not first in Chrom), N = 4 and 12; non-trivial = all"},
		func(emit func(bedRec) bool) {
			for b := 0; b < 256; b++ {
				if b == '\t' || b == '\r' || b == '\n' {
					continue
				}
				for _, n := range []int{4, 12} {
					for fi := 0; fi < 2; fi++ {
						for _, v := range []string{string([]byte{byte(b)}), string([]byte{byte(b), 'a'}), string([]byte{'a', byte(b), 'c'}), string([]byte{'a', byte(b)})} {
							if fi == 0 && v[0] == '#' {
								continue
							}
							rec := defaultBed(n)
							if fi == 0 {
								rec.Chrom = core.S(v)
							} else {
								rec.Name = core.S(v)
							}
							if !emit(rec) {
								return
							}
						}
					}
				}
			}
		},
		func(rec bedRec) core.Outcome {
			data, fail := writeBedChecked(rec)
			if fail != "" {
				return core.Failf("%s", fail)
			}
			got, p := readBedAll(data)
			want := renderBED(rec.expectBack())
			if p != "" || len(got) != 1 || got[0].IsErr() || got[0].Rec != want {
				return core.Failf("N=%d: line %q reads back as %s %s, want %s", rec.N, data, renderObs(got), p, want)
			}
			return core.Outcome{Class: "ok", Nontrivial: true, Evals: 3}
		})

	var blens []int
	for l := 0; l <= 100; l++ {
		blens = append(blens, l)
	}
	for _, c := range []int{4096, 8192, 65536} {
		for l := c - 60; l <= c+8; l++ {
			blens = append(blens, l)
		}
	}
	blens = append(blens, 131072, core.Pick(r, 500000, 4000000))
	r.Bound("long-lines", "three records (N=4) whose middle one has a Name of every length 0..100, every length in [c-60, c+8] for c in {4096, 8192, 65536}, 131072 and one larger, with '#' and '\"' inside; and N=12 records with 0..40, 400 and 5000 blocks")
	core.Clause(r, "long-lines", core.Opts{Rule: "lines of every listed length between two ordinary lines; all three records must come back; non-trivial = length >= 2"},
		func(emit func(c04BadN) bool) {
			for _, l := range blens {
				if !emit(c04BadN{l}) {
					return
				}
			}
			for k := 0; k <= 40; k++ {
				emit(c04BadN{-k - 1})
			}
			emit(c04BadN{-401})
			emit(c04BadN{-5001})
		},
		func(c c04BadN) core.Outcome {
			first, mid, last := defaultBed(4), defaultBed(4), defaultBed(4)
			if c.N >= 0 {
				nm := longSeq(c.N)
				for i := 7; i < len(nm); i += 41 {
					nm[i] = "#\", "[(i/41)%4]
				}
				mid.Name = core.S(nm)
			} else {
				k := -c.N - 1
				first, mid, last = defaultBed(12), defaultBed(12), defaultBed(12)
				mid.BlockCount = k
				for i := 0; i < k; i++ {
					mid.BlockSizes = append(mid.BlockSizes, i*7)
					mid.BlockStarts = append(mid.BlockStarts, i*1000003)
				}
			}
			first.Chrom, last.Chrom = "first", "last"
			var file bytes.Buffer
			var want []obsItem
			for _, rc := range []bedRec{first, mid, last} {
				d, fail := writeBedChecked(rc)
				if fail != "" {
					return core.Failf("%s", fail)
				}
				file.Write(d)
				want = append(want, obsItem{Rec: renderBED(rc.expectBack())})
			}
			got, p := readBedAll(file.Bytes())
			if p != "" {
				return core.Failf("Reader panicked/hung: %s", p)
			}
			if !sameShape(got, want) {
				return core.Failf("a file whose middle line is %d bytes long (case %d) reads back as %s", len(file.Bytes())-20, c.N, trunc(renderObs(got), 300))
			}
			return core.Outcome{Class: fmt.Sprint("blocks=", c.N < 0), Nontrivial: c.N >= 2 || c.N < -1, Evals: 4}
		})

	firstBytes(r, "bed", func(prefix string) ([]byte, []obsItem, bool, string) {
		if hasDelim(prefix) || prefix[0] == '#' {
			return nil, nil, false, ""
		}
		first, second := defaultBed(4), defaultBed(4)
		first.Chrom, second.Chrom = core.S(prefix+"c"), "second"
		var data []byte
		var want []obsItem
		for _, rc := range []bedRec{first, second} {
			d, fail := writeBedChecked(rc)
			if fail != "" {
				return nil, nil, true, fail
			}
			data = append(data, d...)
			want = append(want, obsItem{Rec: renderBED(rc.expectBack())})
		}
		return data, want, true, ""
	})
	bedFieldNames := []string{"chrom", "chrom3", "name", "name12"}
	bedFields := func(field string, vals []string) ([]byte, []obsItem, bool, string) {
		n := map[string]int{"chrom": 4, "chrom3": 3, "name": 4, "name12": 12}[field]
		first, last := defaultBed(n), defaultBed(n)
		first.Chrom, last.Chrom = "first", "last"
		recs := []bedRec{first}
		for _, v := range vals {
			if hasDelim(v) || (strings.HasPrefix(field, "chrom") && (v == "" || v[0] == '#')) {
				return nil, nil, false, ""
			}
			mid := defaultBed(n)
			if strings.HasPrefix(field, "chrom") {
				mid.Chrom = core.S(v)
			} else {
				mid.Name = core.S(v)
			}
			recs = append(recs, mid)
		}
		recs = append(recs, last)
		var data []byte
		var want []obsItem
		for _, rc := range recs {
			d, fail := writeBedChecked(rc)
			if fail != "" {
				return nil, nil, true, fail
			}
			data = append(data, d...)
			want = append(want, obsItem{Rec: renderBED(rc.expectBack())})
		}
		return data, want, true, ""
	}
	escapeSpellingsClause(r, "bed", bedFieldNames, bedFields)
	relativesClause(r, "bed", bedFieldNames, bedFields)
	interleavedReadersFor(r, []string{"bed"})
	consumerMutatesRecords(r, []string{"bed"})
	bigFiles(r, "bed", []int{3, 4, 5, 6, 7, 8, 9, 10, 11, 12})

	r.Bound("marked-offsets", markBounds+"; fields Chrom / Name (N=4) and Strand-less N=12 Name, bytes '#', '\"'"+core.Pick(r, "", " and ',', ' ', 0x00, 0xFF")+"; '#' never first in Chrom")
	core.Clause(r, "marked-offsets", core.Opts{Rule: "a format-vocabulary byte at EVERY offset of a long Chrom or Name (it meets every internal buffer boundary of the reader); written, read back as the middle line of three; non-trivial = all"},
		genMarks([]string{"chrom", "name", "name12"}, core.Pick(r, []int{'#', '"'}, []int{'#', '"', ',', ' ', 0x00, 0xFF}), func(f string, b, off int) bool { return f == "chrom" && b == '#' && off == 0 }),
		func(c markCase) core.Outcome {
			n := 4
			if c.Field == "name12" {
				n = 12
			}
			first, mid, last := defaultBed(n), defaultBed(n), defaultBed(n)
			if c.Field == "chrom" {
				mid.Chrom = core.S(markedField(c, 'c'))
			} else {
				mid.Name = core.S(markedField(c, 'n'))
			}
			first.Chrom, last.Chrom = "first", "last"
			var file bytes.Buffer
			var want []obsItem
			for _, rc := range []bedRec{first, mid, last} {
				d, fail := writeBedChecked(rc)
				if fail != "" {
					return core.Failf("%s", fail)
				}
				file.Write(d)
				want = append(want, obsItem{Rec: renderBED(rc.expectBack())})
			}
			got, p := readBedAll(file.Bytes())
			if p != "" {
				return core.Failf("Reader panicked/hung: %s of %d bytes with %q at offset %d: %s", c.Field, c.Len, byte(c.Byte), c.Offset, p)
			}
			if !sameShape(got, want) {
				return core.Failf("%s of %d bytes with %q at offset %d reads back as %s", c.Field, c.Len, byte(c.Byte), c.Offset, trunc(renderObs(got), 300))
			}
			return core.Outcome{Class: c.Field, Nontrivial: true, Evals: 4}
		})

	core.Clause(r, "files", core.Opts{Rule: "for every N, every list of 0..3 records (sharing that N) from a pool of 4 with quotes, '#', empty fields: the reader returns the records in order; non-trivial = at least 2 records"},
		func(emit func(c04File) bool) {
			for n := 3; n <= 12; n++ {
				enum.Sequences(4, 3, func(sq []int) bool { return emit(c04File{n, append([]int(nil), sq...)}) })
			}
		},
		func(c c04File) core.Outcome {
			pool := bedFilePool(c.N)
			var file bytes.Buffer
			var want []obsItem
			for _, i := range c.Recs {
				data, fail := writeBedChecked(pool[i])
				if fail != "" {
					return core.Failf("%s", fail)
				}
				file.Write(data)
				want = append(want, obsItem{Rec: renderBED(pool[i].expectBack())})
			}
			got, p := readBedAll(file.Bytes())
			if p != "" {
				return core.Failf("Reader panicked/hung on %q: %s", file.Bytes(), p)
			}
			if !sameShape(got, want) {
				return core.Failf("file %q reads back as %s, want %s", file.Bytes(), renderObs(got), renderObs(want))
			}
			return core.Outcome{Class: fmt.Sprint("records=", len(c.Recs)), Nontrivial: len(c.Recs) >= 2, Evals: len(c.Recs) + 1}
		})

	marshalHistories(r, "bed", func() []marshaller {
		var out []marshaller
		recs := append(bedFilePool(12), bedFilePool(3)...)
		long := defaultBed(4)
		long.Name = core.S(longSeq(150))
		recs = append(recs[:6], long)
		for i, rc := range recs {
			b := rc.build()
			out = append(out, marshaller{fmt.Sprint("pool record ", i), b.MarshalText, func(w *bytes.Buffer) error { return b.Write(w) }, func(w io.Writer) error { return b.Write(w) }})
		}
		return out
	})

	core.Clause(r, "bad-n", core.Opts{Rule: "N outside 3..12 (MinInt64, -1, 0, 1, 2, 13, 14, 100, MaxInt64) on a fully populated record: Write and MarshalText return an error and not a single byte reaches the writer; non-trivial = all"},
		func(emit func(c04BadN) bool) {
			for _, n := range []int{math.MinInt64, -1, 0, 1, 2, 13, 14, 100, math.MaxInt64} {
				emit(c04BadN{n})
			}
		},
		func(c c04BadN) core.Outcome {
			rec := defaultBed(12)
			rec.BlockCount, rec.BlockSizes, rec.BlockStarts = 1, []int{1}, []int{2}
			b := rec.build()
			b.N = c.N
			var w bytes.Buffer
			var werr, merr error
			var mt []byte
			if p := catch(func() { werr = b.Write(&w); mt, merr = b.MarshalText() }); p != "" {
				return core.Failf("N=%d: Write/MarshalText panicked: %s", c.N, p)
			}
			if werr == nil || merr == nil {
				return core.Failf("N=%d: Write error %v, MarshalText error %v; want both non-nil", c.N, werr, merr)
			}
			if w.Len() != 0 || len(mt) != 0 {
				return core.Failf("N=%d: refused but emitted %q / %q", c.N, w.Bytes(), mt)
			}
			return core.Outcome{Class: "refused", Nontrivial: true, Evals: 2}
		})
}
