package choice

import "testing"

func TestExploreCounts(t *testing.T) {
	// 3 binary points: unbounded = 8 executions; bound 1 = 1 + 3 = 4; bound 2 = 1+3+3 = 7.
	body := func(e *Exec) {
		for i := 0; i < 3; i++ {
			e.Choose(2, "p")
		}
	}
	for bound, want := range map[int]int{-1: 8, 0: 1, 1: 4, 2: 7, 3: 8} {
		seen := map[string]bool{}
		st := Explore(bound, body, func(e *Exec) bool {
			k := ""
			for _, c := range e.Choices {
				k += string(rune('0' + c))
			}
			if seen[k] {
				t.Fatalf("duplicate execution %s", k)
			}
			seen[k] = true
			return true
		})
		if st.Executions != want {
			t.Fatalf("bound %d: %d executions, want %d", bound, st.Executions, want)
		}
	}
}

func TestDynamicPoints(t *testing.T) {
	// the number of points depends on earlier answers: all partitions of 4 = 8
	n := 0
	Explore(-1, func(e *Exec) {
		rem := 4
		for rem > 0 {
			c := e.Choose(rem, "read") // 0 = all, k = deliver k
			if c == 0 {
				rem = 0
			} else {
				rem -= c
			}
		}
	}, func(e *Exec) bool { n++; return true })
	if n != 8 {
		t.Fatalf("got %d compositions of 4, want 8", n)
	}
}
