// Package bfs is engine E2: explicit-state breadth-first search over operation histories of a
// real object. Real objects are never cloned: the successor of a state is obtained by building a
// fresh object, replaying the shortest history that reaches the state and applying one more
// operation. States are identified by a canonical key computed from the real object.
package bfs

import (
	"runtime"
	"sort"
	"sync"
)

// Result of one transition.
type Result struct {
	Key  string // canonical key of the successor state
	Fail string // non-empty: property violated on this transition
	Obs  string // observation class (for distinct-outcome counting)
}

// Stats of a finished search.
type Stats struct {
	States      int64
	Transitions int64
	MaxDepth    int
	Complete    bool // false if a cap stopped the search
	Fails       []Failure
	ObsClasses  int
}

// Failure is a violating transition: history (operation indices) + the operation.
type Failure struct {
	Hist []int
	Op   int
	Fail string
}

// Search explores from the initial state (empty history). step(hist, op) must build a fresh
// object, replay hist, apply op and return the successor's key. perState (optional) is called once
// per newly discovered state with its shortest history. maxStates caps the search (0 = none);
// stop (optional) is polled between levels.
func Search(initKey string, nOps int, step func(hist []int, op int) Result,
	perState func(hist []int) string, maxStates int64, stop func() bool) Stats {
	type st struct {
		hist []int
	}
	seen := map[string]struct{}{initKey: {}}
	frontier := []st{{nil}}
	var stats Stats
	stats.States = 1
	stats.Complete = true
	obs := map[string]struct{}{}
	if perState != nil {
		if f := perState(nil); f != "" {
			stats.Fails = append(stats.Fails, Failure{nil, -1, f})
		}
	}
	workers := runtime.GOMAXPROCS(0)
	depth := 0
	for len(frontier) > 0 {
		if stop != nil && stop() {
			stats.Complete = false
			break
		}
		type out struct {
			res  Result
			hist []int
			op   int
		}
		results := make([][]out, len(frontier))
		var wg sync.WaitGroup
		idx := make(chan int, len(frontier))
		for i := range frontier {
			idx <- i
		}
		close(idx)
		for w := 0; w < workers; w++ {
			wg.Add(1)
			go func() {
				defer wg.Done()
				for i := range idx {
					s := frontier[i]
					outs := make([]out, 0, nOps)
					for op := 0; op < nOps; op++ {
						outs = append(outs, out{step(s.hist, op), s.hist, op})
					}
					results[i] = outs
				}
			}()
		}
		wg.Wait()
		var next []st
		for _, outs := range results {
			for _, o := range outs {
				stats.Transitions++
				obs[o.res.Obs] = struct{}{}
				if o.res.Fail != "" {
					if len(stats.Fails) < 32 {
						stats.Fails = append(stats.Fails, Failure{append([]int(nil), o.hist...), o.op, o.res.Fail})
					}
					continue
				}
				if _, ok := seen[o.res.Key]; ok {
					continue
				}
				if maxStates > 0 && stats.States >= maxStates {
					stats.Complete = false
					continue
				}
				seen[o.res.Key] = struct{}{}
				stats.States++
				h := append(append(make([]int, 0, len(o.hist)+1), o.hist...), o.op)
				next = append(next, st{h})
			}
		}
		if len(next) > 0 {
			depth++
		}
		if perState != nil && len(next) > 0 {
			fails := make([]string, len(next))
			idx := make(chan int, len(next))
			for i := range next {
				idx <- i
			}
			close(idx)
			var wg sync.WaitGroup
			for w := 0; w < workers; w++ {
				wg.Add(1)
				go func() {
					defer wg.Done()
					for i := range idx {
						fails[i] = perState(next[i].hist)
					}
				}()
			}
			wg.Wait()
			for i, f := range fails {
				if f != "" && len(stats.Fails) < 32 {
					stats.Fails = append(stats.Fails, Failure{next[i].hist, -1, f})
				}
			}
		}
		frontier = next
		if len(stats.Fails) > 0 {
			stats.Complete = false
			break
		}
	}
	stats.MaxDepth = depth
	stats.ObsClasses = len(obs)
	sort.SliceStable(stats.Fails, func(i, j int) bool { return len(stats.Fails[i].Hist) < len(stats.Fails[j].Hist) })
	return stats
}
