package props

import (
	"bytes"
	"fmt"
	"io"

	"github.com/fluhus/biostuff/formats/bed"
	"github.com/fluhus/biostuff/formats/fasta"
	"github.com/fluhus/biostuff/formats/fastq"
	"github.com/fluhus/biostuff/formats/newick"
	"github.com/fluhus/biostuff/formats/sam"

	"verif/mc/engine/core"
)

// every-length: a writer or reader that collects output in a block of its own (4 KiB, 8 KiB, 64 KiB ...)
// goes wrong only when a record ends at one particular offset inside that block. Listed points around
// the well-known buffer sizes cannot meet every such offset; EVERY length of the one long field of a
// record can, because the total number of bytes written then takes every value in turn. The long
// record is written between two short ones with the real Write (MarshalText of the three must give
// the same bytes) and the file is read back.

type everyLenCase struct {
	Field string `json:"field"`
	Len   int    `json:"len"`
}

// everyLenFormat: build returns the three records of the file, written and rendered.
type everyLenFormat struct {
	fields []string
	// run writes prev, long(field,n), next with Write and with MarshalText, reads the Write bytes back and
	// returns (want renderings, got renderings incl. errors, bytes of Write, bytes of MarshalText, failure).
	run func(field string, n int) (want, got []string, w, m []byte, fail string)
}

func elBody(n int, alphabet string) []byte {
	b := make([]byte, n)
	for i := range b {
		b[i] = alphabet[(i+i/len(alphabet)+i/80)%len(alphabet)]
	}
	return b
}

type writerTo interface {
	Write(io.Writer) error
	MarshalText() ([]byte, error)
}

func elWrite(recs []writerTo) (w, m []byte, fail string) {
	var wb, mb bytes.Buffer
	if p := catch(func() {
		for i, r := range recs {
			if err := r.Write(&wb); err != nil {
				fail = fmt.Sprintf("Write of record %d failed: %v", i, err)
				return
			}
		}
	}); p != "" {
		return nil, nil, "Write panicked: " + p
	}
	if fail != "" {
		return nil, nil, fail
	}
	if p := catch(func() {
		for i, r := range recs {
			b, err := r.MarshalText()
			if err != nil {
				fail = fmt.Sprintf("MarshalText of record %d failed: %v", i, err)
				return
			}
			mb.Write(b)
		}
	}); p != "" {
		return nil, nil, "MarshalText panicked: " + p
	}
	return wb.Bytes(), mb.Bytes(), fail
}

func everyLenFormats() map[string]everyLenFormat {
	obs := func(items []obsItem, p string) []string {
		var s []string
		for _, it := range items {
			if it.IsErr() {
				s = append(s, "ERR("+it.Err+")")
			} else {
				s = append(s, it.Rec)
			}
		}
		if p != "" {
			s = append(s, "PANIC("+p+")")
		}
		return s
	}
	return map[string]everyLenFormat{
		"C01": {[]string{"sequence", "name"}, func(field string, n int) (want, got []string, w, m []byte, fail string) {
			long := &fasta.Fasta{Name: []byte("long one"), Sequence: []byte("ACGT")}
			if field == "sequence" {
				long.Sequence = elBody(n, "ACGTN")
			} else {
				long.Name = elBody(n, "name of-X")
			}
			recs := []*fasta.Fasta{{Name: []byte("prev"), Sequence: []byte("AC")}, long, {Name: []byte("next"), Sequence: []byte("GT")}}
			var ws []writerTo
			for _, r := range recs {
				want = append(want, renderFasta(r))
				ws = append(ws, r)
			}
			if w, m, fail = elWrite(ws); fail != "" {
				return
			}
			items, p, _ := collect2(fasta.Reader(bytes.NewReader(w)), renderFasta, len(recs)+4)
			return want, obs(items, p), w, m, ""
		}},
		"C02": {[]string{"read", "name"}, func(field string, n int) (want, got []string, w, m []byte, fail string) {
			long := &fastq.Fastq{Name: []byte("long one"), Sequence: []byte("ACGT"), Quals: []byte("IIII")}
			if field == "read" {
				long.Sequence, long.Quals = elBody(n, "ACGTN"), elBody(n, "I@+5!~")
			} else {
				long.Name = elBody(n, "name of-X")
			}
			recs := []*fastq.Fastq{{Name: []byte("prev"), Sequence: []byte("AC"), Quals: []byte("@+")}, long, {Name: []byte("next"), Sequence: []byte("GT"), Quals: []byte("+@")}}
			var ws []writerTo
			for _, r := range recs {
				want = append(want, renderFastq(r))
				ws = append(ws, r)
			}
			if w, m, fail = elWrite(ws); fail != "" {
				return
			}
			items, p, _ := collect2(fastq.Reader(bytes.NewReader(w)), renderFastq, len(recs)+4)
			return want, obs(items, p), w, m, ""
		}},
		"C03": {[]string{"seq+qual", "qname", "ztag"}, func(field string, n int) (want, got []string, w, m []byte, fail string) {
			mk := func(q string) *sam.SAM {
				return &sam.SAM{Qname: q, Flag: 99, Rname: "chr1", Pos: 7, Mapq: 60, Cigar: "4M", Rnext: "=", Pnext: 40, Tlen: 37, Seq: "ACGT", Qual: "IIII", Tags: map[string]any{"NM": 1}}
			}
			long := mk("long")
			switch field {
			case "seq+qual":
				long.Seq, long.Qual = string(elBody(n, "ACGTN")), string(elBody(n, "I@+5!~"))
			case "qname":
				long.Qname = "q" + string(elBody(n, "name.of-X"))
			default:
				long.Tags["XZ"] = string(elBody(n, "value of:X"))
			}
			recs := []*sam.SAM{mk("prev"), long, mk("next")}
			var ws []writerTo
			for _, r := range recs {
				want = append(want, renderSAM(r))
				ws = append(ws, r)
			}
			if w, m, fail = elWrite(ws); fail != "" {
				return
			}
			items, p, _ := collect2(sam.Reader(bytes.NewReader(w)), renderSAM, len(recs)+4)
			return want, obs(items, p), w, m, ""
		}},
		"C04": {[]string{"name", "chrom", "blocks"}, func(field string, n int) (want, got []string, w, m []byte, fail string) {
			mk := func(c string) *bed.BED { return &bed.BED{N: 4, Chrom: c, ChromStart: 1, ChromEnd: 9, Name: "nm"} }
			long := mk("long")
			switch field {
			case "name":
				long.Name = string(elBody(n, "name of-X"))
			case "chrom":
				long.Chrom = "c" + string(elBody(n, "chrom.of-X"))
			default: // a block list whose text grows with n (n/3 blocks, at most 2000)
				k := min(n/3, 2000)
				long.N, long.Strand, long.BlockCount = 12, "+", k
				for i := 0; i < k; i++ {
					long.BlockSizes = append(long.BlockSizes, i%11)
					long.BlockStarts = append(long.BlockStarts, n+i)
				}
				long.Name = string(elBody(n%3, "xy"))
			}
			recs := []*bed.BED{mk("prev"), long, mk("next")}
			if long.N == 12 {
				for _, r := range recs {
					if r != long {
						r.N, r.Strand = 12, "-"
					}
				}
			}
			var ws []writerTo
			for _, r := range recs {
				want = append(want, renderBED(r))
				ws = append(ws, r)
			}
			if w, m, fail = elWrite(ws); fail != "" {
				return
			}
			items, p, _ := collect2(bed.Reader(bytes.NewReader(w)), renderBED, len(recs)+4)
			return want, obs(items, p), w, m, ""
		}},
		"C05": {[]string{"plain-name", "quoted-name", "children"}, func(field string, n int) (want, got []string, w, m []byte, fail string) {
			mk := func(nm string) *newick.Node {
				return &newick.Node{Name: nm, Children: []*newick.Node{{Name: "a", Distance: 1.5}, {Name: "b c", Distance: 2}}}
			}
			long := mk("long")
			switch field {
			case "plain-name":
				long.Children[0].Name = string(elBody(n, "nameofX"))
			case "quoted-name":
				long.Children[1].Name = string(elBody(n, "it's (a) name:"))
			default: // text grows by the number of children (n/4 leaves, at most 3000)
				for i := 0; i < min(n/4, 3000); i++ {
					long.Children = append(long.Children, &newick.Node{Name: fmt.Sprint("n", i%7), Distance: float64(i % 5)})
				}
				long.Name = string(elBody(n%4, "xy"))
			}
			recs := []*newick.Node{mk("prev"), long, mk("next")}
			var ws []writerTo
			for _, r := range recs {
				want = append(want, renderNewick(r))
				ws = append(ws, r)
			}
			if w, m, fail = elWrite(ws); fail != "" {
				return
			}
			items, p, _ := collect2(newick.Reader(bytes.NewReader(w)), renderNewick, len(recs)+4)
			return want, obs(items, p), w, m, ""
		}},
	}
}

// everyLength adds the clause to the codec property id (C01..C05).
func everyLength(r *core.Run) {
	f, ok := everyLenFormats()[r.ID]
	if !ok {
		return
	}
	hi := core.Pick(r, 8400, 33000)
	r.Bound("every-length", fmt.Sprintf("fields %v x EVERY length 0..%d%s; the long record stands between two short ones", f.fields, hi, core.Pick(r, "", " and 65000..66600")))
	core.Clause(r, "every-length", core.Opts{Rule: "the one long field of a record takes EVERY length of the range, so the number of bytes written before the record's end and before the next record takes every value (any block size an implementation may collect output or input in is met at every alignment); three records are written with Write and with MarshalText (bytes must agree) and read back; non-trivial = length >= 2"},
		func(emit func(everyLenCase) bool) {
			for _, fld := range f.fields {
				for n := 0; n <= hi; n++ {
					if !emit(everyLenCase{fld, n}) {
						return
					}
				}
				if r.Thorough() {
					for n := 65000; n <= 66600; n++ {
						if !emit(everyLenCase{fld, n}) {
							return
						}
					}
				}
			}
		},
		func(c everyLenCase) core.Outcome {
			var want, got []string
			var w, m []byte
			var fail string
			if p := catch(func() { want, got, w, m, fail = f.run(c.Field, c.Len) }); p != "" {
				return core.Failf("%s of length %d: panic: %s", c.Field, c.Len, p)
			}
			if fail != "" {
				return core.Failf("%s of length %d: %s", c.Field, c.Len, fail)
			}
			if !bytes.Equal(w, m) {
				i := 0
				for i < len(w) && i < len(m) && w[i] == m[i] {
					i++
				}
				return core.Failf("%s of length %d: Write gives %d bytes, MarshalText %d; they differ from offset %d on (Write …%q, MarshalText …%q)", c.Field, c.Len, len(w), len(m), i, clip(w[max(0, i-10):], 30), clip(m[max(0, i-10):], 30))
			}
			if len(got) != len(want) {
				return core.Failf("%s of length %d: %d records written (%d bytes), read back %d items: %s", c.Field, c.Len, len(want), len(w), len(got), clipS(fmt.Sprint(got), 300))
			}
			for i := range want {
				if want[i] != got[i] {
					return core.Failf("%s of length %d: record %d reads back as %s, written %s", c.Field, c.Len, i, clipS(got[i], 200), clipS(want[i], 200))
				}
			}
			return core.Outcome{Class: fmt.Sprint(c.Field, " len%4096/1024=", c.Len%4096/1024), Nontrivial: c.Len >= 2, Evals: 3}
		})
}

func clip(b []byte, n int) []byte {
	if len(b) > n {
		return b[:n]
	}
	return b
}

func clipS(s string, n int) string {
	if len(s) > n {
		return s[:n/2] + "…" + s[len(s)-n/2:]
	}
	return s
}
