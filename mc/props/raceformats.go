package props

import (
	"bytes"
	"fmt"
	"io"
	"os"
	"path/filepath"

	"verif/mc/engine/envio"
)

// Free-running -race pass for the five codecs. Every record type is written and every stream is read
// by 8 goroutines at once: readers each on their own stream (what a program reading several files in
// parallel does), writers on SHARED records into their own destinations, File on one shared path. The
// oracle is differential: every result must be what the same call gave when it ran alone, before the
// goroutines started. State kept between calls at package level (a scratch buffer, a pooled reader, a
// cached line) is correct for a caller that runs alone and shows here as a data race or a wrong answer.

func init() {
	for _, f := range []string{"fasta", "fastq", "sam", "bed", "newick"} {
		f := f
		Hidden["race-format-"+f] = func() int { return raceBodyFormat(f) }
	}
	Hidden["race-formats"] = func() int {
		rc := 0
		for _, f := range []string{"fasta", "fastq", "sam", "bed", "newick"} {
			rc = max(rc, raceBodyFormat(f))
		}
		return rc
	}
}

func raceBodyFormat(format string) int {
	fs := []formatDef{formatByName(format)}
	if format == "sam" {
		fs = append(fs, formatByName("samh"))
	}
	var streams [][]byte
	for _, size := range []string{"small", "medium", "large", "longline"} {
		streams = append(streams, corpus(format, size)...)
	}
	if len(streams) > 24 {
		streams = append(streams[:20], streams[len(streams)-4:]...)
	}
	dir, err := os.MkdirTemp("", "race-format-")
	if err != nil {
		fmt.Println("cannot create a scratch directory:", err)
		return 3
	}
	defer os.RemoveAll(dir)
	path := filepath.Join(dir, "shared."+format)
	os.WriteFile(path, corpus(format, "medium")[0], 0o644)

	type job func() string
	var jobs []job
	for _, f := range fs {
		for _, data := range streams {
			jobs = append(jobs, func() string {
				items, p, over := f.Read(bytes.NewReader(data), 1<<20)
				return fmt.Sprint(renderObs(items), p, over)
			}, func() string {
				items, p, over := f.Read(&chunk7Reader{data: data}, 1<<20)
				return fmt.Sprint(renderObs(items), p, over)
			})
		}
		jobs = append(jobs, func() string {
			items, p, over := f.File(path, 1<<20)
			return fmt.Sprint(renderObs(items), p, over)
		})
	}
	for _, w := range writeRecords(format) {
		jobs = append(jobs, func() string {
			lw := &envio.LimitWriter{Limit: 1 << 30}
			err := w(lw)
			return fmt.Sprint(string(lw.Got), err)
		})
	}
	for _, v := range longWriteVariants[format] {
		w := longWriteRecord(format, v, 5000)
		jobs = append(jobs, func() string {
			lw := &envio.LimitWriter{Limit: 1 << 30}
			err := w(lw)
			return fmt.Sprint(string(lw.Got), err)
		})
	}
	alone := make([]string, len(jobs))
	for i, j := range jobs {
		alone[i] = j()
	}
	return runParallel(8, func(g int) string {
		for rep := 0; rep < 3; rep++ {
			for k := range jobs {
				i := (k*7 + g*5 + rep) % len(jobs)
				if got := jobs[i](); got != alone[i] {
					return fmt.Sprintf("%s: job %d next to other callers gives %s, alone %s", format, i, trunc(got, 300), trunc(alone[i], 300))
				}
			}
		}
		return ""
	})
}

// chunk7Reader delivers at most 7 bytes per Read.
type chunk7Reader struct {
	data []byte
	off  int
}

func (c *chunk7Reader) Read(p []byte) (int, error) {
	if c.off >= len(c.data) {
		return 0, io.EOF
	}
	n := copy(p[:min(len(p), 7)], c.data[c.off:])
	c.off += n
	return n, nil
}
