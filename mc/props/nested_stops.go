package props

import (
	"fmt"
	"iter"

	"verif/mc/engine/core"
)

// Re-runnable iterator values (tree traversals, File iterators, CanonicalSubsequences) may be ranged
// inside their own loop body: the all-pairs / triangular loop. Stopping the inner run is an ordinary
// early stop and must be clean: the outer run, still in progress, goes on exactly like an
// uninterrupted one. nestedStops enumerates every (outer position, inner stop position) pair.

func asStrings1[T any](seq iter.Seq[T], render func(T) string) iter.Seq[string] {
	return func(yield func(string) bool) {
		seq(func(v T) bool { return yield(render(v)) })
	}
}

func asStrings2[T any](seq iter.Seq2[T, error], render func(T) string) iter.Seq[string] {
	return func(yield func(string) bool) {
		seq(func(v T, err error) bool {
			if err != nil {
				return yield("ERR")
			}
			return yield(render(v))
		})
	}
}

// nestedStops: seq is ONE iterator value. unordered: items of a stopped run need only be distinct
// members of the full run (trie ForEach promises no order) and the outer run must cover it exactly.
func nestedStops(what string, seq iter.Seq[string], unordered bool) core.Outcome {
	var full []string
	if p := catch(func() {
		for v := range seq {
			full = append(full, v)
			if len(full) > 1<<16 {
				break
			}
		}
	}); p != "" {
		return core.Failf("%s: uninterrupted run panicked: %s", what, p)
	}
	n := len(full)
	count := func(xs []string) map[string]int {
		m := map[string]int{}
		for _, x := range xs {
			m[x]++
		}
		return m
	}
	fullCount := count(full)
	isRun := func(got []string, complete bool) bool {
		if complete && len(got) != n {
			return false
		}
		if len(got) > n {
			return false
		}
		if unordered {
			c := count(got)
			for k, v := range c {
				if v > fullCount[k] {
					return false
				}
			}
			return true
		}
		for i := range got {
			if got[i] != full[i] {
				return false
			}
		}
		return true
	}
	evals := 1
	var fail string
	p := catch(func() {
		for at := 1; at <= n; at++ {
			for s := 1; s <= n+1; s++ { // s == n+1: the inner run is not stopped
				for outerStop := 0; outerStop <= 1; outerStop++ {
					stopOuterAt := 0
					if outerStop == 1 {
						stopOuterAt = at + 1
						if stopOuterAt > n {
							continue
						}
					}
					var outer, inner []string
					innerCalls := 0
					for v := range seq {
						outer = append(outer, v)
						if len(outer) == at {
							for w := range seq {
								inner = append(inner, w)
								innerCalls++
								if innerCalls == s || innerCalls > n+3 {
									break
								}
							}
						}
						if len(outer) == stopOuterAt || len(outer) > n+3 {
							break
						}
					}
					evals += 2
					if innerCalls != min(s, n) || !isRun(inner, s > n) {
						fail = fmt.Sprintf("a run nested at item %d of the outer run and stopped at its item %d saw %d items %s, want the first %d of %s", at, s, innerCalls, trunc(fmt.Sprint(inner), 200), min(s, n), trunc(fmt.Sprint(full), 200))
						return
					}
					wantOuter := n
					if stopOuterAt > 0 {
						wantOuter = stopOuterAt
					}
					if len(outer) != wantOuter || !isRun(outer, stopOuterAt == 0) {
						fail = fmt.Sprintf("the outer run, after a nested run (started at its item %d) was stopped at item %d, saw %s; an uninterrupted run yields %s (outer stopped at %d, 0 = never)", at, s, trunc(fmt.Sprint(outer), 200), trunc(fmt.Sprint(full), 200), stopOuterAt)
						return
					}
				}
			}
		}
	})
	if p != "" {
		return core.Failf("%s: nested runs of one iterator value: panic: %s", what, p)
	}
	if fail != "" {
		return core.Failf("%s: %s", what, fail)
	}
	return core.Outcome{Class: fmt.Sprint("items=", min(n, 3)), Nontrivial: n >= 2, Evals: evals}
}

// interleavedSeqs: TWO iterator values (over different data) alive at once on one goroutine, advanced in
// every interleaving; additionally A is abandoned (stopped) after each number of items while B goes on,
// and the other way round. Each must yield exactly what it yields alone. State shared between iterator
// VALUES (a pooled stack, a package-level scratch slice) shows here.
func interleavedSeqs(what string, a, b iter.Seq[string]) core.Outcome {
	collect := func(s iter.Seq[string]) []string {
		var out []string
		for v := range s {
			out = append(out, v)
			if len(out) > 1<<12 {
				break
			}
		}
		return out
	}
	wantA, wantB := collect(a), collect(b)
	evals := 2
	var fail string
	run := func(schedule string, stopA, stopB int) {
		nextA, endA := iter.Pull(a)
		nextB, endB := iter.Pull(b)
		defer endA()
		defer endB()
		var gotA, gotB []string
		doneA, doneB := false, false
		pull := func(w byte) {
			if w == 'A' && !doneA {
				if stopA >= 0 && len(gotA) == stopA {
					endA()
					doneA = true
					return
				}
				if v, ok := nextA(); ok {
					gotA = append(gotA, v)
				} else {
					doneA = true
				}
			}
			if w == 'B' && !doneB {
				if stopB >= 0 && len(gotB) == stopB {
					endB()
					doneB = true
					return
				}
				if v, ok := nextB(); ok {
					gotB = append(gotB, v)
				} else {
					doneB = true
				}
			}
		}
		for i := 0; i < len(schedule); i++ {
			pull(schedule[i])
		}
		for !doneA && len(gotA) <= len(wantA)+3 {
			pull('A')
		}
		for !doneB && len(gotB) <= len(wantB)+3 {
			pull('B')
		}
		evals++
		chk := func(name string, got, want []string, stop int) {
			exp := want
			if stop >= 0 && stop < len(want) {
				exp = want[:stop]
			}
			if fmt.Sprint(got) != fmt.Sprint(exp) && fail == "" {
				fail = fmt.Sprintf("pulled in the order %s (A abandoned after %d items, B after %d; -1 = never): iterator %s yielded %s, alone it yields %s", schedule, stopA, stopB, name, trunc(fmt.Sprint(got), 200), trunc(fmt.Sprint(exp), 200))
			}
		}
		chk("A", gotA, wantA, stopA)
		chk("B", gotB, wantB, stopB)
	}
	p := catch(func() {
		interleavings(len(wantA)+1, len(wantB)+1, nil, func(s string) bool {
			run(s, -1, -1)
			return fail == ""
		})
		alt := ""
		for i := 0; i < len(wantA)+len(wantB)+2; i++ {
			alt += "AB"
		}
		for k := 0; k <= len(wantA) && fail == ""; k++ {
			run(alt, k, -1)
			run("B"+alt, k, -1)
		}
		for k := 0; k <= len(wantB) && fail == ""; k++ {
			run(alt, -1, k)
			run("B"+alt, -1, k)
		}
		// after abandoned runs: a plain complete run of each again
		if fail == "" {
			if got := collect(a); fmt.Sprint(got) != fmt.Sprint(wantA) {
				fail = fmt.Sprintf("after the abandoned runs a plain run of A yields %s, want %s", trunc(fmt.Sprint(got), 200), trunc(fmt.Sprint(wantA), 200))
			}
			if got := collect(b); fmt.Sprint(got) != fmt.Sprint(wantB) && fail == "" {
				fail = fmt.Sprintf("after the abandoned runs a plain run of B yields %s, want %s", trunc(fmt.Sprint(got), 200), trunc(fmt.Sprint(wantB), 200))
			}
		}
	})
	if p != "" {
		return core.Failf("%s: two iterators alive at once: panic: %s", what, p)
	}
	if fail != "" {
		return core.Failf("%s: %s", what, fail)
	}
	return core.Outcome{Class: fmt.Sprint("items=", min(len(wantA), 2), "+", min(len(wantB), 2)), Nontrivial: len(wantA) >= 1 && len(wantB) >= 1, Evals: evals}
}
