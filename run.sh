#!/bin/bash
# Entry point of every registered check:  ./run.sh <ID> <quick|thorough>   |   ./run.sh <ID> --replay <file>
# Rebuilds the explorer from /repo's current working tree (replace directive + build cache), then runs it.
set -u
cd "$(dirname "$0")"
ROOT="$(pwd)"
export GOFLAGS=-mod=mod GOPROXY=off GOSUMDB=off GOTOOLCHAIN=local
export VERIF_ROOT="$ROOT"
export GOCACHE="${GOCACHE:-$ROOT/.cache/go-build}"
mkdir -p "$ROOT/bin" "$ROOT/evidence" "$ROOT/.scratch" "$GOCACHE"
ID="${1:?property id}"; shift
TIER="${1:-${VERIF_TIER:-quick}}"
OVERLAY=()
if [ -n "${VERIF_OVERLAY:-}" ]; then OVERLAY=(-overlay "$VERIF_OVERLAY"); fi
BIN="$ROOT/bin/mc.$$"
trap 'rm -f "$BIN"' EXIT
if ! (cd "$ROOT/mc" && cp /repo/go.sum go.sum 2>/dev/null; go build -tags verif "${OVERLAY[@]}" -o "$BIN" ./cmd/mc) >"$ROOT/.scratch/build.$$.log" 2>&1; then
  cat "$ROOT/.scratch/build.$$.log"; rm -f "$ROOT/.scratch/build.$$.log"
  echo "BUILD-FAILED property=$ID (the harness or /repo does not compile)"
  exit 2
fi
rm -f "$ROOT/.scratch/build.$$.log"
# generous hard limits; the checks stop by themselves at their soft deadline (exit 0, exhaustive:false)
ulimit -v 41943040 2>/dev/null || true
if [ "$TIER" = "--replay" ]; then
  "$BIN" "$ID" --replay "${2:?replay file}"
else
  "$BIN" "$ID" "$TIER"
fi
