package props

import (
	"bytes"
	"fmt"

	"verif/mc/engine/core"
)

// The append-style functions (ReverseComplement, DNATo2Bit, DNAFrom2Bit, Translate) are quantified
// over "all dst prefixes". The content of dst, and of the spare capacity behind it, must play no role:
// not for the result, and not for whether the call panics. dstCase enumerates that dimension on its
// own: every byte value as the content of dst and as the stale content of its spare capacity.
type dstCase struct {
	Byte  int    `json:"dst_byte"`
	Shape int    `json:"dst_shape"` // see dstShapeNames
	Src   core.S `json:"src"`
}

var dstShapeNames = []string{
	"dst=[v] cap 1",
	"dst=[] with 24 spare bytes all v",
	"dst=[v v] with 24 spare bytes all v",
	"dst=[v 0 v] with 24 spare bytes alternating v,0",
}

func dstOf(v byte, shape int) []byte {
	switch shape {
	case 0:
		return []byte{v}[:1:1]
	case 1:
		return bytes.Repeat([]byte{v}, 24)[:0]
	case 2:
		return bytes.Repeat([]byte{v}, 26)[:2]
	default:
		b := make([]byte, 27)
		for i := range b {
			if i%2 == 0 {
				b[i] = v
			}
		}
		return b[:3]
	}
}

func genDstCases(srcs []string) func(emit func(dstCase) bool) {
	return func(emit func(dstCase) bool) {
		for _, s := range srcs {
			for shape := range dstShapeNames {
				for v := 0; v < 256; v++ {
					if !emit(dstCase{v, shape, core.S(s)}) {
						return
					}
				}
			}
		}
	}
}

const dstRule = "every byte value v as the content of dst and as the stale content of its spare capacity (4 shapes: [v] cap 1; empty with 24 spare v; [v v] with 24 spare v; [v 0 v] with spare alternating v,0) x a menu of src (valid ones of several lengths incl. empty, and ones that must panic): the result is dst followed by the reference output, the call panics exactly when the reference rejects src, existing dst content and src are unchanged; non-trivial = all"

// checkDstContract returns the check for one append-style function f against the reference fn ref
// (ok=false: src is outside the function's alphabet and the call must panic).
func checkDstContract(name string, f func(dst, src []byte) []byte, reference func(src []byte) ([]byte, bool)) func(dstCase) core.Outcome {
	return func(c dstCase) core.Outcome {
		src := c.Src.B()
		dst := dstOf(byte(c.Byte), c.Shape)
		dstCopy := bytes.Clone(dst)
		want, ok := reference(src)
		var got []byte
		p := catch(func() { got = f(dst, src) })
		desc := fmt.Sprintf("%s(%s with v=%#02x, %q)", name, dstShapeNames[c.Shape], c.Byte, src)
		if !ok {
			if p == "" {
				return core.Failf("%s did not panic (returned %q)", desc, got)
			}
			return core.OK("panics", true)
		}
		if p != "" {
			return core.Failf("%s panicked: %s", desc, p)
		}
		if !bytes.Equal(got, append(bytes.Clone(dstCopy), want...)) {
			return core.Failf("%s = %q, want %q", desc, got, append(bytes.Clone(dstCopy), want...))
		}
		if !bytes.Equal(dst, dstCopy) {
			return core.Failf("%s modified the existing content of dst: %q -> %q", desc, dstCopy, dst)
		}
		if !bytes.Equal(src, c.Src.B()) {
			return core.Failf("%s modified src", desc)
		}
		return core.OK("accepted", true)
	}
}

// dst may share memory with src as long as the APPENDED bytes cannot land on src: dst is src itself, or
// src is a window of dst's existing content. Both statements then hold together (dst's content and src
// stay untouched, the result is dst followed by the output). This is different from handing a function
// dst = src[:0], where the output is written over the input (outside the statements, see DESIGN 8.7).
type dstAliasCase struct {
	Layout string `json:"layout"`
	Src    core.S `json:"src"`
}

var dstAliasLayouts = []string{"dst-is-src", "dst-is-src-with-spare-capacity", "src-is-the-tail-of-dst", "src-is-the-tail-of-dst-with-spare-capacity", "src-is-the-head-of-dst", "src-is-in-the-middle-of-dst"}

func genDstAlias(srcs []string) func(emit func(dstAliasCase) bool) {
	return func(emit func(dstAliasCase) bool) {
		for _, s := range srcs {
			for _, l := range dstAliasLayouts {
				if !emit(dstAliasCase{l, core.S(s)}) {
					return
				}
			}
		}
	}
}

const dstAliasRule = "dst shares memory with src without the appended bytes being able to land on src (dst is src itself; src is the tail, the head or the middle of dst's existing content; with and without spare capacity): the result is dst followed by the reference output, src and dst's content are unchanged, a src outside the alphabet panics; non-trivial = all"

func checkDstAlias(name string, f func(dst, src []byte) []byte, reference func(src []byte) ([]byte, bool)) func(dstAliasCase) core.Outcome {
	return func(c dstAliasCase) core.Outcome {
		s0 := c.Src.B()
		n := len(s0)
		var dst, src []byte
		switch c.Layout {
		case "dst-is-src":
			buf := append(make([]byte, 0, n), s0...)
			dst, src = buf[:n:n], buf[:n:n]
		case "dst-is-src-with-spare-capacity":
			buf := append(make([]byte, 0, 3*n+8), s0...)
			dst, src = buf[:n], buf[:n]
		case "src-is-the-tail-of-dst":
			buf := append(append(make([]byte, 0, n+3), "xyz"...), s0...)
			dst, src = buf[:n+3:n+3], buf[3:n+3:n+3]
		case "src-is-the-tail-of-dst-with-spare-capacity":
			buf := append(append(make([]byte, 0, 3*n+16), "xyz"...), s0...)
			dst, src = buf[:n+3], buf[3:n+3]
		case "src-is-the-head-of-dst":
			buf := append(append(make([]byte, 0, 3*n+16), s0...), "xyz"...)
			dst, src = buf[:n+3], buf[:n]
		default:
			buf := append(append(append(make([]byte, 0, 3*n+16), "ab"...), s0...), "yz"...)
			dst, src = buf[:n+4], buf[2:n+2]
		}
		dstCopy := bytes.Clone(dst)
		want, ok := reference(s0)
		var got []byte
		p := catch(func() { got = f(dst, src) })
		desc := fmt.Sprintf("%s(dst, src) with %s, src %q", name, c.Layout, s0)
		if !ok {
			if p == "" {
				return core.Failf("%s did not panic (returned %q)", desc, got)
			}
			return core.OK("panics", true)
		}
		if p != "" {
			return core.Failf("%s panicked: %s", desc, p)
		}
		if !bytes.Equal(got, append(bytes.Clone(dstCopy), want...)) {
			return core.Failf("%s = %q, want %q", desc, got, append(bytes.Clone(dstCopy), want...))
		}
		if !bytes.Equal(src, s0) || !bytes.Equal(dst, dstCopy) {
			return core.Failf("%s changed its arguments: src %q -> %q, dst %q -> %q", desc, s0, src, dstCopy, dst)
		}
		return core.OK(c.Layout, true)
	}
}
