package props

import (
	"fmt"

	"verif/mc/engine/core"
)

// A call that panics must panic every time it is made; a call that answers must give the same answer
// every time. State written on the way to a panic (a cache entry made before the validity test, a pooled
// buffer handed back half-filled) is invisible to a sweep that asks every question once. Every input of
// the panic-boundary menus is asked three times in a row, with its other-case relative asked in between.

type againCase struct {
	Func  string `json:"function"`
	Input core.S `json:"input"`
}

type againFunc struct {
	Name string
	Call func(in []byte) string // rendering of the result; a panic inside is caught by the caller
}

func swapCase(b []byte) []byte {
	out := make([]byte, len(b))
	for i, c := range b {
		switch {
		case c >= 'a' && c <= 'z':
			c -= 32
		case c >= 'A' && c <= 'Z':
			c += 32
		}
		out[i] = c
	}
	return out
}

func askedAgain(r *core.Run, funcs []againFunc, inputs []string) {
	byName := map[string]againFunc{}
	names := ""
	for _, f := range funcs {
		byName[f.Name] = f
		names += " " + f.Name
	}
	core.Clause(r, "asked-again", core.Opts{Rule: "every input of the menu (all 256 single bytes, each alone and inside a valid context, plus the listed strings) is put to" + names + " three times in a row, its other-case relative once in between: a call that panics panics every time, a call that answers gives the same answer every time, and the relative's answer does not change either; non-trivial = all",
		Bounds: fmt.Sprintf("%d inputs x %d functions", len(inputs), len(funcs))},
		func(emit func(againCase) bool) {
			for _, f := range funcs {
				for _, in := range inputs {
					if !emit(againCase{f.Name, core.S(in)}) {
						return
					}
				}
			}
		},
		func(c againCase) core.Outcome {
			f := byName[c.Func]
			ask := func(in []byte) string {
				var out string
				if p := catch(func() { out = "returns " + f.Call(in) }); p != "" {
					return "panics"
				}
				return out
			}
			in, rel := c.Input.B(), swapCase(c.Input.B())
			a1 := ask(in)
			r1 := ask(rel)
			a2 := ask(in)
			a3 := ask(in)
			r2 := ask(rel)
			if a1 != a2 || a1 != a3 {
				return core.Failf("%s(%q) asked three times: %s, then %s, then %s", c.Func, in, trunc(a1, 80), trunc(a2, 80), trunc(a3, 80))
			}
			if r1 != r2 {
				return core.Failf("%s(%q) asked before and after %s(%q): %s, then %s", c.Func, rel, c.Func, in, trunc(r1, 80), trunc(r2, 80))
			}
			cl := "answers"
			if a1 == "panics" {
				cl = "panics"
			}
			return core.Outcome{Class: c.Func + " " + cl, Nontrivial: true, Evals: 5}
		})
}

// againInputs: every single byte, alone and as the last byte of each context.
func againInputs(contexts []string, extra ...string) []string {
	var out []string
	for b := 0; b < 256; b++ {
		out = append(out, string([]byte{byte(b)}))
		for _, c := range contexts {
			out = append(out, c+string([]byte{byte(b)}))
		}
	}
	return append(out, extra...)
}
