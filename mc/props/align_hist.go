package props

import (
	"fmt"
	"strings"

	"verif/mc/engine/core"
	"verif/mc/ref"
)

// alnCall is one call of a call history.
type alnCall struct {
	Fn string `json:"fn"`
	A  string `json:"a"` // compact spelling: see expandSeq
	B  string `json:"b"`
}

type alnHist struct {
	Matrix string    `json:"matrix"`
	Calls  []alnCall `json:"calls"`
}

// expandSeq expands "A*60+B*10" to the sequence.
func expandSeq(s string) []byte {
	var out []byte
	for _, part := range strings.Split(s, "+") {
		if part == "" {
			continue
		}
		var unit string
		n := 1
		if i := strings.Index(part, "*"); i >= 0 {
			unit = part[:i]
			fmt.Sscan(part[i+1:], &n)
		} else {
			unit = part
		}
		for i := 0; i < n; i++ {
			out = append(out, unit...)
		}
	}
	return out
}

var histSeqPairs = [][2]string{
	{"A*60+B*10", "C*10+A*60"},
	{"A*70", "B*70"},
	{"AB*40", "BA*35+C"},
	{"ABCAB*20", "ABCCB*19+A"},
	{"A*64", "A*64"},
	{"AB", "B"},
	{"A*130", "A*65+B+A*64"},
}

// alignHistories explores call histories on long sequences: every ordered pair (and, for the
// first three inputs, triple) of calls from the pool, run back to back on one goroutine, each
// call judged by judge (which gets the result of the call and the case). It finds state that
// leaks from one call into the next (pooled tables, cached rows) and size-dependent paths that
// the small-scope enumeration cannot reach (tables of 4096 cells and more).
func alignHistories(r *core.Run, matrices []string, judge func(c alnCase, res alnResult, changed bool) core.Outcome) {
	var calls []alnCall
	for _, p := range histSeqPairs {
		for _, fn := range bothFns {
			calls = append(calls, alnCall{fn, p[0], p[1]}, alnCall{fn, p[1], p[0]})
		}
	}
	r.Bound("call-histories", fmt.Sprintf("sequences up to 130 letters (%d calls: Global/Local x %d sequence pairs in both orders), every ordered pair of calls and every triple over the first 8 calls, x %d matrices; tables up to 131x131 cells", len(calls), len(histSeqPairs), len(matrices)))
	core.Clause(r, "call-histories-long", core.Opts{Rule: "operation histories on long sequences: calls run back to back on one goroutine; every call of every history is judged exactly like a single call (reference: Gotoh DP); non-trivial = at least 2 calls"},
		func(emit func(alnHist) bool) {
			for _, m := range matrices {
				for i := range calls {
					if !emit(alnHist{m, []alnCall{calls[i]}}) {
						return
					}
				}
				for i := range calls {
					for j := range calls {
						if !emit(alnHist{m, []alnCall{calls[i], calls[j]}}) {
							return
						}
					}
				}
				for i := 0; i < 8; i++ {
					for j := 0; j < 8; j++ {
						for k := 0; k < 8; k++ {
							if !emit(alnHist{m, []alnCall{calls[i], calls[j], calls[k]}}) {
								return
							}
						}
					}
				}
			}
		},
		func(h alnHist) core.Outcome {
			m := matrixByName(h.Matrix)
			out := core.Outcome{Class: fmt.Sprint("calls=", len(h.Calls)), Nontrivial: len(h.Calls) >= 2, Evals: len(h.Calls)}
			for i, cl := range h.Calls {
				c := alnCase{cl.Fn, core.S(expandSeq(cl.A)), core.S(expandSeq(cl.B)), h.Matrix}
				res, changed := runAlign(c, m)
				o := judge(c, res, changed)
				if o.Fail != "" {
					if o.Known != "" {
						out.Fail, out.Known, out.Class = o.Fail, o.Known, o.Class
						continue
					}
					o.Fail = fmt.Sprintf("call %d of the history %v: %s", i+1, h.Calls, o.Fail)
					return o
				}
			}
			return out
		})
}

// judgeOptimal is the C09/C10 judgement of one finished call.
func judgeOptimal(r *core.Run, knownIDs map[string]string) func(c alnCase, res alnResult, changed bool) core.Outcome {
	return func(c alnCase, res alnResult, _ bool) core.Outcome {
		a, b := c.A.B(), c.B.B()
		rm := toRefMat(matrixByName(c.Matrix))
		if res.panicS != "" {
			return core.Failf("%s(%d letters, %d letters, %s) panicked: %s", c.Fn, len(a), len(b), c.Matrix, res.panicS)
		}
		var opt float64
		if c.Fn == "Global" {
			opt = ref.GotohGlobal(a, b, rm)
		} else {
			opt = ref.GotohLocal(a, b, rm)
		}
		if res.score == opt {
			return core.Outcome{}
		}
		out := core.Failf("%s(%q, %q, %s) returned score %v, the optimum is %v", c.Fn, trunc(string(a), 30), trunc(string(b), 30), c.Matrix, res.score, opt)
		if id := knownIDs[c.Fn]; id != "" && res.score < opt && r.KnownListed(id) {
			var model float64
			if c.Fn == "Global" {
				model = ref.SingleStateGlobal(a, b, rm)
			} else {
				model = ref.SingleStateLocal(a, b, rm)
			}
			if model == res.score {
				out.Known = id
				out.Class = "suboptimal (known finding " + id + ")"
			}
		}
		return out
	}
}
