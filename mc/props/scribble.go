package props

import (
	"fmt"
	"io"
	"iter"

	"github.com/fluhus/biostuff/formats/bed"
	"github.com/fluhus/biostuff/formats/fasta"
	"github.com/fluhus/biostuff/formats/fastq"
	"github.com/fluhus/biostuff/formats/newick"
	"github.com/fluhus/biostuff/formats/sam"

	"verif/mc/engine/core"
)

// A record a reader hands out belongs to the consumer. A consumer that writes into it (fills the byte
// slices, appends to them, adds tags to the map, rewires a tree) must not change what the reader yields
// next, nor what ANY later reader yields: a shared empty map, a shared zero-length slice with capacity,
// nodes cut from a reused slab show here and in no run that only looks at the records.

func scribbled2[T any](seq iter.Seq2[T, error], render func(T) string, scribble func(T), horizon int) (items []obsItem, panicS string) {
	panicS = catch(func() {
		seq(func(v T, err error) bool {
			if err != nil {
				items = append(items, obsItem{Err: "error"})
			} else {
				items = append(items, obsItem{Rec: render(v)})
				scribble(v)
			}
			return len(items) < horizon
		})
	})
	return
}

func scribbleBytes(b []byte) []byte {
	for i := range b {
		b[i] = '#'
	}
	ext := b[:cap(b)]
	for i := len(b); i < len(ext); i++ {
		ext[i] = '$'
	}
	return append(b, "scribble"...)
}

func scribbleSAM(s *sam.SAM) {
	if s == nil {
		return
	}
	s.Qname, s.Rname, s.Cigar, s.Rnext, s.Seq, s.Qual = "scribble", "scribble", "9M", "scribble", "NNNN", "####"
	s.Flag, s.Pos, s.Mapq, s.Pnext, s.Tlen = 4095, -1, 255, -1, -1
	if s.Tags != nil {
		for k := range s.Tags {
			if b, ok := s.Tags[k].([]byte); ok {
				scribbleBytes(b)
			}
			s.Tags[k] = "scribble"
		}
		s.Tags["ZZ"], s.Tags["NM"], s.Tags["XA"] = "scribble", 77, byte('#')
	}
}

func scribbleTree(n *newick.Node) {
	var all []*newick.Node
	for x := range n.PreOrder() {
		all = append(all, x)
	}
	for _, x := range all {
		x.Name, x.Distance = "scribble", -7
		for i := range x.Children {
			x.Children[i] = &newick.Node{Name: "scribbled child"}
		}
		x.Children = append(x.Children, &newick.Node{Name: "appended"})
	}
}

// scribbleRead decodes with the real reader while scribbling over every yielded record.
func scribbleRead(format string, r io.Reader, horizon int) ([]obsItem, string) {
	switch format {
	case "fasta":
		return scribbled2(fasta.Reader(r), renderFasta, func(f *fasta.Fasta) {
			f.Name, f.Sequence = scribbleBytes(f.Name), scribbleBytes(f.Sequence)
		}, horizon)
	case "fastq":
		return scribbled2(fastq.Reader(r), renderFastq, func(f *fastq.Fastq) {
			f.Name, f.Sequence, f.Quals = scribbleBytes(f.Name), scribbleBytes(f.Sequence), scribbleBytes(f.Quals)
		}, horizon)
	case "sam":
		return scribbled2(sam.Reader(r), renderSAM, scribbleSAM, horizon)
	case "samh":
		return scribbled2(sam.ReaderHeader(r), renderSAMOrHeader, func(x sam.SAMOrHeader) {
			if x.H != nil {
				*x.H = "@scribble"
			}
			scribbleSAM(x.S)
		}, horizon)
	case "bed":
		return scribbled2(bed.Reader(r), renderBED, func(b *bed.BED) {
			for i := range b.BlockSizes {
				b.BlockSizes[i] = -1
			}
			for i := range b.BlockStarts {
				b.BlockStarts[i] = -1
			}
			b.BlockSizes, b.BlockStarts = append(b.BlockSizes, 7, 7, 7), append(b.BlockStarts, 7, 7, 7)
			b.Chrom, b.Name, b.Strand, b.N, b.ItemRGB = "scribble", "scribble", "?", 12, [3]byte{9, 9, 9}
		}, horizon)
	case "newick":
		return scribbled2(newick.Reader(r), renderNewick, scribbleTree, horizon)
	}
	panic("format " + format)
}

type scribbleCase struct {
	Format   string `json:"format"`
	Corpus   string `json:"corpus"`
	Delivery string `json:"delivery"` // whole | bytes-1 | chunks-7
}

func consumerMutatesRecords(r *core.Run, only []string) {
	core.Clause(r, "consumer-mutates-records", core.Opts{Rule: "the consumer overwrites every record as soon as it has looked at it (byte slices filled and appended to, tag maps emptied and filled, block lists rewritten, trees rewired): each record is, at the moment it is yielded, what an undisturbed decode yields; afterwards an undisturbed decode of the same and of another file is still right (nothing the library hands out is shared with a later record or a later reader); every small, medium and placeholder-token corpus file x 3 deliveries; non-trivial = at least 2 items",
		Bounds: "per format every small, medium, vocab corpus file x {whole, 1 byte, 7 bytes per Read}"},
		func(emit func(scribbleCase) bool) {
			for _, f := range formats {
				use := only == nil
				for _, o := range only {
					use = use || o == f.Name
				}
				if !use {
					continue
				}
				for _, size := range []string{"small", "medium", "vocab"} {
					for i := range corpus(f.Name, size) {
						for _, d := range []string{"whole", "bytes-1", "chunks-7"} {
							if !emit(scribbleCase{f.Name, fmt.Sprint(size, "/", i), d}) {
								return
							}
						}
					}
				}
			}
		},
		func(c scribbleCase) core.Outcome {
			f := formatByName(c.Format)
			data := corpusBy(c.Format, c.Corpus)
			want, wp := refRead(f, data)
			if wp != "" {
				return core.Failf("%s: undisturbed decode panicked: %s", c.Format, wp)
			}
			var n int
			rd := io.Reader(&sliceReader{data: data})
			if _, err := fmt.Sscanf(c.Delivery, "bytes-%d", &n); err == nil {
				rd = &fixedChunkReader{data: data, n: n}
			} else if _, err := fmt.Sscanf(c.Delivery, "chunks-%d", &n); err == nil {
				rd = &fixedChunkReader{data: data, n: n}
			}
			got, p := scribbleRead(c.Format, rd, len(want)+8)
			if p != "" {
				return core.Failf("%s on %s while the consumer overwrites every record it was handed: panic: %s", c.Format, c.Corpus, p)
			}
			if !sameShape(got, want) {
				return core.Failf("%s on %s (%s): a consumer that overwrites every record after looking at it sees %s; an undisturbed decode yields %s", c.Format, c.Corpus, c.Delivery, trunc(renderObs(got), 300), trunc(renderObs(want), 300))
			}
			// later readers: the same file and the first medium file, undisturbed
			for _, other := range []string{c.Corpus, "medium/0"} {
				d2 := corpusBy(c.Format, other)
				again, ap, _ := f.Read(&sliceReader{data: d2}, 1<<16)
				ref2, _ := refCached(f, other, d2)
				if ap != "" || !sameShape(again, ref2) {
					return core.Failf("%s: after a consumer overwrote the records of %s, an undisturbed decode of %s yields %s (panic %q), want %s", c.Format, c.Corpus, other, trunc(renderObs(again), 300), ap, trunc(renderObs(ref2), 300))
				}
			}
			return core.Outcome{Class: c.Delivery, Nontrivial: len(want) >= 2, Evals: 4}
		})
}
