package props

import (
	"encoding/json"
	"fmt"
	"os"
	"os/exec"
	"path/filepath"
	"runtime"
	"strings"
	"sync"
	"time"

	"verif/mc/engine/core"
	"verif/mc/engine/instr"
)

// Schedule exploration of concurrent At calls (engine E4 = instr + sched). The package regions is
// instrumented from the source the build uses NOW (a scheduling point before every statement, sync
// primitives replaced by scheduler-visible shims), cmd/schedc16 is built against it through -overlay,
// and 16 processes enumerate every schedule with at most 2 (quick) / 3 (thorough) preemptions of every
// scenario (index x goroutine programs). Unlike the free-running -race pass this DECIDES, within the
// bound, atomicity violations that are free of data races: state guarded by a lock or an atomic but
// updated in two steps, a shared scratch buffer handed over under a mutex, a lazily built cache.

type schedCase struct {
	Kind      string  `json:"kind"` // "shard" (aggregate of one worker process) or "schedule" (one failing execution)
	Shard     int     `json:"shard,omitempty"`
	Summary   any     `json:"summary,omitempty"`
	Starts    []int   `json:"starts,omitempty"`
	Ends      []int   `json:"ends,omitempty"`
	Starts2   []int   `json:"starts2,omitempty"`
	Ends2     []int   `json:"ends2,omitempty"`
	ScanFirst int     `json:"scan_first,omitempty"`
	Progs     [][]int `json:"progs,omitempty"`
	Schedule  []int   `json:"schedule,omitempty"`
}

type schedSummary struct {
	Scenarios      int      `json:"scenarios"`
	Executions     int      `json:"executions"`
	Preemptive     int      `json:"preemptive_executions"`
	MaxDecisions   int      `json:"max_decisions"`
	MaxPreemptions int      `json:"max_preemptions"`
	Bound          int      `json:"bound"`
	Capped         int      `json:"capped"`
	Unstable       int      `json:"unstable"`
	Classes        []string `json:"classes"`
	Complete       bool     `json:"complete"`
	Phase1         int      `json:"scenarios_completed_at_full_bound,omitempty"`
	Violations     []struct {
		Case struct {
			Starts    []int   `json:"starts"`
			Ends      []int   `json:"ends"`
			Starts2   []int   `json:"starts2"`
			Ends2     []int   `json:"ends2"`
			ScanFirst int     `json:"scan_first"`
			Progs     [][]int `json:"progs"`
			Schedule  []int   `json:"schedule"`
		} `json:"case"`
		Fail string `json:"fail"`
	} `json:"violations"`
}

// buildSched instruments pkgDir and builds cmd/<cmd> against it. The caller removes dir.
func buildSched(r *core.Run, pkgDir, cmd string) (bin, dir string, res *instr.Result, err error) {
	dir = filepath.Join(r.Root, ".scratch", fmt.Sprintf("sched.%d.%d", os.Getpid(), time.Now().UnixNano()))
	if err = os.MkdirAll(dir, 0o755); err != nil {
		return
	}
	user := map[string]string{}
	if ov := os.Getenv("VERIF_OVERLAY"); ov != "" {
		var o struct{ Replace map[string]string }
		b, e := os.ReadFile(ov)
		if e == nil {
			e = json.Unmarshal(b, &o)
		}
		if e != nil {
			err = fmt.Errorf("cannot read VERIF_OVERLAY: %v", e)
			return
		}
		user = o.Replace
	}
	resolve := func(p string) string {
		if q, ok := user[p]; ok {
			return q
		}
		return p
	}
	var extra []string
	for k := range user {
		extra = append(extra, k)
	}
	if res, err = instr.Package(pkgDir, resolve, extra, dir); err != nil {
		return
	}
	merged := map[string]string{}
	for k, v := range user {
		merged[k] = v
	}
	for k, v := range res.Overlay {
		merged[k] = v
	}
	b, _ := json.Marshal(map[string]any{"Replace": merged})
	ovPath := filepath.Join(dir, "overlay.json")
	if err = os.WriteFile(ovPath, b, 0o644); err != nil {
		return
	}
	sb, _ := json.Marshal(res.Sites)
	os.WriteFile(filepath.Join(dir, "sites.json"), sb, 0o644)
	os.Setenv("VERIF_SCHED_SITES", filepath.Join(dir, "sites.json"))
	bin = filepath.Join(dir, cmd)
	c := exec.Command("go", "build", "-tags", "verif,verifsched", "-overlay", ovPath, "-o", bin, "./cmd/"+cmd)
	c.Dir = filepath.Join(r.Root, "mc")
	if out, e := c.CombinedOutput(); e != nil {
		err = fmt.Errorf("go build of the instrumented package failed: %v\n%s", e, out)
	}
	return
}

func schedReplay(r *core.Run, c schedCase) core.Outcome {
	bin, dir, _, err := buildSched(r, "/repo/regions", "schedc16")
	defer os.RemoveAll(dir)
	if err != nil {
		r.HarnessError("%v", err)
		return core.OK("harness-error", false)
	}
	b, _ := json.Marshal(c)
	f := filepath.Join(dir, "case.json")
	os.WriteFile(f, b, 0o644)
	cmd := exec.Command(bin, "replay", f)
	cmd.Env = append(os.Environ(), "GOMAXPROCS=1")
	out, err := cmd.Output()
	var res struct{ Class, Fail, Schedule string }
	if err != nil || json.Unmarshal(out, &res) != nil {
		r.HarnessError("schedule replay failed: %v\n%s", err, out)
		return core.OK("harness-error", false)
	}
	if res.Fail != "" {
		return core.Failf("index 0: starts %v ends %v%s, goroutine programs %v: %s; schedule:%s", c.Starts, c.Ends, second(c.Starts2, c.Ends2), c.Progs, res.Fail, res.Schedule)
	}
	return core.OK(res.Class, true)
}

// c16Schedules reports whether a violating schedule was found.
func c16Schedules(r *core.Run) (violated bool) {
	bound := core.Pick(r, 2, 3)
	m := core.Begin(r, "schedules", core.Opts{
		Rule:   "E4: regions is instrumented at build time (a scheduling point before every statement, sync.Mutex/RWMutex/Once as scheduler-visible shims); 2-3 goroutines call At on one shared index (every index of <= 2/3 intervals over {0,1,2} x every assignment of positions {0,1,2} to the goroutines' calls), and 2 goroutines call At on TWO indexes alive at once (every ordered pair from 5/8 small indexes x every assignment of (index, position) to the calls that touches both), and 2-3 calls on indexes of 16, 17, 32, 33 and 64 disjoint intervals (positions first / middle / last / beyond) and on indexes whose one piece lists 16 .. 130 intervals, and write into what they get back; EVERY schedule with at most " + fmt.Sprint(bound) + " preemptions is executed; each answer must be the brute-force answer, no panic, no deadlock, and two sequential scans afterwards must be right. One case = one worker process (shard) or one failing schedule; evals = executions; non-trivial = shards that ran preemptive schedules",
		Bounds: fmt.Sprintf("preemption bound %d on the scenarios of the quick tier (indexes of <= 2 intervals, goroutine shapes {1,1},{2,1},{1,1,1}, two-index scenarios)%s; step budget 20000 per execution", bound, core.Pick(r, "", "; then bound 2 on indexes of <= 3 intervals and the shapes {2,2},{2,1,1}")),
	}, func(c schedCase) core.Outcome { return schedReplay(r, c) })
	if m == nil {
		return false
	}
	bin, dir, res, err := buildSched(r, "/repo/regions", "schedc16")
	defer os.RemoveAll(dir)
	if err != nil {
		r.HarnessError("%v", err)
		m.End(0, 0)
		return false
	}
	if len(res.Unsupported) > 0 {
		// goroutines or channels inside the library are not owned by this scheduler: say so, decide nothing here
		m.Incomplete("package regions uses constructs the cooperative scheduler does not own (" + strings.Join(res.Unsupported, "; ") + "): schedule exploration skipped, the free-running -race pass still runs")
		m.End(0, 0)
		return false
	}
	n := min(16, max(1, runtime.NumCPU()))
	secs := int(core.Pick(r, 75*time.Second, 25*time.Minute).Seconds())
	if v := os.Getenv("VERIF_SOFT_DEADLINE_S"); v != "" { // a shortened soft deadline shortens the shards' share of it
		var d int
		if fmt.Sscanf(v, "%d", &d); d > 0 && d/2 < secs {
			secs = max(10, d/2)
		}
	}
	var wg sync.WaitGroup
	sums := make([]schedSummary, n)
	errs := make([]string, n)
	for s := 0; s < n; s++ {
		wg.Add(1)
		go func(s int) {
			defer wg.Done()
			cmd := exec.Command(bin, "explore", r.Tier, fmt.Sprint(s), fmt.Sprint(n), fmt.Sprint(secs))
			cmd.Env = append(os.Environ(), "GOMAXPROCS=1")
			var stderr strings.Builder
			cmd.Stderr = &stderr
			out, err := cmd.Output()
			if err != nil {
				errs[s] = fmt.Sprintf("shard %d: %v\n%s", s, err, headTail(stderr.String(), 30, 10))
				return
			}
			if e := json.Unmarshal(out, &sums[s]); e != nil {
				errs[s] = fmt.Sprintf("shard %d: unreadable summary: %v", s, e)
			}
		}(s)
	}
	wg.Wait()
	var execs, scen, preemptive int64
	maxDec, maxPre := 0, 0
	for s := 0; s < n; s++ {
		if errs[s] != "" {
			// a worker that died is not a verdict about the library unless the crash is inside it
			if strings.Contains(errs[s], "/repo/regions") && strings.Contains(errs[s], "fatal error") {
				m.Record(int64(s), schedCase{Kind: "shard", Shard: s}, core.Failf("the schedule explorer died inside regions: %s", errs[s]))
			} else {
				r.HarnessError("schedule explorer: %s", errs[s])
			}
			continue
		}
		sm := sums[s]
		execs += int64(sm.Executions)
		scen += int64(sm.Scenarios)
		preemptive += int64(sm.Preemptive)
		maxDec, maxPre = max(maxDec, sm.MaxDecisions), max(maxPre, sm.MaxPreemptions)
		if !sm.Complete {
			m.Incomplete(fmt.Sprintf("shard %d stopped at its deadline after %d scenarios", s, sm.Scenarios))
		}
		if sm.Capped > 0 {
			m.Incomplete(fmt.Sprintf("shard %d: %d executions exceeded the step budget (a loop that waits for another goroutine without blocking)", s, sm.Capped))
		}
		if sm.Unstable > 0 {
			m.Incomplete(fmt.Sprintf("shard %d: %d failing schedules did not fail again when replayed (nondeterminism the scheduler does not own); not reported as violations", s, sm.Unstable))
		}
		light := sm
		light.Violations = nil
		m.Record(int64(s), schedCase{Kind: "shard", Shard: s, Summary: light},
			core.Outcome{Class: strings.Join(sm.Classes, ","), Nontrivial: sm.Preemptive > 0, Evals: max(1, sm.Executions)})
		violated = violated || len(sm.Violations) > 0
		for k, v := range sm.Violations {
			m.Record(int64(1000+s*10+k), schedCase{Kind: "schedule", Starts: v.Case.Starts, Ends: v.Case.Ends, Starts2: v.Case.Starts2, Ends2: v.Case.Ends2, ScanFirst: v.Case.ScanFirst, Progs: v.Case.Progs, Schedule: v.Case.Schedule},
				core.Failf("index 0: starts %v ends %v%s, goroutine programs %v (a call p asks position p%%1000 of index p/1000): %s", v.Case.Starts, v.Case.Ends, second(v.Case.Starts2, v.Case.Ends2), v.Case.Progs, v.Fail))
		}
	}
	r.Extra("schedules_executed", execs)
	r.Extra("schedule_scenarios", scen)
	r.Extra("schedules_with_at_least_one_preemption", preemptive) // distinct by construction: the DFS never repeats a choice sequence
	r.Extra("schedule_preemption_bound", bound)
	r.Extra("schedule_max_decisions_in_one_execution", maxDec)
	r.Extra("schedule_points_instrumented", len(res.Sites))
	r.Extra("schedule_sync_shims", res.SyncShims)
	m.End(0, 0)
	return violated
}

func second(s, e []int) string {
	if s == nil {
		return ""
	}
	return fmt.Sprintf("; index 1: starts %v ends %v", s, e)
}
