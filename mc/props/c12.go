package props

import (
	"bytes"
	"fmt"
	"strings"

	"github.com/fluhus/biostuff/sequtil"

	"verif/mc/engine/core"
	"verif/mc/engine/enum"
	"verif/mc/ref"
)

func init() { register("C12", "exploration", runC12) }

const dna10 = "aAcCgGtTnN"

// dstVariants builds the dst prefixes used by the append-style functions: nil, a one-byte slice
// with no spare capacity, and a 2-byte slice with 8 pre-filled spare bytes.
func dstVariants() [][]byte {
	spare := make([]byte, 10)
	for i := range spare {
		spare[i] = 0xEE
	}
	spare[0], spare[1] = 'p', 'q'
	return [][]byte{nil, []byte("x")[:1:1], spare[:2]}
}

type c12Seq struct {
	Seq core.S `json:"seq"`
	Dst int    `json:"dst_variant"`
}

type c12Byte struct {
	Byte int `json:"byte"`
	Pos  int `json:"pos"` // -1: alone; 0..3: inserted at this position of "ACG"
}

type c12Canon struct {
	Seq core.S `json:"seq"`
	K   int    `json:"k"`
}

func runC12(r *core.Run) {
	defer pairsInLongSequences(r, "ACGTTGCAacgtNNGTGGCCAATTacgtTGCA", []pairLongFn{
		{"ReverseComplement(nil, seq)", func(in []byte) []byte { return sequtil.ReverseComplement(nil, in) }, func(in []byte) ([]byte, bool) { return ref.RevComp(in) }},
	})
	defer srcWindows(r, "ACGTNacgtn", 4, []string{"ACGTTGCAACGTNNACGTacgtACGTTGCAACGTNNACGT", string(longSeq(300))}, []srcWindowFn{
		{"ReverseComplement(nil, seq)", func(in []byte) { sequtil.ReverseComplement(nil, in) }},
		{"ReverseComplement(dst with spare capacity, seq)", func(in []byte) { sequtil.ReverseComplement(make([]byte, 2, 64), in) }},
		{"CanonicalSubsequences(seq, 1) walked", func(in []byte) {
			for range sequtil.CanonicalSubsequences(in, 1) {
			}
		}},
		{"CanonicalSubsequences(seq, 3) walked", func(in []byte) {
			for range sequtil.CanonicalSubsequences(in, 3) {
			}
		}},
		{"CanonicalSubsequences(seq, 3) stopped after one item", func(in []byte) {
			for range sequtil.CanonicalSubsequences(in, 3) {
				break
			}
		}},
	})
	firstCallClause(r, "sequtil.ReverseComplement", "sequtil.CanonicalSubsequences")
	askedAgain(r, []againFunc{
		{"ReverseComplement", func(in []byte) string { return string(sequtil.ReverseComplement([]byte("x"), in)) }},
		{"ReverseComplementString", func(in []byte) string { return sequtil.ReverseComplementString(string(in)) }},
		{"CanonicalSubsequences(k=2)", func(in []byte) string {
			var out []byte
			for km := range sequtil.CanonicalSubsequences(in, 2) {
				out = append(append(out, km...), ' ')
			}
			return string(out)
		}},
	}, againInputs([]string{"ACG", "acgtnACGTN"}, "", "ACGTNacgtn", "NNNNnnnn"))
	racePass(r, "race-sequtil", "ReverseComplement(String), DNATo2Bit/From2Bit, Translate(ReadingFrames), CanonicalSubsequences, AminoName on one shared src")

	L := core.Pick(r, 4, 7)
	r.Bound("revcomp", fmt.Sprintf("all sequences over %s of length 0..%d x 3 dst variants", dna10, L))
	core.Clause(r, "revcomp", core.Opts{Rule: "every sequence over aAcCgGtTnN up to the length bound x dst in {nil, 1 byte cap 1, 2 bytes + 8 spare}; non-trivial = length >= 2"},
		func(emit func(c12Seq) bool) {
			enum.Strings(dna10, L, func(s string) bool {
				for d := 0; d < 3; d++ {
					if !emit(c12Seq{core.S(s), d}) {
						return false
					}
				}
				return true
			})
		},
		func(c c12Seq) core.Outcome {
			src := c.Seq.B()
			srcCopy := bytes.Clone(src)
			dst := dstVariants()[c.Dst]
			dstCopy := bytes.Clone(dst)
			want, _ := ref.RevComp(src)
			var got []byte
			var gotS string
			if p := catch(func() { got = sequtil.ReverseComplement(dst, src) }); p != "" {
				return core.Failf("ReverseComplement(%q) panicked: %s", src, p)
			}
			if !bytes.Equal(got, append(bytes.Clone(dstCopy), want...)) {
				return core.Failf("ReverseComplement(dst=%q, %q) = %q, want %q", dstCopy, src, got, append(dstCopy, want...))
			}
			if !bytes.Equal(src, srcCopy) {
				return core.Failf("src modified: %q -> %q", srcCopy, src)
			}
			if !bytes.Equal(dst, dstCopy) {
				return core.Failf("existing dst content modified: %q -> %q", dstCopy, dst)
			}
			// involution
			back := sequtil.ReverseComplement(nil, got[len(dstCopy):])
			if !bytes.Equal(back, srcCopy) {
				return core.Failf("revcomp twice: %q -> %q", srcCopy, back)
			}
			if p := catch(func() { gotS = sequtil.ReverseComplementString(string(src)) }); p != "" {
				return core.Failf("ReverseComplementString(%q) panicked: %s", src, p)
			}
			if gotS != string(want) {
				return core.Failf("ReverseComplementString(%q) = %q, want %q", src, gotS, want)
			}
			return core.Outcome{Class: fmt.Sprint("len", len(src)), Nontrivial: len(src) >= 2, Evals: 3}
		})

	core.Clause(r, "panic-boundary", core.Opts{Rule: "all 256 byte values, alone and at each position 0..3 of ACG; non-trivial = all"},
		func(emit func(c12Byte) bool) {
			for pos := -1; pos <= 3; pos++ {
				for b := 0; b < 256; b++ {
					if !emit(c12Byte{b, pos}) {
						return
					}
				}
			}
		},
		func(c c12Byte) core.Outcome {
			var src []byte
			if c.Pos < 0 {
				src = []byte{byte(c.Byte)}
			} else {
				src = append(append(append([]byte{}, "ACG"[:c.Pos]...), byte(c.Byte)), "ACG"[c.Pos:]...)
			}
			want, ok := ref.RevComp(src)
			var got []byte
			p1 := catch(func() { got = sequtil.ReverseComplement(nil, src) })
			var gotS string
			p2 := catch(func() { gotS = sequtil.ReverseComplementString(string(src)) })
			if ok {
				if p1 != "" || p2 != "" {
					return core.Failf("byte %#x is in the alphabet but panicked: %s %s", c.Byte, p1, p2)
				}
				if !bytes.Equal(got, want) || gotS != string(want) {
					return core.Failf("revcomp(%q) = %q / %q, want %q", src, got, gotS, want)
				}
				return core.OK("accepted", true)
			}
			if p1 == "" {
				return core.Failf("ReverseComplement(%q) did not panic (returned %q)", src, got)
			}
			if p2 == "" {
				return core.Failf("ReverseComplementString(%q) did not panic (returned %q)", src, gotS)
			}
			return core.Outcome{Class: "panics", Nontrivial: true, Evals: 2}
		})

	// The iterator is made over a buffer that the caller refills before walking it (one iterator per read
	// buffer is what the lazy form invites). Two readings are legitimate: the items describe the buffer
	// as it is when walked, or as it was when the iterator was made (a snapshot). A walk whose items are
	// canonical k-mers of NEITHER content mixes the two and is wrong under both.
	type c12Edit struct {
		Made   core.S `json:"content_when_made"`
		Walked core.S `json:"content_when_walked"`
		K      int    `json:"k"`
	}
	canonOf := func(seq []byte, k int) string {
		var w []string
		for i := 0; i+k <= len(seq); i++ {
			km := seq[i : i+k]
			if rc, _ := ref.RevComp(km); bytes.Compare(rc, km) < 0 {
				km = rc
			}
			w = append(w, string(km))
		}
		return strings.Join(w, ",")
	}
	core.Clause(r, "canonical-iterator-over-refilled-buffer", core.Opts{Rule: "CanonicalSubsequences(buf,k) is made while buf holds s1, buf is overwritten with s2 of the same length, the iterator is walked, buf gets s1 back, the iterator is walked again; every ordered pair of equal-length sequences over ACGT up to length 4 x k in 1..3; the first walk must be the canonical k-mers of s2 (lazy) or of s1 (snapshot), the second those of s1; non-trivial = s1 != s2 and at least one item"},
		func(emit func(c12Edit) bool) {
			enum.Strings("ACGT", 4, func(s1 string) bool {
				ok := true
				enum.Strings("ACGT", 4, func(s2 string) bool {
					if len(s2) != len(s1) {
						return true
					}
					for k := 1; k <= 3 && ok; k++ {
						ok = emit(c12Edit{core.S(s1), core.S(s2), k})
					}
					return ok
				})
				return ok
			})
		},
		func(c c12Edit) core.Outcome {
			buf := bytes.Clone(c.Made.B())
			walk := func(it func(func([]byte) bool)) string {
				var got []string
				for km := range it {
					got = append(got, string(km))
					if len(got) > len(buf)+3 {
						break
					}
				}
				return strings.Join(got, ",")
			}
			var first, second string
			if p := catch(func() {
				it := sequtil.CanonicalSubsequences(buf, c.K)
				copy(buf, c.Walked.B())
				first = walk(it)
				copy(buf, c.Made.B())
				second = walk(it)
			}); p != "" {
				return core.Failf("CanonicalSubsequences over a buffer holding %q, refilled with %q before the walk, k=%d: panic: %s", c.Made.B(), c.Walked.B(), c.K, p)
			}
			lazy, snap := canonOf(c.Walked.B(), c.K), canonOf(c.Made.B(), c.K)
			if first != lazy && first != snap {
				return core.Failf("CanonicalSubsequences(buf,%d) made while buf held %q and walked after buf was refilled with %q yields %q: neither the canonical k-mers of the buffer as walked (%q) nor as it was (%q)", c.K, c.Made.B(), c.Walked.B(), first, lazy, snap)
			}
			if second != snap {
				return core.Failf("CanonicalSubsequences(buf,%d): second walk with buf holding %q again yields %q, want %q", c.K, c.Made.B(), second, snap)
			}
			return core.Outcome{Class: map[bool]string{true: "lazy", false: "snapshot-or-same"}[first == lazy && lazy != snap], Nontrivial: !bytes.Equal(c.Made.B(), c.Walked.B()) && len(buf) >= c.K, Evals: 2}
		})

	core.Clause(r, "canonical-iterator-reuse", core.Opts{Rule: "one iter.Seq value from CanonicalSubsequences used as a history: run fully twice; run fully after an early break at every position; a full run nested inside another run at every position; every sequence over ACGT up to length 5 x k in 1..3; non-trivial = at least 2 items"},
		func(emit func(c12Canon) bool) {
			enum.Strings("ACGT", 5, func(s string) bool {
				for k := 1; k <= 3; k++ {
					if !emit(c12Canon{core.S(s), k}) {
						return false
					}
				}
				return true
			})
		},
		func(c c12Canon) core.Outcome {
			seq := c.Seq.B()
			var want []string
			for i := 0; i+c.K <= len(seq); i++ {
				km := seq[i : i+c.K]
				rc, _ := ref.RevComp(km)
				if bytes.Compare(rc, km) < 0 {
					km = rc
				}
				want = append(want, string(km))
			}
			it := sequtil.CanonicalSubsequences(seq, c.K)
			collect := func() []string {
				var got []string
				for km := range it {
					got = append(got, string(km))
					if len(got) > len(want)+3 {
						break
					}
				}
				return got
			}
			same := func(got []string) bool {
				return strings.Join(got, ",") == strings.Join(want, ",") && len(got) == len(want)
			}
			var fail string
			evals := 0
			p := catch(func() {
				for rep := 1; rep <= 2; rep++ {
					evals++
					if got := collect(); !same(got) {
						fail = fmt.Sprintf("run %d of the same iterator value yields %q, want %q", rep, got, want)
						return
					}
				}
				for stop := 1; stop <= len(want); stop++ {
					n := 0
					for range it {
						n++
						if n == stop {
							break
						}
					}
					evals += 2
					if got := collect(); !same(got) {
						fail = fmt.Sprintf("a full run after a run stopped at item %d yields %q, want %q", stop, got, want)
						return
					}
				}
				for at := 1; at <= len(want); at++ {
					var outer []string
					for km := range it {
						outer = append(outer, string(km))
						if len(outer) == at {
							evals++
							if got := collect(); !same(got) {
								fail = fmt.Sprintf("a run nested at item %d yields %q, want %q", at, got, want)
								return
							}
						}
						if len(outer) > len(want)+3 {
							break
						}
					}
					evals++
					if !same(outer) {
						fail = fmt.Sprintf("the outer run around a nested run at item %d yields %q, want %q", at, outer, want)
						return
					}
				}
			})
			if p != "" {
				return core.Failf("CanonicalSubsequences(%q,%d), iterator value reused: panic: %s", seq, c.K, p)
			}
			if fail != "" {
				return core.Failf("CanonicalSubsequences(%q,%d): %s", seq, c.K, fail)
			}
			return core.Outcome{Class: fmt.Sprint("items=", min(len(want), 3)), Nontrivial: len(want) >= 2, Evals: evals}
		})

	core.Clause(r, "panic-boundary-pairs", core.Opts{Rule: "all 65536 two-byte strings (this includes every well-formed 2-byte UTF-8 sequence), alone and between A and C, plus 3- and 4-byte UTF-8 sequences whose code point mod 256 is a base letter: ReverseComplement and ReverseComplementString agree and panic iff some BYTE is outside the alphabet; non-trivial = all"},
		func(emit func(c12Seq) bool) {
			for a := 0; a < 256; a++ {
				for b := 0; b < 256; b++ {
					if !emit(c12Seq{core.S([]byte{byte(a), byte(b)}), 0}) || !emit(c12Seq{core.S([]byte{'A', byte(a), byte(b), 'C'}), 0}) {
						return
					}
				}
			}
			for _, cp := range []rune{0x141, 0x167, 0x841, 0x1F441, 0x10041, 0x2028} {
				emit(c12Seq{core.S("AC" + string(cp) + "GT"), 0})
			}
		},
		func(c c12Seq) core.Outcome {
			src := c.Seq.B()
			want, ok := ref.RevComp(src)
			var got []byte
			var gotS string
			p1 := catch(func() { got = sequtil.ReverseComplement(nil, src) })
			p2 := catch(func() { gotS = sequtil.ReverseComplementString(string(src)) })
			if ok {
				if p1 != "" || p2 != "" || !bytes.Equal(got, want) || gotS != string(want) {
					return core.Failf("revcomp(%q): bytes variant %q (panic %q), string variant %q (panic %q), want %q", src, got, p1, gotS, p2, want)
				}
				return core.OK("accepted", true)
			}
			if p1 == "" {
				return core.Failf("ReverseComplement(%q) did not panic (returned %q)", src, got)
			}
			if p2 == "" {
				return core.Failf("ReverseComplementString(%q) did not panic (returned %q)", src, gotS)
			}
			return core.Outcome{Class: "panics", Nontrivial: true, Evals: 2}
		})

	bufferReuse(r, append(enum.AllStrings("ACGT", 3), "GATTACCA", "GATTGCCA", "acgtnNACGT", "TTTTTTTT", "GATTAC"), []string{"ReverseComplement", "ReverseComplementString", "CanonicalSubsequences k=1", "CanonicalSubsequences k=2", "CanonicalSubsequences k=3"},
		func(fn string, in []byte) string {
			switch fn {
			case "ReverseComplement":
				return string(sequtil.ReverseComplement(nil, in))
			case "ReverseComplementString":
				return sequtil.ReverseComplementString(string(in))
			}
			var k int
			fmt.Sscanf(fn, "CanonicalSubsequences k=%d", &k)
			var items []string
			for km := range sequtil.CanonicalSubsequences(in, k) {
				items = append(items, string(km))
			}
			return strings.Join(items, ",")
		})

	type kmerPair struct {
		A core.S `json:"seq_a"`
		B core.S `json:"seq_b"`
		K int    `json:"k"`
	}
	core.Clause(r, "two-kmer-iterators-interleaved", core.Opts{Rule: "two CanonicalSubsequences iterators over two different sequences alive at once on one goroutine: every interleaving of the pulls, either one abandoned at any point, a plain run of each afterwards; each yields exactly its own items; every ordered pair of sequences over ACGT up to length 3 plus 3 longer ones x k in 1..2; non-trivial = both yield at least one item"},
		func(emit func(kmerPair) bool) {
			seqs := append(enum.AllStrings("ACGT", 3)[1:], "GATTACA", "TTGCA", "ACGTN")
			for _, a := range seqs {
				for _, b := range seqs {
					if len(a)+len(b) > 9 {
						continue
					}
					for k := 1; k <= 2; k++ {
						if !emit(kmerPair{core.S(a), core.S(b), k}) {
							return
						}
					}
				}
			}
		},
		func(c kmerPair) core.Outcome {
			str := func(b []byte) string { return string(b) }
			return interleavedSeqs(fmt.Sprintf("CanonicalSubsequences(%q,%d) and (%q,%d)", c.A, c.K, c.B, c.K),
				asStrings1(sequtil.CanonicalSubsequences(c.A.B(), c.K), str), asStrings1(sequtil.CanonicalSubsequences(c.B.B(), c.K), str))
		})

	core.Clause(r, "dst-shares-memory-with-src", core.Opts{Rule: dstAliasRule},
		genDstAlias([]string{"", "A", "n", "AC", "AACTTGGGn", "acgtnNACGTTTgacN", "ACXG", "AC\x00"}),
		checkDstAlias("ReverseComplement", sequtil.ReverseComplement, ref.RevComp))

	core.Clause(r, "dst-contents", core.Opts{Rule: dstRule},
		genDstCases([]string{"", "A", "n", "AACTTGGGn", "acgtnNACGTTTgacN", "ACXG", "\x00", "AC\x00", "ACG\xff"}),
		checkDstContract("ReverseComplement", sequtil.ReverseComplement, ref.RevComp))

	checkRevLong := func(c c12Seq) core.Outcome {
		src := c.Seq.B()
		dst := dstVariants()[c.Dst]
		dstCopy := bytes.Clone(dst)
		want, _ := ref.RevComp(src)
		var got []byte
		var gotS string
		if p := catch(func() { got = sequtil.ReverseComplement(dst, src); gotS = sequtil.ReverseComplementString(string(src)) }); p != "" {
			return core.Failf("ReverseComplement of a sequence of length %d panicked: %s", len(src), p)
		}
		if !bytes.Equal(got, append(bytes.Clone(dstCopy), want...)) || gotS != string(want) || !bytes.Equal(src, c.Seq.B()) {
			return core.Failf("ReverseComplement of a sequence of length %d (dst variant %d) is wrong: %q...", len(src), c.Dst, trunc(string(got), 60))
		}
		return core.Outcome{Class: "ok", Nontrivial: true, Evals: 2}
	}
	core.Clause(r, "revcomp-long", core.Opts{Rule: "position-dependent sequences over the 10-letter alphabet of every length 0..300 and 1000, 4095..4097, 65535..65537 x 3 dst variants; non-trivial = all"},
		func(emit func(c12Seq) bool) {
			var lens []int
			for l := 5; l <= 300; l++ {
				lens = append(lens, l)
			}
			lens = append(lens, 1000, 4095, 4096, 4097, 65535, 65536, 65537)
			for _, l := range lens {
				b := make([]byte, l)
				for i := range b {
					b[i] = dna10[(i*7+i/10+l)%10]
				}
				for d := 0; d < 3; d++ {
					if !emit(c12Seq{core.S(b), d}) {
						return
					}
				}
			}
		},
		checkRevLong)

	// Runs of one letter (or of a letter and its complement) in mixed case: the complement of such a run
	// looks like the run itself, so "nothing to do here" is a tempting shortcut - but the CASE pattern is
	// reversed too. Every case pattern of every such run up to a length beyond any word or block size.
	RL := core.Pick(r, 12, 16)
	r.Bound("revcomp-runs", fmt.Sprintf("every string over {N,n}, over {A,t}, over {a,T}, over {C,g} and over {c,G} of length 1..%d, alone and between AC and GT; dst nil", RL))
	core.Clause(r, "revcomp-runs", core.Opts{Rule: "runs of a letter that is its own complement (N/n) or of a letter and the other case of its complement, in every case pattern: ReverseComplement and ReverseComplementString give the reversed, complemented, case-preserving copy; non-trivial = all"},
		func(emit func(c12Seq) bool) {
			for _, alpha := range []string{"Nn", "At", "aT", "Cg", "cG"} {
				for l := 1; l <= RL; l++ {
					for m := 0; m < 1<<l; m++ {
						b := make([]byte, l)
						for i := range b {
							b[i] = alpha[m>>i&1]
						}
						if !emit(c12Seq{core.S(b), 0}) || !emit(c12Seq{core.S("AC" + string(b) + "GT"), 0}) {
							return
						}
					}
				}
			}
		}, checkRevLong)

	core.Clause(r, "canonical-kmers-long", core.Opts{Rule: "position-dependent sequences of length 40, 67, 130 (upper, lower and N-containing) x every k in 1..70: count, each item vs reference, strand independence; non-trivial = at least 2 items"},
		func(emit func(c12Canon) bool) {
			for _, l := range []int{40, 67, 130} {
				for v := 0; v < 3; v++ {
					b := make([]byte, l)
					for i := range b {
						b[i] = "ACGTTGCAAGCTCCGA"[(i*5+i/16+i*i/7)%16]
						if v == 1 && i%3 == 1 {
							b[i] += 'a' - 'A'
						}
						if v == 2 && i%11 == 4 {
							b[i] = 'N'
						}
					}
					for k := 1; k <= 70; k++ {
						if !emit(c12Canon{core.S(b), k}) {
							return
						}
					}
				}
			}
		}, checkCanon)

	// Which of a k-mer and its reverse complement is smaller is decided at the first position where
	// the two differ. k-mers built so that this position is p, for every p up to the middle: the two
	// agree on their first p letters (the k-mer ends in the reverse complement of its beginning - a
	// stem-loop), then hold a given pair of letters. A comparison that looks at a prefix only, or takes
	// words at a time, or stops early, goes wrong for some p.
	KD := core.Pick(r, 40, 72)
	r.Bound("canonical-decisive-position", fmt.Sprintf("k in 1..%d x the deciding position p in 0..(k-1)/2 x every pair of letters from {A,C,G,T,N,a,t} at p and at its mirror position that makes the two strands differ there x 3 stems (aperiodic, poly-A, ACGT repeated) x 3 loop fillings (A, T, aperiodic); each k-mer alone and with two flanking bases on each side", KD))
	core.Clause(r, "canonical-decisive-position", core.Opts{Rule: "stem-loop k-mers whose comparison with their reverse complement is decided exactly at position p, for every p up to the middle of the k-mer: count, each item vs reference (bytewise comparison over the whole k-mer), strand independence; non-trivial = all"},
		func(emit func(c12Canon) bool) {
			ap := make([]byte, 80)
			x := uint64(0x2545F4914F6CDD1D)
			for i := range ap {
				x ^= x << 13
				x ^= x >> 7
				x ^= x << 17
				ap[i] = "ACGT"[x>>62]
			}
			letters := "ACGTNat"
			for k := 1; k <= KD; k++ {
				for p := 0; p <= (k-1)/2; p++ {
					for stem := 0; stem < 3; stem++ {
						for fill := 0; fill < 3; fill++ {
							for _, a := range []byte(letters) {
								for _, b := range []byte(letters) {
									km := make([]byte, k)
									for i := range km {
										km[i] = [][]byte{[]byte("A"), []byte("T"), ap[40:]}[fill][i%[]int{1, 1, 40}[fill]]
									}
									for i := 0; i < p; i++ {
										km[i] = [][]byte{ap, []byte("A"), []byte("ACGT")}[stem][i%[]int{40, 1, 4}[stem]]
									}
									if k-1-p != p {
										km[k-1-p] = b
									}
									km[p] = a
									head, _ := ref.RevComp(km[:p])
									copy(km[k-p:], head)
									rc, _ := ref.RevComp(km)
									if rc[p] == km[p] {
										continue // the strands agree at p: not decided there
									}
									if !emit(c12Canon{core.S(km), k}) || !emit(c12Canon{core.S("GA" + string(km) + "TC"), k}) {
										return
									}
								}
							}
						}
					}
				}
			}
		}, checkCanon)

	core.Clause(r, "canonical-kmers-very-long", core.Opts{Rule: "aperiodic sequences of 65535..65540, 65536+k and 131073 bases (upper case, mixed case) x k in {1, 2, 31}: exactly len-k+1 items, each the smaller of the window and its reverse complement; more than 65536 items per run, so every internal block size up to that is crossed; non-trivial = all"},
		func(emit func(c12Canon) bool) {
			for _, l := range []int{65535, 65536, 65537, 65538, 65540, 65567, 131073} {
				for v := 0; v < 2; v++ {
					b := make([]byte, l)
					x := uint64(0x9E3779B97F4A7C15) + uint64(l)
					for i := range b {
						x ^= x << 13
						x ^= x >> 7
						x ^= x << 17
						b[i] = "ACGT"[x>>62]
						if v == 1 && (x>>40)&3 == 0 {
							b[i] += 'a' - 'A'
						}
					}
					for _, k := range []int{1, 2, 31} {
						if !emit(c12Canon{core.S(b), k}) {
							return
						}
					}
				}
			}
		},
		func(c c12Canon) core.Outcome {
			seq := c.Seq.B()
			n := len(seq) - c.K + 1
			i := 0
			var fail string
			p := catch(func() {
				for km := range sequtil.CanonicalSubsequences(seq, c.K) {
					if i >= n {
						fail = fmt.Sprintf("more than %d items", n)
						return
					}
					w := seq[i : i+c.K]
					rc, _ := ref.RevComp(w)
					want := w
					if bytes.Compare(rc, w) < 0 {
						want = rc
					}
					if !bytes.Equal(km, want) {
						fail = fmt.Sprintf("item %d is %q, want %q", i, km, want)
						return
					}
					i++
				}
			})
			if p != "" {
				return core.Failf("CanonicalSubsequences on %d bases, k=%d: panic: %s", len(seq), c.K, p)
			}
			if fail == "" && i != n {
				fail = fmt.Sprintf("%d items, want %d", i, n)
			}
			if fail != "" {
				return core.Failf("CanonicalSubsequences on %d bases, k=%d: %s", len(seq), c.K, fail)
			}
			return core.Outcome{Class: fmt.Sprint("k=", c.K), Nontrivial: true}
		})

	LC := core.Pick(r, 6, 7)
	r.Bound("canonical", fmt.Sprintf("all sequences over ACGTNa of length 0..%d x k in 1..%d", LC, LC+1))
	core.Clause(r, "canonical-kmers", core.Opts{Rule: "every sequence over {A,C,G,T,N,a} up to the bound x every k in 1..bound+1; non-trivial = at least 2 items yielded"},
		func(emit func(c12Canon) bool) {
			enum.Strings("ACGTNa", LC, func(s string) bool {
				for k := 1; k <= LC+1; k++ {
					if !emit(c12Canon{core.S(s), k}) {
						return false
					}
				}
				return true
			})
		},
		checkCanon)
}

func checkCanon(c c12Canon) core.Outcome {
	seq := c.Seq.B()
	orig := bytes.Clone(seq)
	var items, kept [][]byte
	if p := catch(func() {
		for km := range sequtil.CanonicalSubsequences(seq, c.K) {
			items = append(items, bytes.Clone(km))
			kept = append(kept, km) // what slices.Collect keeps: the items themselves
		}
	}); p != "" {
		return core.Failf("CanonicalSubsequences(%q,%d) panicked: %s", seq, c.K, p)
	}
	// The items are what the walk yields, also when looked at after the walk (slices.Collect, a list
	// of k-mers handed on): item i must still be what it was when it was yielded.
	for i := range kept {
		if !bytes.Equal(kept[i], items[i]) {
			return core.Failf("CanonicalSubsequences(%q,%d): item %d was %q when yielded and is %q once the walk is over (the items collected by slices.Collect are not the k-mers)", seq, c.K, i, items[i], kept[i])
		}
	}
	n := len(seq) - c.K + 1
	if n < 0 {
		n = 0
	}
	if len(items) != n {
		return core.Failf("CanonicalSubsequences(%q,%d) yielded %d items, want %d", seq, c.K, len(items), n)
	}
	for i := 0; i < n; i++ {
		km := orig[i : i+c.K]
		rc, _ := ref.RevComp(km)
		want := km
		if bytes.Compare(rc, km) < 0 {
			want = rc
		}
		if !bytes.Equal(items[i], want) {
			return core.Failf("CanonicalSubsequences(%q,%d) item %d = %q, want %q", seq, c.K, i, items[i], want)
		}
	}
	if !bytes.Equal(seq, orig) {
		return core.Failf("seq modified")
	}
	// strand independence
	rcSeq, _ := ref.RevComp(orig)
	var items2 [][]byte
	for km := range sequtil.CanonicalSubsequences(rcSeq, c.K) {
		items2 = append(items2, bytes.Clone(km))
	}
	if len(items2) != n {
		return core.Failf("reverse strand yielded %d items, want %d", len(items2), n)
	}
	for i := 0; i < n; i++ {
		if !bytes.Equal(items2[n-1-i], items[i]) {
			return core.Failf("CanonicalSubsequences(%q,%d): reverse strand item %d = %q, forward item %d = %q", seq, c.K, n-1-i, items2[n-1-i], i, items[i])
		}
	}
	return core.Outcome{Class: fmt.Sprint("items", min(n, 3)), Nontrivial: n >= 2, Evals: 2}
}
