// Package enum holds the small-scope generators (engine E3): total enumeration of finite input
// spaces in a fixed, simplest-first order.
package enum

// Strings calls f for every string over alphabet of length 0..maxLen, shorter first, and in
// alphabet order within a length. f returning false stops the enumeration.
func Strings(alphabet string, maxLen int, f func(s string) bool) bool {
	buf := make([]byte, 0, maxLen)
	for l := 0; l <= maxLen; l++ {
		if !stringsLen(alphabet, l, buf, f) {
			return false
		}
	}
	return true
}

// StringsLen enumerates the strings of exactly length l.
func StringsLen(alphabet string, l int, f func(s string) bool) bool {
	return stringsLen(alphabet, l, make([]byte, 0, l), f)
}

func stringsLen(alphabet string, l int, buf []byte, f func(s string) bool) bool {
	if len(buf) == l {
		return f(string(buf))
	}
	for i := 0; i < len(alphabet); i++ {
		if !stringsLen(alphabet, l, append(buf, alphabet[i]), f) {
			return false
		}
	}
	return true
}

// AllStrings returns Σ^≤maxLen as a slice.
func AllStrings(alphabet string, maxLen int) []string {
	var out []string
	Strings(alphabet, maxLen, func(s string) bool { out = append(out, s); return true })
	return out
}

// Count returns |Σ^≤maxLen|.
func Count(alphabetSize, maxLen int) int64 {
	var n, p int64 = 0, 1
	for l := 0; l <= maxLen; l++ {
		n += p
		p *= int64(alphabetSize)
	}
	return n
}

// Compositions calls f with every composition of n (ordered list of positive parts summing to
// n); the single composition of 0 is the empty list.
func Compositions(n int, f func(parts []int) bool) bool {
	if n == 0 {
		return f(nil)
	}
	var rec func(rem int, acc []int) bool
	rec = func(rem int, acc []int) bool {
		if rem == 0 {
			return f(acc)
		}
		for p := rem; p >= 1; p-- { // largest first: the undivided layout is the default
			if !rec(rem-p, append(acc, p)) {
				return false
			}
		}
		return true
	}
	return rec(n, nil)
}

// Tuples calls f with every index tuple t with 0 <= t[i] < sizes[i].
func Tuples(sizes []int, f func(t []int) bool) bool {
	t := make([]int, len(sizes))
	for _, s := range sizes {
		if s == 0 {
			return true
		}
	}
	for {
		if !f(t) {
			return false
		}
		i := len(t) - 1
		for ; i >= 0; i-- {
			t[i]++
			if t[i] < sizes[i] {
				break
			}
			t[i] = 0
		}
		if i < 0 {
			return true
		}
	}
}

// Deviations enumerates deviation-bounded tuples: a tuple has len(menus) positions, each either
// at its default (-1) or at one of the menus[i] alternatives (index 0..menus[i]-1); every tuple
// with at most maxDev non-default positions is produced, fewer deviations first.
func Deviations(menus []int, maxDev int, f func(t []int) bool) bool {
	t := make([]int, len(menus))
	for i := range t {
		t[i] = -1
	}
	for d := 0; d <= maxDev && d <= len(menus); d++ {
		if !devRec(menus, t, 0, d, f) {
			return false
		}
	}
	return true
}

func devRec(menus, t []int, from, left int, f func(t []int) bool) bool {
	if left == 0 {
		return f(t)
	}
	for i := from; i <= len(menus)-left; i++ {
		for a := 0; a < menus[i]; a++ {
			t[i] = a
			if !devRec(menus, t, i+1, left-1, f) {
				t[i] = -1
				return false
			}
		}
		t[i] = -1
	}
	return true
}

// Subsets calls f with every subset of {0..n-1} of size <= maxSize (as ascending index lists),
// smaller first.
func Subsets(n, maxSize int, f func(idx []int) bool) bool {
	for k := 0; k <= maxSize && k <= n; k++ {
		idx := make([]int, 0, k)
		var rec func(from int) bool
		rec = func(from int) bool {
			if len(idx) == k {
				return f(idx)
			}
			for i := from; i < n; i++ {
				idx = append(idx, i)
				if !rec(i + 1) {
					return false
				}
				idx = idx[:len(idx)-1]
			}
			return true
		}
		if !rec(0) {
			return false
		}
	}
	return true
}

// Permutations calls f with every permutation of 0..n-1 (lexicographic order).
func Permutations(n int, f func(p []int) bool) bool {
	p := make([]int, n)
	used := make([]bool, n)
	var rec func(i int) bool
	rec = func(i int) bool {
		if i == n {
			return f(p)
		}
		for v := 0; v < n; v++ {
			if used[v] {
				continue
			}
			used[v] = true
			p[i] = v
			if !rec(i + 1) {
				return false
			}
			used[v] = false
		}
		return true
	}
	return rec(0)
}

// Sequences calls f with every sequence of length 0..maxLen over 0..n-1, shorter first.
func Sequences(n, maxLen int, f func(s []int) bool) bool {
	for l := 0; l <= maxLen; l++ {
		sizes := make([]int, l)
		for i := range sizes {
			sizes[i] = n
		}
		if l == 0 {
			if !f(nil) {
				return false
			}
			continue
		}
		if !Tuples(sizes, f) {
			return false
		}
	}
	return true
}

// Trees enumerates every ordered (plane) rooted tree with exactly n nodes, n >= 1, as a
// parenthesis-free shape code: the list of child counts in pre-order.
func Trees(n int, f func(childCounts []int) bool) bool {
	// A pre-order child-count sequence c[0..n-1] is valid iff sum(c) = n-1 and every proper
	// prefix satisfies sum(c[0..i]) >= i+1 (Łukasiewicz words).
	c := make([]int, n)
	var rec func(i, open int) bool // open = nodes still to be placed that already have a parent slot
	rec = func(i, sum int) bool {
		if i == n {
			return f(c)
		}
		rest := n - 1 - sum // children still to be handed out
		lo := 0
		if sum < i+1 && i < n-1 { // prefix condition: after node i, sum must be >= i+1
			lo = i + 1 - sum
		}
		for k := lo; k <= rest; k++ {
			if i == n-1 && k != rest {
				continue
			}
			c[i] = k
			if i < n-1 && sum+k < i+1 {
				continue
			}
			if !rec(i+1, sum+k) {
				return false
			}
		}
		return true
	}
	return rec(0, 0)
}

// TreesUpTo enumerates ordered trees with 1..maxNodes nodes.
func TreesUpTo(maxNodes int, f func(childCounts []int) bool) bool {
	for n := 1; n <= maxNodes; n++ {
		if !Trees(n, f) {
			return false
		}
	}
	return true
}

// Runes enumerates every Unicode scalar value in [lo, hi] (surrogates are skipped: they have no
// well-formed UTF-8 encoding), in ascending order.
func Runes(lo, hi rune, f func(r rune) bool) bool {
	for r := lo; r <= hi; r++ {
		if r >= 0xD800 && r <= 0xDFFF {
			continue
		}
		if !f(r) {
			return false
		}
	}
	return true
}
