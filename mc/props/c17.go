package props

import (
	"bytes"
	"fmt"
	"math"
	"slices"
	"strings"

	"github.com/fluhus/biostuff/mash"
	"github.com/fluhus/gostuff/minhash"

	"verif/mc/engine/bfs"
	"verif/mc/engine/core"
	"verif/mc/engine/enum"
	"verif/mc/ref"
)

func init() { register("C17", "model_checking", runC17) }

type c17Sketch struct {
	Seqs []core.S `json:"seqs"`
	K    int      `json:"k"`
	N    int      `json:"n"`
}

type c17Variant struct {
	Seqs []core.S `json:"seqs"`
	K    int      `json:"k"`
	N    int      `json:"n"`
}

type c17Hist struct {
	K    int      `json:"k"`
	N    int      `json:"n"`
	Hist []core.S `json:"added_so_far"`
	Op   core.S   `json:"add"`
}

type c17Pair struct {
	A []core.S `json:"a"`
	B []core.S `json:"b"`
	K int      `json:"k"`
	N int      `json:"n"`
}

type c17Jac struct {
	M int `json:"denominator"`
	K int `json:"k"`
}

func toBytes(s []core.S) [][]byte {
	out := make([][]byte, len(s))
	for i, x := range s {
		out[i] = x.B()
	}
	return out
}

func sketchOf(n, k int, seqs []core.S) (view []uint64, mh *minhash.MinHash[uint64], p string) {
	p = catch(func() {
		mh = mash.Sequences(n, k, toBytes(seqs)...)
		view = slices.Clone(mh.View())
	})
	return
}

func refSketch(n, k int, seqs []core.S) []uint64 {
	return ref.BottomN(ref.CanonicalKmerHashes(k, mash.Seed, toBytes(seqs)...), n)
}

func runC17(r *core.Run) {
	firstCallClause(r, "mash.")
	racePass(r, "race-C17", "Sequences and Distance on shared input sequences")

	ks := []int{1, 2, 3}
	ns := []int{1, 2, 3, 5, 8}
	r.Assume("murmur3 (github.com/spaolacci/murmur3 Sum64WithSeed) is trusted as the hash primitive; mash.Seed is left at its default and never written by the harness")
	L := core.Pick(r, 5, 6)
	r.Bound("single", fmt.Sprintf("every sequence over ACGT of length 0..%d, plus every sequence over {A,c,N,t} up to length 4; k in %v; n in %v", L, ks, ns))
	checkSketch := func(c c17Sketch) core.Outcome {
		orig := make([]core.S, len(c.Seqs))
		copy(orig, c.Seqs)
		in := toBytes(c.Seqs)
		var view []uint64
		if p := catch(func() { view = slices.Clone(mash.Sequences(c.N, c.K, in...).View()) }); p != "" {
			return core.Failf("Sequences(%d,%d,%q) panicked: %s", c.N, c.K, c.Seqs, p)
		}
		want := refSketch(c.N, c.K, c.Seqs)
		if !slices.Equal(view, want) {
			return core.Failf("Sequences(n=%d,k=%d,%q).View() = %v, want the %d smallest distinct canonical k-mer hashes in descending order %v", c.N, c.K, c.Seqs, view, c.N, want)
		}
		for i := range in {
			if string(in[i]) != string(orig[i]) {
				return core.Failf("Sequences modified its input %q -> %q", orig[i], in[i])
			}
		}
		return core.Outcome{Class: fmt.Sprint("size=", min(len(view), 3), " full=", len(view) == c.N), Nontrivial: len(want) >= 2}
	}
	core.Clause(r, "single-sequences", core.Opts{Rule: "View() of Sequences(n,k,seq) == bottom-n reference for every sequence x k x n; non-trivial = sketch holds at least 2 values"},
		func(emit func(c17Sketch) bool) {
			gen := func(s string) bool {
				for _, k := range ks {
					for _, n := range ns {
						if !emit(c17Sketch{[]core.S{core.S(s)}, k, n}) {
							return false
						}
					}
				}
				return true
			}
			if !enum.Strings("ACGT", L, gen) {
				return
			}
			enum.Strings("AcNt", 4, gen)
		}, checkSketch)

	core.Clause(r, "sequence-lists", core.Opts{Rule: "every list of 2 sequences over ACGT^<=3 and every list of 3 over ACGT^<=2 (thorough: 3 over ^<=3 with k=2) x k x n; non-trivial = sketch holds at least 2 values"},
		func(emit func(c17Sketch) bool) {
			s3 := enum.AllStrings("ACGT", 3)
			s2 := enum.AllStrings("ACGT", 2)
			for _, a := range s3 {
				for _, b := range s3 {
					for _, k := range ks {
						for _, n := range ns {
							if !emit(c17Sketch{core.SS(a, b), k, n}) {
								return
							}
						}
					}
				}
			}
			pool := s2
			if r.Thorough() {
				pool = s3
			}
			for _, a := range pool {
				for _, b := range pool {
					for _, c := range pool {
						for _, k := range core.Pick(r, ks, []int{2}) {
							for _, n := range core.Pick(r, []int{2, 5}, []int{3}) {
								if !emit(c17Sketch{core.SS(a, b, c), k, n}) {
									return
								}
							}
						}
					}
				}
			}
		}, checkSketch)

	// Many sequences in one call: a Sequences that treats a long argument list differently (worker shares,
	// batches, a pre-sized table) goes wrong only from some count on, and only for some remainders.
	type c17Many struct {
		Count int `json:"sequences"`
		K     int `json:"k"`
		N     int `json:"n"`
	}
	manyHi := core.Pick(r, 300, 1100)
	r.Bound("many-sequences", fmt.Sprintf("EVERY number of sequences 0..%d in one Sequences call (distinct 9-base sequences, position-dependent) x k in {3,9} x n in {4, 64, 100000}", manyHi))
	core.Clause(r, "many-sequences", core.Opts{Rule: "Sequences(n,k, s_1..s_c) for every count c of the range: View() == bottom-n reference == the same list in reverse order == the sketch built by c Add calls; non-trivial = c >= 2"},
		func(emit func(c17Many) bool) {
			for c := 0; c <= manyHi; c++ {
				for _, k := range []int{3, 9} {
					for _, n := range []int{4, 64, 100000} {
						if !emit(c17Many{c, k, n}) {
							return
						}
					}
				}
			}
		},
		func(c c17Many) core.Outcome {
			seqs := make([][]byte, c.Count)
			for i := range seqs {
				b := make([]byte, 9)
				x := i*2654435761 + 12345
				for j := range b {
					b[j] = "ACGT"[(x>>(2*j))&3]
				}
				seqs[i] = b
			}
			want := ref.BottomN(ref.CanonicalKmerHashes(c.K, mash.Seed, seqs...), c.N)
			var all, rev, inc []uint64
			if p := catch(func() {
				all = slices.Clone(mash.Sequences(c.N, c.K, seqs...).View())
				r2 := slices.Clone(seqs)
				slices.Reverse(r2)
				rev = slices.Clone(mash.Sequences(c.N, c.K, r2...).View())
				mh := mash.Sequences(c.N, c.K)
				for _, s := range seqs {
					mash.Add(mh, c.K, s)
				}
				inc = slices.Clone(mh.View())
			}); p != "" {
				return core.Failf("%d sequences, k=%d, n=%d: panic: %s", c.Count, c.K, c.N, p)
			}
			for _, v := range []struct {
				how string
				got []uint64
			}{{"Sequences on the whole list", all}, {"Sequences on the reversed list", rev}, {"one Add per sequence", inc}} {
				if !slices.Equal(v.got, want) {
					return core.Failf("%d sequences of 9 bases, k=%d, n=%d: %s gives a sketch of %d values that differs from the %d smallest distinct canonical k-mer hashes (first values %v, want %v)", c.Count, c.K, c.N, v.how, len(v.got), len(want), headU(v.got, 3), headU(want, 3))
				}
			}
			return core.Outcome{Class: fmt.Sprint("full=", len(want) == c.N), Nontrivial: c.Count >= 2, Evals: 3}
		})

	vpool := [][]string{{"ACGTA"}, {"AAC", "GTT"}, {"ACG", "T", "CCAT"}, {"GATTACA"}, {"AC", "CA", "AC"}, {"TTTT", "AAAA"}, {"ACGT", "TGCA", "N"}, {"CAGT", "AG"}}
	r.Bound("variants", fmt.Sprintf("%d base inputs %v x k in {1,2,3} x n in {2,3,8}: every subset of sequences reverse-complemented, every case mask of every sequence of length <= 4 (else 16 masks), every permutation, every partition of the list into successive calls (Adds onto minhash.New(n), onto an empty Sequences(n,k), and Sequences(n,k, first group) continued with Add), every n' < n", len(vpool), vpool))
	core.Clause(r, "variants", core.Opts{Rule: "for each base input every strand / case / order / partition variant is built on real sketches and must give the same View(); Add-built sketches must equal Sequences-built ones; a smaller sketch is the tail of a larger one; non-trivial = all"},
		func(emit func(c17Variant) bool) {
			for _, base := range vpool {
				for _, k := range ks {
					for _, n := range []int{2, 3, 8} {
						if !emit(c17Variant{core.SS(base...), k, n}) {
							return
						}
					}
				}
			}
		},
		func(c c17Variant) core.Outcome {
			want := refSketch(c.N, c.K, c.Seqs)
			evals := 0
			check := func(what string, seqs []core.S) string {
				evals++
				v, _, p := sketchOf(c.N, c.K, seqs)
				if p != "" {
					return fmt.Sprintf("%s %q panicked: %s", what, seqs, p)
				}
				if !slices.Equal(v, want) {
					return fmt.Sprintf("n=%d k=%d: %s variant %q gives %v but the original %q gives %v", c.N, c.K, what, seqs, v, c.Seqs, want)
				}
				return ""
			}
			if f := check("identity", c.Seqs); f != "" {
				return core.Failf("%s", f)
			}
			m := len(c.Seqs)
			// strand: every subset reverse-complemented
			for mask := 1; mask < 1<<m; mask++ {
				v := slices.Clone(c.Seqs)
				for i := range v {
					if mask>>i&1 == 1 {
						rc, _ := ref.RevComp(v[i].B())
						v[i] = core.S(rc)
					}
				}
				if f := check("strand", v); f != "" {
					return core.Failf("%s", f)
				}
			}
			// case: every mask per sequence (others unchanged)
			for i := range c.Seqs {
				l := len(c.Seqs[i])
				masks := 1 << l
				if l > 4 {
					masks = 16
				}
				for mask := 1; mask < masks; mask++ {
					v := slices.Clone(c.Seqs)
					b := v[i].B()
					for j := range b {
						if mask>>(j%4)&1 == 1 && (l <= 4 || j%4 == j%8) {
							b[j] = bytes.ToLower(b[j : j+1])[0]
						}
					}
					v[i] = core.S(b)
					if f := check("case", v); f != "" {
						return core.Failf("%s", f)
					}
				}
			}
			// order
			var fail string
			enum.Permutations(m, func(p []int) bool {
				v := make([]core.S, m)
				for i, x := range p {
					v[i] = c.Seqs[x]
				}
				fail = check("order", v)
				return fail == ""
			})
			if fail != "" {
				return core.Failf("%s", fail)
			}
			// partition into successive Add calls
			enum.Compositions(m, func(parts []int) bool {
				evals++
				var view []uint64
				// the sketch the Adds start from: minhash.New(n), an empty Sequences(n,k), or Sequences(n,k,
				// first group) followed by Add for the remaining groups
				for start := 0; start < 3 && fail == ""; start++ {
					p := catch(func() {
						var mh *minhash.MinHash[uint64]
						off, rest := 0, parts
						switch start {
						case 0:
							mh = minhash.New[uint64](c.N)
						case 1:
							mh = mash.Sequences(c.N, c.K)
						default:
							mh = mash.Sequences(c.N, c.K, toBytes(c.Seqs[:parts[0]])...)
							off, rest = parts[0], parts[1:]
						}
						for _, l := range rest {
							mash.Add(mh, c.K, toBytes(c.Seqs[off:off+l])...)
							off += l
						}
						view = slices.Clone(mh.View())
					})
					from := []string{"minhash.New(n)", "an empty Sequences(n,k)", "Sequences(n,k, first group)"}[start]
					if p != "" {
						fail = fmt.Sprintf("Add in groups %v starting from %s panicked: %s", parts, from, p)
					} else if !slices.Equal(view, want) {
						fail = fmt.Sprintf("n=%d k=%d: building %q incrementally in groups of %v, starting from %s and continuing with Add, gives %v, in one call %v", c.N, c.K, c.Seqs, parts, from, view, want)
					}
				}
				return fail == ""
			})
			if fail != "" {
				return core.Failf("%s", fail)
			}
			// tail
			for n2 := 1; n2 < c.N; n2++ {
				evals++
				v, _, p := sketchOf(n2, c.K, c.Seqs)
				if p != "" {
					return core.Failf("panic: %s", p)
				}
				if len(v) > len(want) || !slices.Equal(v, want[len(want)-len(v):]) || (len(want) >= n2 && len(v) != n2) {
					return core.Failf("k=%d: the sketch of size %d of %q is %v, not the tail of the sketch of size %d %v", c.K, n2, c.Seqs, v, c.N, want)
				}
			}
			return core.Outcome{Class: fmt.Sprint("seqs=", m), Nontrivial: true, Evals: evals}
		})

	type longCase struct {
		Len int `json:"len"`
		K   int `json:"k"`
		N   int `json:"n"`
	}
	core.Clause(r, "long-sequences", core.Opts{Rule: "position-dependent sequences (mixed case, some N) of 1000, 65535..65538 and 200000 bases x k in {1, 15, 21, 32} x n in {1, 100, 1000, 100000}, and of 2^20+5000 (thorough also 2^22+3, 2^24+3) bases x k in {15, 21} x n in {1000, twice the length (the sketch then holds every distinct k-mer)}: View() == bottom-n reference; the same sequence split into two Add calls at every listed cut gives the same sketch; non-trivial = all"},
		func(emit func(longCase) bool) {
			for _, l := range []int{1000, 65535, 65536, 65537, 65538, 200000} {
				for _, k := range []int{1, 15, 21, 32} {
					for _, n := range []int{1, 100, 1000, 100000} {
						if !emit(longCase{l, k, n}) {
							return
						}
					}
				}
			}
			// beyond 2^20 (thorough: 2^22, 2^24) bases in ONE sequence, with a sketch large enough to hold
			// every distinct k-mer: a k-mer lost at an internal chunk boundary cannot hide among the others
			for _, l := range core.Pick(r, []int{1<<20 + 5000}, []int{1<<20 + 5000, 1<<22 + 3, 1<<24 + 3}) {
				for _, k := range []int{15, 21} {
					if !emit(longCase{l, k, 2 * l}) || !emit(longCase{l, k, 1000}) {
						return
					}
				}
			}
		},
		func(c longCase) core.Outcome {
			seq := make([]byte, c.Len)
			x := uint64(0x9E3779B97F4A7C15) // fixed xorshift stream for the inputs above 60000 bases: the arithmetic pattern below is periodic (~56 k), and in a periodic sequence every k-mer occurs again elsewhere
			for i := range seq {
				seq[i] = "ACGTTGCAAGCTCCGATTAGGCAT"[(i*5+i/24+i*i/97)%24]
				if c.Len > 60000 {
					x ^= x << 13
					x ^= x >> 7
					x ^= x << 17
					seq[i] = "ACGT"[x>>62]
				}
				if i%17 == 3 {
					seq[i] += 'a' - 'A'
				}
				if i%4099 == 11 {
					seq[i] = 'N'
				}
			}
			want := ref.BottomN(ref.CanonicalKmerHashes(c.K, mash.Seed, seq), c.N)
			var view []uint64
			if p := catch(func() { view = slices.Clone(mash.Sequences(c.N, c.K, seq).View()) }); p != "" {
				return core.Failf("Sequences(n=%d,k=%d, %d bases) panicked: %s", c.N, c.K, c.Len, p)
			}
			if !slices.Equal(view, want) {
				return core.Failf("Sequences(n=%d,k=%d, %d bases): View() has %d values and differs from the bottom-n reference (%d values)", c.N, c.K, c.Len, len(view), len(want))
			}
			// two overlapping pieces that together contain every k-mer
			for _, cut := range []int{c.Len / 3, 65536, c.Len - 1} {
				if cut < c.K || cut >= c.Len {
					continue
				}
				mh := minhash.New[uint64](c.N)
				mash.Add(mh, c.K, seq[:cut])
				mash.Add(mh, c.K, seq[cut-c.K+1:])
				if !slices.Equal(mh.View(), want) {
					return core.Failf("n=%d k=%d: %d bases added in two overlapping pieces (cut %d) give a different sketch than in one call", c.N, c.K, c.Len, cut)
				}
			}
			return core.Outcome{Class: fmt.Sprint("full=", len(view) == c.N), Nontrivial: true, Evals: 4}
		})

	core.Clause(r, "interleaved-sketches", core.Opts{Rule: "two sketches built alternately (Add to one, then to the other, ...) from all ordered pairs of a pool of inputs must equal the sketches built separately: no state shared between sketches; non-trivial = all"},
		func(emit func(c17Pair) bool) {
			pool := [][]string{{"ACGTAC", "GGT"}, {"TTTTAAAACC"}, {"acgtnacgt", "CA", "G"}, {"GATTACAGATTACA", "TGTAATC"}, {""}, {"CCCCCCCC", "GGGG"}}
			for _, a := range pool {
				for _, b := range pool {
					for _, k := range ks {
						for _, n := range []int{1, 3, 8} {
							emit(c17Pair{core.SS(a...), core.SS(b...), k, n})
						}
					}
				}
			}
		},
		func(c c17Pair) core.Outcome {
			wa, wb := refSketch(c.N, c.K, c.A), refSketch(c.N, c.K, c.B)
			var va, vb []uint64
			if p := catch(func() {
				ma, mb := minhash.New[uint64](c.N), minhash.New[uint64](c.N)
				for i := 0; i < max(len(c.A), len(c.B)); i++ {
					if i < len(c.A) {
						mash.Add(ma, c.K, c.A[i].B())
					}
					if i < len(c.B) {
						mash.Add(mb, c.K, c.B[i].B())
					}
				}
				va, vb = slices.Clone(ma.View()), slices.Clone(mb.View())
			}); p != "" {
				return core.Failf("panic: %s", p)
			}
			if !slices.Equal(va, wa) || !slices.Equal(vb, wb) {
				return core.Failf("n=%d k=%d: sketches of %q and %q built alternately are %v and %v, separately %v and %v", c.N, c.K, c.A, c.B, va, vb, wa, wb)
			}
			return core.Outcome{Class: "ok", Nontrivial: true, Evals: 2}
		})

	// E2: history search over Add
	pool := []string{"AC", "CA", "GT", "AAA", "ACG", "CGT", "TTT", "GATC", "N", "acgt", "", "TGCA", "CCC", "GAG", "TAT", "ATC", "GGA", "CTA", "AGT", "TGG"}
	for _, kn := range [][2]int{{2, 2}, {2, 3}, {3, 3}, {3, 5}} {
		k, n := kn[0], kn[1]
		name := fmt.Sprintf("add-histories-k%d-n%d", k, n)
		step := func(c c17Hist) (string, core.Outcome) {
			var view []uint64
			p := catch(func() {
				mh := minhash.New[uint64](c.N)
				for _, s := range c.Hist {
					mash.Add(mh, c.K, s.B())
				}
				mash.Add(mh, c.K, c.Op.B())
				view = slices.Clone(mh.View())
			})
			if p != "" {
				return "", core.Failf("history %q then Add(%q) panicked: %s", c.Hist, c.Op, p)
			}
			all := append(slices.Clone(c.Hist), c.Op)
			want := refSketch(c.N, c.K, all)
			if !slices.Equal(view, want) {
				return "", core.Failf("n=%d k=%d: after Add of %q one by one View() = %v, the model (bottom-n of all canonical k-mers seen) says %v", c.N, c.K, all, view, want)
			}
			return fmt.Sprint(view), core.Outcome{Class: fmt.Sprint("size=", len(view)), Nontrivial: len(c.Hist) > 0}
		}
		m := core.Begin(r, name, core.Opts{Rule: "explicit-state BFS: state = View() of the real sketch (bottom-n(S+T) = bottom-n(bottom-n(S)+T), so equal views have equal futures), operations Add(s) for each pool sequence; every reachable sketch x every operation replayed on a fresh real sketch and compared with the model; non-trivial = non-empty history",
			Bounds: fmt.Sprintf("k=%d n=%d pool %q", k, n, pool)},
			func(c c17Hist) core.Outcome { _, o := step(c); return o })
		if m == nil {
			continue
		}
		toSeqs := func(h []int) []core.S {
			out := make([]core.S, len(h))
			for i, x := range h {
				out[i] = core.S(pool[x])
			}
			return out
		}
		stats := bfs.Search("[]", len(pool), func(hist []int, op int) bfs.Result {
			c := c17Hist{k, n, toSeqs(hist), core.S(pool[op])}
			key, out := step(c)
			m.Record(int64(len(hist))<<32|int64(op), c, out)
			return bfs.Result{Key: key, Fail: out.Fail, Obs: out.Class}
		}, nil, 0, r.Expired)
		if !stats.Complete && len(stats.Fails) == 0 {
			m.Incomplete("soft deadline")
		}
		r.Bound(name, fmt.Sprintf("states=%d transitions=%d max_depth=%d", stats.States, stats.Transitions, stats.MaxDepth))
		m.End(stats.States, stats.Transitions)
	}

	bufferReuse(r, append(enum.AllStrings("ACGT", 3), "GATTACCA", "GATTGCCA", "acgtnNACGT", "TTTTTTTT", "GATTAC"), []string{"Sequences n=2 k=2", "Sequences n=5 k=1", "Sequences n=3 k=3", "Add+Add n=4 k=2"},
		func(fn string, in []byte) string {
			var n, k int
			if _, err := fmt.Sscanf(fn, "Sequences n=%d k=%d", &n, &k); err == nil {
				return fmt.Sprint(mash.Sequences(n, k, in).View())
			}
			mh := mash.Sequences(4, 2)
			mash.Add(mh, 2, in)
			mash.Add(mh, 2, in)
			return fmt.Sprint(mh.View())
		})

	type memCase struct {
		A      core.S `json:"seq_a"`
		B      core.S `json:"seq_b"`
		Layout string `json:"layout"`
		N      int    `json:"n"`
		K      int    `json:"k"`
	}
	core.Clause(r, "caller-memory", core.Opts{Rule: "the two sequences passed to Sequences / Add are windows of ONE caller buffer (adjacent, with a gap, b before a, a with spare capacity that is b): the sketch equals the sketch of separately allocated copies and the buffer is unchanged; every ordered pair from a pool of 12 inputs x 4 layouts x (n,k) in {(3,2),(8,3),(2,1)}; non-trivial = both non-empty"},
		func(emit func(memCase) bool) {
			pool := []string{"", "A", "ACGT", "acgtn", "GATTACA", "TTTTTT", "ACGTACGTAC", "NNNN", "CCGG", "gattaca", "ACGTNACGT", "TGCATGCA"}
			for _, a := range pool {
				for _, b := range pool {
					for _, l := range []string{"adjacent", "gap", "b-before-a", "a-has-spare-capacity-holding-b"} {
						for _, nk := range [][2]int{{3, 2}, {8, 3}, {2, 1}} {
							if !emit(memCase{core.S(a), core.S(b), l, nk[0], nk[1]}) {
								return
							}
						}
					}
				}
			}
		},
		func(c memCase) core.Outcome {
			a0, b0 := c.A.B(), c.B.B()
			want := slices.Clone(mash.Sequences(c.N, c.K, slices.Clone(a0), slices.Clone(b0)).View())
			buf := make([]byte, 0, len(a0)+len(b0)+8)
			var a, b []byte
			switch c.Layout {
			case "adjacent":
				buf = append(append(buf, a0...), b0...)
				a, b = buf[:len(a0):len(a0)], buf[len(a0):]
			case "gap":
				buf = append(append(append(buf, a0...), '#', '#'), b0...)
				a, b = buf[:len(a0):len(a0)], buf[len(a0)+2:]
			case "b-before-a":
				buf = append(append(buf, b0...), a0...)
				b, a = buf[:len(b0):len(b0)], buf[len(b0):]
			default:
				buf = append(append(buf, a0...), b0...)
				a, b = buf[:len(a0)], buf[len(a0):] // cap(a) reaches over b
			}
			snapshot := slices.Clone(buf)
			var got, got2 []uint64
			if p := catch(func() {
				got = slices.Clone(mash.Sequences(c.N, c.K, a, b).View())
				mh := mash.Sequences(c.N, c.K)
				mash.Add(mh, c.K, a)
				mash.Add(mh, c.K, b)
				got2 = slices.Clone(mh.View())
			}); p != "" {
				return core.Failf("Sequences(%d,%d) on %q and %q laid out as %s: panic: %s", c.N, c.K, a0, b0, c.Layout, p)
			}
			if !slices.Equal(buf, snapshot) {
				return core.Failf("Sequences/Add(%d,%d) on %q and %q laid out as %s changed the caller's buffer: %q -> %q", c.N, c.K, a0, b0, c.Layout, snapshot, buf)
			}
			if !slices.Equal(got, want) || !slices.Equal(got2, want) {
				return core.Failf("Sequences(%d,%d) on %q and %q laid out as %s in one buffer = %v (Add, Add: %v), on separate copies %v", c.N, c.K, a0, b0, c.Layout, got, got2, want)
			}
			return core.Outcome{Class: c.Layout, Nontrivial: len(a0) > 0 && len(b0) > 0, Evals: 3}
		})

	// The sequences of one call are OVERLAPPING windows of one buffer (tiles of a genome, a read and its
	// trimmed form): same start and different ends, same end, nested, identical, crossing. They are only
	// read, so sharing memory must make no difference to what is sketched.
	type c17Win struct {
		Buf            core.S `json:"buffer"`
		I1, J1, I2, J2 int
		N, K           int
	}
	core.Clause(r, "overlapping-windows", core.Opts{Rule: "Sequences(n,k, buf[i1:j1], buf[i2:j2]) and the same two by Add, for EVERY ordered pair of windows (empty, identical, nested, same start, same end, crossing, disjoint) of 3 buffers of 9-10 bases x (n,k) in {(4,2),(50,3)}: the sketch equals the sketch of separately allocated copies, the buffer is unchanged; non-trivial = both windows non-empty and overlapping"},
		func(emit func(c17Win) bool) {
			for _, b := range []string{"ACGTTGCAAC", "GATTACAGG", "acgtNACGTT"} {
				for i1 := 0; i1 <= len(b); i1++ {
					for j1 := i1; j1 <= len(b); j1++ {
						for i2 := 0; i2 <= len(b); i2++ {
							for j2 := i2; j2 <= len(b); j2++ {
								for _, nk := range [][2]int{{4, 2}, {50, 3}} {
									if !emit(c17Win{core.S(b), i1, j1, i2, j2, nk[0], nk[1]}) {
										return
									}
								}
							}
						}
					}
				}
			}
		},
		func(c c17Win) core.Outcome {
			buf := bytes.Clone(c.Buf.B())
			w1, w2 := buf[c.I1:c.J1], buf[c.I2:c.J2]
			want := ref.BottomN(ref.CanonicalKmerHashes(c.K, mash.Seed, bytes.Clone(w1), bytes.Clone(w2)), c.N)
			var got, got2 []uint64
			if p := catch(func() {
				got = slices.Clone(mash.Sequences(c.N, c.K, w1, w2).View())
				mh := mash.Sequences(c.N, c.K)
				mash.Add(mh, c.K, w1, w2)
				got2 = slices.Clone(mh.View())
			}); p != "" {
				return core.Failf("Sequences(%d,%d) on the windows [%d:%d] and [%d:%d] of %q: panic: %s", c.N, c.K, c.I1, c.J1, c.I2, c.J2, c.Buf, p)
			}
			if !bytes.Equal(buf, c.Buf.B()) {
				return core.Failf("Sequences/Add on windows of %q changed the buffer to %q", c.Buf, buf)
			}
			if !slices.Equal(got, want) || !slices.Equal(got2, want) {
				return core.Failf("Sequences(%d,%d, buf[%d:%d], buf[%d:%d]) on buf = %q gives %d values (one Add of both: %d), separately allocated copies of %q and %q give %d", c.N, c.K, c.I1, c.J1, c.I2, c.J2, c.Buf, len(got), len(got2), w1, w2, len(want))
			}
			overlap := c.J1 > c.I1 && c.J2 > c.I2 && c.I1 < c.J2 && c.I2 < c.J1
			return core.Outcome{Class: fmt.Sprint("overlap=", overlap), Nontrivial: overlap, Evals: 2}
		})

	// Large k: two k-mers that differ in ONE base, at every position of the k-mer. An implementation that
	// identifies a k-mer by a packed word, a prefix, a suffix or a rolling value loses some position once k
	// exceeds what the word holds (k > 32 for 2 bits per base in 64 bits, k > 16 in 32 bits).
	type c17OneBase struct {
		K   int    `json:"k"`
		Pos int    `json:"differing_position"`
		X   string `json:"base_in_first"`
		Y   string `json:"base_in_second"`
	}
	oneBaseKs := []int{1, 2, 3, 5, 8, 15, 16, 17, 21, 31, 32, 33, 34, 47, 63, 64, 65, 70}
	if r.Thorough() {
		oneBaseKs = nil
		for k := 1; k <= 72; k++ {
			oneBaseKs = append(oneBaseKs, k)
		}
	}
	r.Bound("kmers-differing-in-one-base", fmt.Sprintf("k in %v x every position of the k-mer x the base pairs A/C, C/G, G/T, A/T, a/G; two sequences of length k (and of length k+3 with common flanks) over an aperiodic background that differ in that one base; n = 16", oneBaseKs))
	core.Clause(r, "kmers-differing-in-one-base", core.Opts{Rule: "two sequences that differ in exactly one base, at every position, for small and large k: Sequences on both together, in either order, and Sequences on one followed by Add of the other all hold exactly the bottom-n reference over the canonical k-mers of both (the two k-mers are different k-mers wherever they differ); non-trivial = all"},
		func(emit func(c17OneBase) bool) {
			for _, k := range oneBaseKs {
				for p := 0; p < k; p++ {
					for _, xy := range [][2]string{{"A", "C"}, {"C", "G"}, {"G", "T"}, {"A", "T"}, {"a", "G"}} {
						if !emit(c17OneBase{k, p, xy[0], xy[1]}) {
							return
						}
					}
				}
			}
		},
		func(c c17OneBase) core.Outcome {
			bg := make([]byte, c.K+3)
			x := uint64(0x9E3779B97F4A7C15) + uint64(c.K)
			for i := range bg {
				x ^= x << 13
				x ^= x >> 7
				x ^= x << 17
				bg[i] = "ACGT"[x>>62]
			}
			evals := 0
			for _, flank := range []int{0, 3} {
				s1, s2 := bytes.Clone(bg[:c.K+flank]), bytes.Clone(bg[:c.K+flank])
				s1[c.Pos+flank/2], s2[c.Pos+flank/2] = c.X[0], c.Y[0]
				a, b := core.S(s1), core.S(s2)
				want := refSketch(16, c.K, []core.S{a, b})
				for _, order := range [][]core.S{{a, b}, {b, a}} {
					got, _, p := sketchOf(16, c.K, order)
					evals++
					if p != "" || !slices.Equal(got, want) {
						return core.Failf("Sequences(16,%d,%q,%q) = %v (panic %q), want %v: the two inputs differ only at position %d", c.K, order[0], order[1], got, p, want, c.Pos+flank/2)
					}
					var inc []uint64
					p = catch(func() {
						mh := mash.Sequences(16, c.K, order[0].B())
						mash.Add(mh, c.K, order[1].B())
						inc = slices.Clone(mh.View())
					})
					evals += 2
					if p != "" || !slices.Equal(inc, want) {
						return core.Failf("Sequences(16,%d,%q) then Add(%q) = %v (panic %q), want %v", c.K, order[0], order[1], inc, p, want)
					}
				}
			}
			return core.Outcome{Class: fmt.Sprint("k>32=", c.K > 32, " k>16=", c.K > 16), Nontrivial: true, Evals: evals}
		})

	// Distance laws on all pairs of full sketches
	dpool := [][]string{{"ACGTAC"}, {"GTACGT"}, {"ACGTACGG"}, {"TTTTAAAACC"}, {"GGGGCCCC"}, {"ACGTTGCATG"}, {"CATGCAACGT"}, {"AAAAAAAA", "CC"}, {"GATTACAGATTACA"}, {"tgtaatctgtaatc"}, {"ACACACAC", "GTGTGTGT"}, {"CAGTCAGTNNACGT"}}
	distCheck := func(c c17Pair) core.Outcome {
		va, ma, p1 := sketchOf(c.N, c.K, c.A)
		vb, mb, p2 := sketchOf(c.N, c.K, c.B)
		if p1 != "" || p2 != "" {
			return core.Failf("panic: %s %s", p1, p2)
		}
		if len(va) != c.N || len(vb) != c.N {
			return core.Outcome{Skip: true} // not full: outside the statement
		}
		j := ref.SketchJaccard(va, vb)
		want := ref.MashFromJaccard(j, c.K)
		ka := ref.CanonicalKmerHashes(c.K, mash.Seed, toBytes(c.A)...)
		kb := ref.CanonicalKmerHashes(c.K, mash.Seed, toBytes(c.B)...)
		same := len(ka) == len(kb)
		for h := range ka {
			if _, ok := kb[h]; !ok {
				same = false
			}
		}
		// the two sketches in each representation a caller may hold: as returned (live) and as
		// the immutable sorted copy Frozen() gives (the form meant for all-vs-all distances)
		reps := []struct {
			name string
			x, y *minhash.MinHash[uint64]
		}{{"live,live", ma, mb}, {"frozen,frozen", ma.Frozen(), mb.Frozen()}, {"frozen,live", ma.Frozen(), mb}, {"live,frozen", ma, mb.Frozen()}}
		for _, rep := range reps {
			var d, d2, self float64
			if p := catch(func() {
				d = mash.Distance(rep.x, rep.y, c.K)
				d2 = mash.Distance(rep.y, rep.x, c.K)
				self = mash.Distance(rep.x, rep.x, c.K)
			}); p != "" {
				return core.Failf("Distance panicked on sorted full sketches (%s) of %q and %q: %s", rep.name, c.A, c.B, p)
			}
			if d != d2 {
				return core.Failf("(%s) Distance(%q,%q)=%v but Distance(%q,%q)=%v", rep.name, c.A, c.B, d, c.B, c.A, d2)
			}
			if !(d >= 0 && d <= 1) {
				return core.Failf("(%s) Distance(%q,%q,k=%d,n=%d) = %v outside [0,1]", rep.name, c.A, c.B, c.K, c.N, d)
			}
			if math.Abs(d-want) > 1e-12 {
				return core.Failf("(%s) Distance(%q,%q,k=%d,n=%d) = %v, want %v (shared fraction of the n smallest of the union j=%v)", rep.name, c.A, c.B, c.K, c.N, d, want, j)
			}
			if same && d != 0 {
				return core.Failf("(%s) Distance(%q,%q) = %v for identical k-mer content, want 0", rep.name, c.A, c.B, d)
			}
			if self != 0 {
				return core.Failf("(%s) Distance of the sketch of %q with itself (the same object passed twice) = %v, want 0", rep.name, c.A, self)
			}
		}
		if !slices.Equal(ma.View(), va) || !slices.Equal(mb.View(), vb) {
			return core.Failf("Distance modified a sketch")
		}
		return core.Outcome{Class: fmt.Sprintf("j=%.2f", j), Nontrivial: true, Evals: 12}
	}
	// Distance in the middle of a history: two sketch OBJECTS live on while sequences are added to them and
	// distances are asked in between. Distance is a function of what the sketches hold NOW; anything it
	// keeps per object (a sorted copy, a frozen form, the last result) must follow every Add.
	type c17DistHist struct {
		Ops []string `json:"ops"` // "a+<seq>", "b+<seq>", "d" (Distance(a,b)), "r" (Distance(b,a))
		K   int      `json:"k"`
		N   int      `json:"n"`
	}
	histSeqs := []string{"ACGTAC", "TTGCA", "GGGTCA", "CATCAT"}
	histDepth := core.Pick(r, 4, 5)
	r.Bound("distance-histories", fmt.Sprintf("two sketches that start full from ACGTTGCA and AACCGGTT; every sequence of 1..%d operations over {Add one of %v to a, the same to b, Distance(a,b), Distance(b,a)} x (k,n) in {(2,3),(3,4)}", histDepth, histSeqs))
	core.Clause(r, "distance-histories", core.Opts{Rule: "every operation sequence up to the depth on two live sketch objects; after EVERY Distance the value must equal (<=1e-12) the formula on the brute-force Jaccard of what the two sketches hold at that moment, and Distance of freshly built sketches of the same content; non-trivial = a Distance after an Add after a Distance"},
		func(emit func(c17DistHist) bool) {
			var ops []string
			for _, q := range histSeqs {
				ops = append(ops, "a+"+q, "b+"+q)
			}
			ops = append(ops, "d", "r")
			for _, kn := range [][2]int{{2, 3}, {3, 4}} {
				ok := enum.Sequences(len(ops), histDepth, func(sq []int) bool {
					if len(sq) == 0 || ops[sq[len(sq)-1]][0] != 'd' && ops[sq[len(sq)-1]][0] != 'r' {
						return true // histories that end in an Add are prefixes of longer ones
					}
					o := make([]string, len(sq))
					for i, x := range sq {
						o[i] = ops[x]
					}
					return emit(c17DistHist{o, kn[0], kn[1]})
				})
				if !ok {
					return
				}
			}
		},
		func(c c17DistHist) core.Outcome {
			contA, contB := [][]byte{[]byte("ACGTTGCA")}, [][]byte{[]byte("AACCGGTT")}
			var fail string
			evals, dists, interesting := 0, 0, false
			p := catch(func() {
				a, b := mash.Sequences(c.N, c.K, contA...), mash.Sequences(c.N, c.K, contB...)
				addedSince := false
				for step, op := range c.Ops {
					switch op[0] {
					case 'a':
						mash.Add(a, c.K, []byte(op[2:]))
						contA = append(contA, []byte(op[2:]))
						addedSince = dists > 0
					case 'b':
						mash.Add(b, c.K, []byte(op[2:]))
						contB = append(contB, []byte(op[2:]))
						addedSince = dists > 0
					default:
						var d float64
						if op == "d" {
							d = mash.Distance(a, b, c.K)
						} else {
							d = mash.Distance(b, a, c.K)
						}
						evals++
						dists++
						interesting = interesting || addedSince
						va := ref.BottomN(ref.CanonicalKmerHashes(c.K, mash.Seed, contA...), c.N)
						vb := ref.BottomN(ref.CanonicalKmerHashes(c.K, mash.Seed, contB...), c.N)
						if len(va) != c.N || len(vb) != c.N {
							continue // not full: outside the statement
						}
						want := ref.MashFromJaccard(ref.SketchJaccard(va, vb), c.K)
						fresh := mash.Distance(mash.Sequences(c.N, c.K, contA...), mash.Sequences(c.N, c.K, contB...), c.K)
						if math.Abs(d-want) > 1e-12 {
							fail = fmt.Sprintf("operation %d (%s) of %v (k=%d, n=%d): Distance = %v, want %v for what the two sketches hold now (freshly built sketches of the same content give %v)", step+1, op, c.Ops, c.K, c.N, d, want, fresh)
							return
						}
					}
				}
				if !slices.Equal(a.View(), ref.BottomN(ref.CanonicalKmerHashes(c.K, mash.Seed, contA...), c.N)) || !slices.Equal(b.View(), ref.BottomN(ref.CanonicalKmerHashes(c.K, mash.Seed, contB...), c.N)) {
					fail = fmt.Sprintf("after %v the sketches no longer hold the bottom-n of their content", c.Ops)
				}
			})
			if p != "" {
				return core.Failf("history %v (k=%d, n=%d): panic: %s", c.Ops, c.K, c.N, p)
			}
			if fail != "" {
				return core.Failf("%s", fail)
			}
			return core.Outcome{Class: fmt.Sprint("distances=", min(dists, 3)), Nontrivial: interesting, Evals: max(1, evals)}
		})

	core.Clause(r, "distance-laws", core.Opts{Rule: "all ordered pairs of inputs from a pool of 12 x k in {1,2,3} x every n in 1..14 (so that for each input some n is exactly its number of distinct k-mers: sketches that are full without ever having dropped a value); only pairs where both sketches are full: each pair as live sketches, as Frozen() copies and mixed, and each sketch with itself: Distance symmetric, within [0,1], 0 for identical k-mer content, equal (<=1e-12) to min(1,-ln(2j/(1+j))/k) with j computed by brute force from the two bottom-n sets (1 when j=0); non-trivial = all evaluated pairs"},
		func(emit func(c17Pair) bool) {
			for _, a := range dpool {
				for _, b := range dpool {
					for _, k := range ks {
						for n := 1; n <= 14; n++ {
							if !emit(c17Pair{core.SS(a...), core.SS(b...), k, n}) {
								return
							}
						}
					}
				}
			}
		},
		distCheck)
	core.Clause(r, "distance-exactly-full", core.Opts{Rule: "pairs of windows of one aperiodic sequence, each window holding EXACTLY n distinct k-mers (window length n+k-1), shifted against each other by 0..n: both sketches are full without ever having dropped a value, the overlap is partial; same oracle as distance-laws; k in {3, 7, 21} x n in {4, 10, 25}; non-trivial = all evaluated pairs"},
		func(emit func(c17Pair) bool) {
			base := make([]byte, 400)
			x := uint64(0x2545F4914F6CDD1D)
			for i := range base {
				x ^= x << 13
				x ^= x >> 7
				x ^= x << 17
				base[i] = "ACGT"[x>>62]
			}
			for _, k := range []int{3, 7, 21} {
				for _, n := range []int{4, 10, 25} {
					l := n + k - 1
					for start := 0; start <= 40; start += 20 {
						for shift := 0; shift <= n; shift++ {
							a, b := string(base[start:start+l]), string(base[start+shift:start+shift+l])
							if !emit(c17Pair{core.SS(a), core.SS(b), k, n}) {
								return
							}
						}
					}
				}
			}
		}, distCheck)

	core.Clause(r, "fromjaccard-grid", core.Opts{Rule: "complete grid j = i/m for m in 1..64, 0 <= i <= m, k in 1..32: FromJaccard within [0,1], equal to the formula, non-increasing in j along each row; non-trivial = all"},
		func(emit func(c17Jac) bool) {
			for m := 1; m <= 64; m++ {
				for k := 1; k <= 32; k++ {
					if !emit(c17Jac{m, k}) {
						return
					}
				}
			}
		},
		func(c c17Jac) core.Outcome {
			prev := math.Inf(1)
			for i := 0; i <= c.M; i++ {
				j := float64(i) / float64(c.M)
				d := mash.FromJaccard(j, c.K)
				if !(d >= 0 && d <= 1) {
					return core.Failf("FromJaccard(%v,%d) = %v outside [0,1]", j, c.K, d)
				}
				if want := ref.MashFromJaccard(j, c.K); math.Abs(d-want) > 1e-12 {
					return core.Failf("FromJaccard(%v,%d) = %v, want %v", j, c.K, d, want)
				}
				if d > prev {
					return core.Failf("FromJaccard is not non-increasing: FromJaccard(%d/%d,%d) = %v > FromJaccard(%d/%d,%d) = %v", i, c.M, c.K, d, i-1, c.M, c.K, prev)
				}
				prev = d
			}
			if mash.FromJaccard(1, c.K) != 0 {
				return core.Failf("FromJaccard(1,%d) = %v, want 0", c.K, mash.FromJaccard(1, c.K))
			}
			return core.Outcome{Class: "ok", Nontrivial: true, Evals: c.M + 1}
		})
	// "all Jaccard values in [0,1]": the grid above only has j >= 1/64. Every binary magnitude down to the
	// smallest subnormal, with its neighbours, against every k up to where the formula stops clamping.
	type jacMag struct {
		Exp int `json:"j_is_about_2_to_minus"`
		K   int `json:"k"`
	}
	jacKs := []int{}
	for k := 1; k <= 64; k++ {
		jacKs = append(jacKs, k)
	}
	jacKs = append(jacKs, 100, 745, 1000, 1<<20, math.MaxInt32)
	core.Clause(r, "fromjaccard-magnitudes", core.Opts{Rule: "j = m * 2^-e for every e in 0..1074 (down to the smallest subnormal) and m in {1, 1.5}, each with its two neighbouring float64 values, and 10^-e for e in 0..323, x k in 1..64 and {100, 745, 1000, 2^20, MaxInt32}: FromJaccard within [0,1], equal (<=1e-12) to min(1,-ln(2j/(1+j))/k) (1 only where the formula says so: j = 0 is the only special value), non-increasing as j grows; non-trivial = all",
		Bounds: "1075 binary exponents x 2 mantissas x 3 neighbours + 324 decimal exponents, 69 values of k"},
		func(emit func(jacMag) bool) {
			for e := 0; e <= 1074; e++ {
				for _, k := range jacKs {
					if !emit(jacMag{e, k}) {
						return
					}
				}
			}
		},
		func(c jacMag) core.Outcome {
			js := []float64{}
			for _, m := range []float64{1, 1.5} {
				j := math.Ldexp(m, -c.Exp)
				if j > 1 {
					continue
				}
				js = append(js, math.Nextafter(j, 0), j)
				if up := math.Nextafter(j, 2); up <= 1 {
					js = append(js, up)
				}
			}
			if c.Exp <= 323 {
				js = append(js, math.Pow(10, -float64(c.Exp)))
			}
			slices.Sort(js)
			prev := math.Inf(1)
			for _, j := range js {
				var d float64
				if p := catch(func() { d = mash.FromJaccard(j, c.K) }); p != "" {
					return core.Failf("FromJaccard(%v,%d) panicked: %s", j, c.K, p)
				}
				want := ref.MashFromJaccard(j, c.K)
				if !(d >= 0 && d <= 1) || math.Abs(d-want) > 1e-12 {
					return core.Failf("FromJaccard(%v,%d) = %v, want %v", j, c.K, d, want)
				}
				if d > prev {
					return core.Failf("FromJaccard(.,%d) is not non-increasing at j = %v: %v after %v", c.K, j, d, prev)
				}
				prev = d
			}
			cl := "clamped to 1"
			if prev < 1 {
				cl = "below 1"
			}
			return core.Outcome{Class: cl, Nontrivial: true, Evals: len(js)}
		})
	_ = strings.ToUpper
}

func headU(v []uint64, n int) []uint64 {
	if len(v) > n {
		return v[:n]
	}
	return v
}
