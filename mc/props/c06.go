package props

import (
	"bytes"
	"compress/gzip"
	"fmt"
	"io"
	"os"
	"path/filepath"
	"strings"

	"verif/mc/engine/choice"
	"verif/mc/engine/core"
	"verif/mc/engine/enum"
	"verif/mc/engine/envio"
)

func init() { register("C06", "exploration", runC06) }

// c06Case: one input of one format. Choices, when present, pins a single delivery schedule
// (used by replay files); otherwise every schedule within Bound is explored.
type c06Case struct {
	Format   string `json:"format"`
	Input    core.S `json:"input,omitempty"`
	Corpus   string `json:"corpus,omitempty"` // "<size>/<index>" instead of Input for long files
	AllSizes bool   `json:"all_read_sizes"`
	Bound    int    `json:"max_deviations"` // -1: unbounded (every partition)
	Choices  []int  `json:"choices,omitempty"`
}

func (c c06Case) data() []byte {
	if c.Corpus != "" {
		var size string
		var idx int
		fmt.Sscanf(strings.Replace(c.Corpus, "/", " ", 1), "%s %d", &size, &idx)
		return corpus(c.Format, size)[idx]
	}
	return c.Input.B()
}

// runSchedule executes one delivery schedule.
func runSchedule(f formatDef, data []byte, e *choice.Exec, allSizes bool) ([]obsItem, string, *envio.Reader) {
	rd := &envio.Reader{Data: data, E: e, AllSizes: allSizes}
	items, p, over := f.Read(rd, 1<<16)
	if over {
		p = "iterator did not end within 65536 items"
	}
	return items, p, rd
}

func checkC06(r *core.Run, c c06Case) core.Outcome {
	f := formatByName(c.Format)
	data := c.data()
	ref, rp := refRead(f, data)
	if rp != "" {
		// a panic on the plain reference run is C11's business; here only delivery-independence is judged
		ref = append(ref, obsItem{Err: "PANIC"})
	}
	compare := func(e *choice.Exec) (string, []int) {
		items, p, rd := runSchedule(f, data, e, c.AllSizes)
		if d, ok := asDivergence(p); ok {
			panic(d)
		}
		if p != "" {
			items = append(items, obsItem{Err: "PANIC"})
		}
		if !sameShape(items, ref) {
			return fmt.Sprintf("%s: input %q delivered in chunks %v (EOF with data: %v) decodes to %s, but in one piece to %s", c.Format, trunc(string(data), 120), rd.Sizes, eofWithData(e), trunc(renderObs(items), 300), trunc(renderObs(ref), 300)), e.Choices
		}
		return "", nil
	}
	if c.Choices != nil {
		fail, _ := compare(&choice.Exec{Prefix: c.Choices})
		if fail != "" {
			return core.Failf("%s", fail)
		}
		return core.OK("single schedule", true)
	}
	var fail string
	var failChoices []int
	st := choice.Explore(c.Bound, func(e *choice.Exec) {
		if fail != "" {
			return
		}
		if f2, ch := compare(e); f2 != "" {
			fail, failChoices = f2, append([]int(nil), ch...)
		}
	}, func(e *choice.Exec) bool { return fail == "" })
	if fail != "" {
		// Is decoding a function of the bytes at all? If the ONE-PIECE decode of the same bytes comes out
		// differently from one time to the next, the library - not the delivery, not the harness - is the
		// source: "the same sequence of records and errors" does not even hold for one delivery.
		if u := unstableDecode(f, data); u != "" {
			return core.Failf("%s", u)
		}
		// determinism gate: the same schedule must fail twice more, identically
		for i := 0; i < 2; i++ {
			again, _ := compare(&choice.Exec{Prefix: failChoices})
			if again != fail {
				r.HarnessError("C06: schedule %v of %s input %q failed once with %q and then with %q: nondeterminism in the harness", failChoices, c.Format, trunc(string(data), 80), fail, again)
				return core.Outcome{Class: "HARNESS nondeterministic"}
			}
		}
		rc := c
		rc.Choices = failChoices
		out := core.Failf("%s (choices %v)", fail, failChoices)
		out.ReplayCase = rc
		return out
	}
	cl := "all-agree"
	if len(ref) > 0 && ref[len(ref)-1].IsErr() {
		cl = "all-agree (decode ends in error)"
	} else if len(ref) == 0 {
		cl = "all-agree (no items)"
	}
	return core.Outcome{Class: cl, Nontrivial: len(data) >= 2, Evals: st.Executions}
}

func asDivergence(p string) (choice.Divergence, bool) {
	if strings.HasPrefix(p, "replay divergence: ") {
		return choice.Divergence{Msg: strings.TrimPrefix(p, "replay divergence: ")}, true
	}
	return choice.Divergence{}, false
}

func eofWithData(e *choice.Exec) bool {
	// the last point of a complete delivery has choice 1 when EOF came with the data
	n := len(e.Choices)
	return n > 0 && e.Choices[n-1] == 1 && e.Points[n-1].Arity >= 2
}

type c06CRLF struct {
	Format string `json:"format"`
	Size   string `json:"corpus_size"`
	Index  int    `json:"index"`
}

// c06Member: a .gz file of three gzip members; the first ends exactly at compressed offset End1 and the
// second exactly at End1+Gap (padding through the gzip header's extra field, which readers skip).
type c06Member struct {
	Format string `json:"format"`
	End1   int    `json:"first_member_ends_at"`
	Gap    int    `json:"second_member_length"`
}

// gzMemberOfSize compresses data into one gzip member of exactly size bytes (0: whatever it takes).
func gzMemberOfSize(data []byte, size int) ([]byte, bool) {
	build := func(extra int) []byte {
		var zb bytes.Buffer
		zw := gzip.NewWriter(&zb)
		if extra >= 0 {
			zw.Extra = bytes.Repeat([]byte{0}, extra) // RFC 1952 "extra field": skipped by every reader
		}
		zw.Write(data)
		zw.Close()
		return zb.Bytes()
	}
	base := build(-1)
	if size == 0 {
		return base, true
	}
	c := size - len(base) - 2 // an extra field of c bytes costs c+2 bytes
	if c < 1 || c > 65535 {
		return nil, false
	}
	out := build(c)
	return out, len(out) == size
}

type c06File struct {
	Format string `json:"format"`
	What   string `json:"content"` // empty | one | many | error | large | missing
	Gz     bool   `json:"gzip"`
}

func fileContent(format, what string) []byte {
	switch what {
	case "empty":
		return nil
	case "one":
		return corpus(format, "small")[0]
	case "many":
		return corpus(format, "medium")[0]
	case "large":
		return corpus(format, "large")[0]
	case "longline":
		return corpus(format, "longline")[0]
	case "gzip-magic": // arbitrary bytes that happen to begin like a gzip stream
		return append([]byte{0x1f, 0x8b, 0x08, 0x00, 0x00, 0x00, 0x00, 0x00, 0x00, 0xff, '\n'}, corpus(format, "small")[0]...)
	case "gzip-bytes": // the CONTENT is a gzip stream of valid text: under a plain name File must not decompress it, under .gz exactly once
		var zb bytes.Buffer
		zw := gzip.NewWriter(&zb)
		zw.Write(corpus(format, "medium")[0])
		zw.Close()
		return zb.Bytes()
	case "zstd-magic":
		return append([]byte{0x28, 0xb5, 0x2f, 0xfd, '\n'}, corpus(format, "small")[0]...)
	case "line-70KiB", "line-2MiB": // one very long line between ordinary records
		n := map[string]int{"line-70KiB": 70000, "line-2MiB": 2<<20 + 3}[what]
		long := string(longSeq(n))
		text := map[string]string{
			"fasta":  ">a\nAC\n>long\n" + long + "\n>b\nGT\n",
			"fastq":  "@a\nAC\n+\nII\n@long\n" + long + "\n+\n" + long + "\n@b\nG\n+\nI\n",
			"sam":    "@HD\tVN:1.6\nq0\t0\tr\t1\t9\t1M\t*\t0\t0\tA\tI\nlong\t0\tr\t1\t9\t*\t*\t0\t0\t" + long + "\t" + long + "\nq2\t0\tr\t1\t9\t1M\t*\t0\t0\tA\tI\n",
			"samh":   "@HD\tVN:1.6\n@CO\t" + long + "\nq2\t0\tr\t1\t9\t1M\t*\t0\t0\tA\tI\n",
			"bed":    "a\t0\t1\tn\nlong\t5\t6\t" + long + "\nb\t2\t3\tm\n",
			"newick": "(a,b);\n(" + long + ":1,c)r;\n(d);\n"}[format]
		return []byte(text)
	case "huge", "multimember": // ~300 KiB: many OS-level reads and several gzip blocks
		return bytes.Repeat(corpus(format, "large")[0], 32)
	case "error-middle": // a malformed record in the middle, well-formed ones after it
		bad := map[string]string{"fasta": ">a\nAC\n>b\nGT\n", "fastq": "@a\nA\n+\nI\n@b\nAC\n+\nI\n@c\nA\n+\nI\n",
			"sam":  "q0\t0\tr\t1\t9\t1M\t*\t0\t0\tA\tI\nq1\tx\tr\t1\t9\t1M\t*\t0\t0\tA\tI\nq2\t0\tr\t1\t9\t1M\t*\t0\t0\tA\tI\nshort\t1\n@CO\tlate header\nq3\t0\tr\t1\t9\t1M\t*\t0\t0\tA\tI\tXX:i:y\nq4\t0\tr\t1\t9\t1M\t*\t0\t0\tA\tI\n",
			"samh": "@h\nq0\t0\tr\t1\t9\t1M\t*\t0\t0\tA\tI\nq1\t1\n@h2\nq2\t0\tr\t1\t9\t1M\t*\t0\t0\tA\tI\n",
			"bed":  "a\t0\t1\nb\tx\t2\nc\t3\t4\n", "newick": "(a,b);(c;(d,e);"}[format]
		return []byte(bad)
	default:
		if n, ok := strings.CutPrefix(what, "long-lines-of-every-kind:"); ok {
			// every KIND of line the format has, made longer than the reader's buffers: header and comment
			// lines before and after the first record, name lines, '+' lines, quoted names
			var l int
			fmt.Sscan(n, &l)
			long := string(longSeq(l))
			aln := "q%d\t0\tr\t1\t9\t1M\t*\t0\t0\tA\tI\n"
			text := map[string]string{
				"fasta":  ">" + long + "\nAC\n>b " + long + "\n" + long + "\n>c\nGT\n",
				"fastq":  "@" + long + "\nAC\n+" + long + "\nII\n@b\nG\n+\nI\n",
				"sam":    "@HD\tVN:1.6\n@CO\t" + long + "\n@PG\tID:x\tCL:" + long + "\n" + fmt.Sprintf(aln, 0) + "@CO\tlate " + long + "\n" + fmt.Sprintf(aln, 1),
				"samh":   "@HD\tVN:1.6\n@CO\t" + long + "\n@PG\tID:x\tCL:" + long + "\n" + fmt.Sprintf(aln, 0) + "@CO\tlate " + long + "\n" + fmt.Sprintf(aln, 1),
				"bed":    long + "\t0\t1\tn\nb\t2\t3\t" + long + "\nc\t4\t5\tm\n",
				"newick": "('" + long + "':1,c)r;\n(d,'" + long + " " + long + "');\n(e);\n"}[format]
			return []byte(text)
		}
		if n, ok := strings.CutPrefix(what, "begins-with:"); ok {
			var i int
			fmt.Sscan(n, &i)
			return append(append([]byte(fileBeginnings[i]), '\n'), corpus(format, "small")[0]...)
		}
	case "error":
		bad := map[string]string{"fasta": "", "fastq": "@a\nA\n+\nI\n@b\nAC\n+\nI\n", "sam": "q\t0\tr\t1\t9\t1M\t*\t0\t0\tA\tI\nq\tx\n", "samh": "@h\nq\t1\n",
			"bed": "a\t0\t1\nb\tx\t2\n", "newick": "(a,b);(c"}[format]
		return []byte(bad)
	}
	return nil
}

// fileBeginnings: what a file may begin with that a sniffing opener could take for something else: the
// magic numbers of firstbytes.go and the ways in which two bytes 1f 8b may fail to be a gzip header.
var fileBeginnings = append(append([]string{}, magicNumbers...),
	"\x1f", "\x1f\x8b", "\x1f\x8b\x08", "\x1f\x8b\x07\x00\x00\x00\x00\x00\x00\xff", "\x1f\x8b\x08\xe0\x00\x00\x00\x00\x00\xff", "\x1f\x8b\x08\x00\x00\x00\x00\x00\x00\xff", "\x1f\x8b\x08\x08\x00\x00\x00\x00\x00\xffname-without-end", "\x1f\x8b\x08\x04\x00\x00\x00\x00\x00\xff\xff\xff")

func fileBeginningNames() []string {
	var out []string
	for i := range fileBeginnings {
		out = append(out, fmt.Sprint("begins-with:", i))
	}
	return out
}

// fixedChunkReader delivers at most n bytes per Read.
type fixedChunkReader struct {
	data []byte
	n    int
}

func (c *fixedChunkReader) Read(p []byte) (int, error) {
	if len(c.data) == 0 {
		return 0, io.EOF
	}
	k := min(len(p), c.n, len(c.data))
	copy(p, c.data[:k])
	c.data = c.data[k:]
	return k, nil
}

func runC06(r *core.Run) {
	strictErrTexts = true
	racePass(r, "race-formats", "all five codecs: readers each on their own stream (whole and in 7-byte reads, every corpus file), Write on shared records into separate destinations, File on one shared path; every result is compared with what the same call returned when it ran alone")
	L := core.Pick(r, 5, 7)
	r.Bound("all-schedules", fmt.Sprintf("every input over each format's token alphabet of length 0..%d plus the 12+ well-formed small corpus files in their LF and CRLF forms (up to 18 bytes) plus 20 inputs per format that begin, or whose first field begins, with a magic number (byte order marks whole and cut, gzip, zstd, bzip2, NUL, shebang) x EVERY partition of the stream into successive Read results x {EOF alone, EOF together with the last bytes}", L))
	r.Assume("the controlled reader never returns (0, nil); two error items are the same error if they stand in the same position and have the same text (on the pinned tree the text is a function of the bytes alone; a path-dependent text only arises for paths that cannot be opened, which are judged by position)")
	core.Clause(r, "all-inputs-all-schedules", core.Opts{Rule: "engine E1: for each input every delivery schedule is executed against the real decoder and compared with the one-piece reference decode; evaluations counts executions; non-trivial = input of at least 2 bytes"},
		func(emit func(c06Case) bool) {
			for _, f := range formats {
				ok := enum.Strings(f.Alphabet, L, func(s string) bool {
					return emit(c06Case{Format: f.Name, Input: core.S(s), AllSizes: true, Bound: -1})
				})
				if !ok {
					return
				}
				for _, d := range corpus(f.Name, "small") {
					crlf := bytes.ReplaceAll(bytes.ReplaceAll(d, []byte("\r\n"), []byte("\n")), []byte("\n"), []byte("\r\n"))
					for _, v := range [][]byte{d, crlf} {
						if len(v) > 18 {
							continue
						}
						if !emit(c06Case{Format: f.Name, Input: core.S(v), AllSizes: true, Bound: -1}) {
							return
						}
					}
				}
				// inputs that begin (or whose first field begins) with the magic numbers a reader might sniff:
				// byte order marks, gzip, zstd, bzip2, NUL, shebang. Sniffing must not depend on how many
				// bytes the first Read happens to return.
				shortest := map[string][2]string{"fasta": {">", "a\nAC\n"}, "fastq": {"@", "a\nA\n+\nI\n"}, "sam": {"", "q\t0\tr\t1\t9\t*\t*\t0\t0\tA\tI\n"}, "samh": {"@", "CO\tx\n"}, "bed": {"", "c\t0\t1\n"}, "newick": {"(", "a,b);"}}[f.Name]
				for _, magic := range []string{"\xef\xbb\xbf", "\xff\xfe", "\xfe\xff", "\x1f\x8b\x08", "\x28\xb5\x2f\xfd", "BZh", "\x00", "#!", "\xef\xbb", "\xef"} {
					for _, v := range []string{magic + shortest[0] + shortest[1], shortest[0] + magic + shortest[1]} {
						if len(v) > 12 {
							v = v[:12]
						}
						if !emit(c06Case{Format: f.Name, Input: core.S(v), AllSizes: true, Bound: -1}) {
							return
						}
					}
				}
			}
		}, func(c c06Case) core.Outcome { return checkC06(r, c) })

	// Lines with SEVERAL independent defects: which one is reported must not depend on anything but the
	// bytes (a decoder that walks a map of the fields reports a different one each time).
	r.Bound("several-defects-in-one-line", "per format 3-8 lines or trees with two or three independent defects (two malformed tags, two malformed numbers, a malformed number and a malformed tag, ...), alone and between two good records: 24 one-piece decodes of the same bytes must be identical, and every delivery schedule with <= 2 deviations must agree with them")
	core.Clause(r, "several-defects-in-one-line", core.Opts{Rule: "inputs whose one bad line has two or three independent defects; the one-piece decode repeated 24 times must be identical in items and error texts, then the bounded schedule exploration as in long-files-bounded; non-trivial = all"},
		func(emit func(c06Case) bool) {
			good := "q\t0\tr\t1\t9\t*\t*\t0\t0\tA\tI"
			multi := map[string][]string{
				"sam":    {good + "\tNM:i:x\tAS:f:y", good + "\tNM:i:x\tAS:f:y\tXH:H:zz\tXA:A:toolong", "q\tx\tr\ty\t9\t*\t*\t0\t0\tA\tI", "q\t0\tr\t1\tz\t*\t*\t0\t0\tA\tI\tNM:i:x", good + "\tNM\tAS:q:1\tZZ:i:", good + "\tNM:i:1\tNM:i:x\tAS:f:y"},
				"bed":    {"c\tx\ty", "c\t1\t2\tn\tx\t+\ty\tz", "c\t1\t2\tn\t0\t+\t1\t2\t1,x,3\t2\t1,y\t0,z", "c\t1\t2\tn\t0\t+\t1\t2\t300,1\t2\t1\t0,1,2"},
				"newick": {"(a:x,b:y);", "(a:1,b:y)c:z;", "((a:x)):y;"},
				"fastq":  {"@a\nAC\nx\nIII", "a\nAC\nx\nI"},
			}
			multi["samh"] = multi["sam"]
			for _, f := range formats {
				for _, bad := range multi[f.Name] {
					pre, post := "", ""
					switch f.Name {
					case "sam", "samh":
						pre, post = good+"\n", good+"\n"
					case "bed":
						pre, post = "c\t0\t1\n", ""
					case "newick":
						pre, post = "(a,b);\n", "(c,d);\n"
					case "fastq":
						pre = "@g\nA\n+\nI\n"
					}
					for _, v := range []string{bad + "\n", pre + bad + "\n" + post} {
						if !emit(c06Case{Format: f.Name, Input: core.S(v), AllSizes: false, Bound: 2}) {
							return
						}
					}
				}
			}
		}, func(c c06Case) core.Outcome {
			if u := unstableDecode(formatByName(c.Format), c.data()); u != "" {
				return core.Failf("%s", u)
			}
			return checkC06(r, c)
		})

	bound := core.Pick(r, 2, 3)
	r.Bound("long-files", fmt.Sprintf("every medium (40-200 byte) corpus file (LF form, and CRLF form with <= 2 deviations over all sizes) with <= %d deviations (short reads of every size / EOF with data, at any Read); the 15 placeholder-token files and the unsupported-syntax files with <= 2; the small SAM alignment files with <= 3; the ~9 KiB file and the long-line file (a line of 5000+ bytes, LF and CRLF) of every format with <= %d deviations over the size menu {1,2,3,half,max-1}", bound+1, bound))
	core.Clause(r, "long-files-bounded", core.Opts{Rule: "deviation-bounded exploration (iterated: 0, 1, .. bound deviations) of the Read schedule of longer well-formed files; non-trivial = all"},
		func(emit func(c06Case) bool) {
			for _, f := range formats {
				for i, d := range corpus(f.Name, "small") {
					if len(d) > 16 {
						emit(c06Case{Format: f.Name, Corpus: fmt.Sprint("small/", i), AllSizes: true, Bound: 3})
					}
					crlf := bytes.ReplaceAll(bytes.ReplaceAll(d, []byte("\r\n"), []byte("\n")), []byte("\n"), []byte("\r\n"))
					if len(crlf) > 18 {
						emit(c06Case{Format: f.Name, Input: core.S(crlf), AllSizes: true, Bound: 3})
					}
				}
				for _, d := range corpus(f.Name, "medium") {
					crlf := bytes.ReplaceAll(bytes.ReplaceAll(d, []byte("\r\n"), []byte("\n")), []byte("\n"), []byte("\r\n"))
					emit(c06Case{Format: f.Name, Input: core.S(crlf), AllSizes: true, Bound: 2})
				}
				for i := range corpus(f.Name, "medium") {
					emit(c06Case{Format: f.Name, Corpus: fmt.Sprint("medium/", i), AllSizes: true, Bound: min(bound, 2)})
					emit(c06Case{Format: f.Name, Corpus: fmt.Sprint("medium/", i), AllSizes: false, Bound: bound + 1})
				}
				for _, size := range []string{"vocab", "ext"} {
					for i := range corpus(f.Name, size) {
						emit(c06Case{Format: f.Name, Corpus: fmt.Sprint(size, "/", i), AllSizes: false, Bound: 2})
					}
				}
				emit(c06Case{Format: f.Name, Corpus: "large/0", AllSizes: false, Bound: bound})
				emit(c06Case{Format: f.Name, Corpus: "longline/0", AllSizes: false, Bound: bound})
				ll := corpus(f.Name, "longline")[0]
				emit(c06Case{Format: f.Name, Input: core.S(bytes.ReplaceAll(ll, []byte("\n"), []byte("\r\n"))), AllSizes: false, Bound: bound})
			}
		}, func(c c06Case) core.Outcome { return checkC06(r, c) })

	core.Clause(r, "crlf", core.Opts{Rule: "every well-formed corpus file (all sizes; fields free of CR) rewritten LF -> CRLF decodes to the same records; non-trivial = all"},
		func(emit func(c06CRLF) bool) {
			for _, f := range formats {
				for _, size := range []string{"small", "medium", "large", "longline"} {
					for i := range corpus(f.Name, size) {
						emit(c06CRLF{f.Name, size, i})
					}
				}
			}
		},
		func(c c06CRLF) core.Outcome {
			f := formatByName(c.Format)
			lf := corpus(c.Format, c.Size)[c.Index]
			if bytes.Contains(lf, []byte("\r")) {
				lf = bytes.ReplaceAll(lf, []byte("\r\n"), []byte("\n"))
			}
			crlf := bytes.ReplaceAll(lf, []byte("\n"), []byte("\r\n"))
			a, pa := refRead(f, lf)
			b, pb := refRead(f, crlf)
			if pa != "" || pb != "" {
				return core.Failf("%s: panic while decoding a well-formed file: %s %s", c.Format, pa, pb)
			}
			for _, it := range a {
				if it.IsErr() && c.Size != "small" {
					return core.Failf("%s: corpus file %s/%d is not well-formed: %s", c.Format, c.Size, c.Index, it.Err)
				}
			}
			if !sameShape(a, b) {
				return core.Failf("%s: %q decodes to %s with LF but to %s with CRLF", c.Format, trunc(string(lf), 200), trunc(renderObs(a), 300), trunc(renderObs(b), 300))
			}
			return core.Outcome{Class: "same", Nontrivial: true, Evals: 2}
		})

	type lineLen struct {
		Format  string `json:"format"`
		Variant int    `json:"variant"`
		Len     int    `json:"line_content_len"`
	}
	// lineOfLen: a well-formed LF file one of whose lines has exactly n content bytes
	lineOfLen := func(format string, variant, n int) (string, bool) {
		pad := func(k int) string {
			if k < 0 {
				return ""
			}
			return string(longSeq(k))
		}
		switch format + fmt.Sprint(variant) {
		case "fasta0":
			return ">a\nAC\n>" + pad(n-1) + "\nGG\n>b\nT\n", n >= 1
		case "fasta1":
			return ">a\nAC\n>long\n" + pad(n) + "\nGG\n>b\nT\n", true
		case "fastq0":
			return "@a\nA\n+\nI\n@long\n" + pad(n) + "\n+\n" + strings.Repeat("I", n) + "\n@b\nC\n+\nI\n", true
		case "fastq1":
			return "@a\nA\n+\nI\n@" + pad(n-1) + "\nAC\n+\nII\n@b\nC\n+\nI\n", n >= 1
		case "fastq2":
			return "@a\nA\n+\nI\n@l\nAC\n+" + pad(n-1) + "\nII\n@b\nC\n+\nI\n", n >= 1
		case "sam0", "samh0": // line ends in a Z tag
			base := "long\t0\tr\t1\t9\t1M\t*\t0\t0\tA\tI\tXZ:Z:"
			return "@HD\tVN:1.6\nq0\t0\tr\t1\t9\t1M\t*\t0\t0\tA\tI\n" + base + pad(n-len(base)) + "\nq2\t0\tr\t1\t9\t1M\t*\t0\t0\tA\tI\n", n >= len(base)
		case "sam1", "samh1": // line ends in an integer tag
			base := "long\t0\tr\t1\t9\t1M\t*\t0\t0\tA\tI\tXZ:Z:"
			tail := "\tNM:i:5"
			return "@HD\tVN:1.6\n" + base + pad(n-len(base)-len(tail)) + tail + "\nq2\t0\tr\t1\t9\t1M\t*\t0\t0\tA\tI\n", n >= len(base)+len(tail)
		case "sam2", "samh2": // line ends in Qual
			base := "long\t0\tr\t1\t9\t*\t*\t0\t0\t"
			k := n - len(base) - 1
			if k < 0 || k%2 != 0 {
				return "", false
			}
			return "q0\t0\tr\t1\t9\t1M\t*\t0\t0\tA\tI\n" + base + pad(k/2) + "\t" + strings.Repeat("J", k/2) + "\nq2\t0\tr\t1\t9\t1M\t*\t0\t0\tA\tI\n", true
		case "samh3": // a header line
			return "@CO\t" + pad(n-4) + "\nq2\t0\tr\t1\t9\t1M\t*\t0\t0\tA\tI\n", n >= 4
		case "bed0":
			return "a\t0\t1\tn\nc\t0\t1\t" + pad(n-6) + "\nb\t2\t3\tm\n", n >= 6
		case "bed1": // line ends in an integer field
			return "a\t0\t1\tn\t5\n" + pad(n-8) + "\t0\t1\tn\t7\nb\t2\t3\tm\t0\n", n >= 8
		case "newick0":
			return "(a,b);\n(" + pad(n-5) + ",c);\n(d);\n", n >= 5
		case "newick1": // line ends in a distance
			return "(a,b);\n(" + pad(n-9) + ",c):1.5;\n(d);\n", n >= 9
		}
		return "", false
	}
	r.Bound("crlf-line-lengths", fmt.Sprintf("per format 2..4 line kinds (name / sequence / plus / quality line, SAM line ending in a Z tag, an integer tag, Qual, a header line, BED ending in text / an integer, Newick ending in a name / a distance) x every line length 4080..4110, 8180..8200%s: the LF and the CRLF form decode to the same records, without error", core.Pick(r, "", ", 65520..65550")))
	core.Clause(r, "crlf-line-lengths", core.Opts{Rule: "CRLF at every position relative to the reader's internal buffers: for every line length around the buffer sizes the CR must be stripped (it must not end up in the last field, nor make an integer field unparsable); non-trivial = all"},
		func(emit func(lineLen) bool) {
			var ls []int
			for l := 4080; l <= 4110; l++ {
				ls = append(ls, l)
			}
			for l := 8180; l <= 8200; l++ {
				ls = append(ls, l)
			}
			if r.Thorough() {
				for l := 65520; l <= 65550; l++ {
					ls = append(ls, l)
				}
			}
			for _, f := range formats {
				for v := 0; v < 4; v++ {
					for _, l := range ls {
						if _, ok := lineOfLen(f.Name, v, l); ok {
							if !emit(lineLen{f.Name, v, l}) {
								return
							}
						}
					}
				}
			}
		},
		func(c lineLen) core.Outcome {
			f := formatByName(c.Format)
			lf, _ := lineOfLen(c.Format, c.Variant, c.Len)
			crlf := strings.ReplaceAll(lf, "\n", "\r\n")
			a, pa := refRead(f, []byte(lf))
			b, pb := refRead(f, []byte(crlf))
			if pa != "" || pb != "" {
				return core.Failf("%s: panic while decoding: %s %s", c.Format, pa, pb)
			}
			for _, it := range a {
				if it.IsErr() {
					return core.Failf("HARNESS: %s variant %d length %d is not well-formed with LF: %s", c.Format, c.Variant, c.Len, it.Err)
				}
			}
			if !sameShape(a, b) {
				return core.Failf("%s (line kind %d, line content of %d bytes): with LF it decodes to %s, with CRLF to %s", c.Format, c.Variant, c.Len, trunc(renderObs(a), 200), trunc(renderObs(b), 300))
			}
			return core.Outcome{Class: fmt.Sprint(c.Format, c.Variant), Nontrivial: true, Evals: 2}
		})

	scratch := filepath.Join(r.Root, ".scratch", fmt.Sprintf("c06-%d", os.Getpid()))
	os.MkdirAll(scratch, 0o755)
	defer os.RemoveAll(scratch)
	type crossCase struct {
		Format  string `json:"format"`
		Content string `json:"content"` // see fileContent
		CRLF    bool   `json:"crlf"`
		Entry   string `json:"entry"` // reader-whole | reader-1 | reader-7 | reader-4095 | reader-4096 | reader-4097 | file | file-gz | file-multigz
	}
	r.Bound("cross-product", "every combination of format x content {one, many, error-middle, large, longline, line-70KiB} x {LF, CRLF} x entry point / delivery {Reader in one piece, in reads of 1, 7, 4095, 4096, 4097 bytes, File plain, File .gz, File multi-member .gz}: all must decode like the LF content read in one piece")
	core.Clause(r, "cross-product", core.Opts{Rule: "the dimensions that the other clauses vary one at a time (content class, line terminator, entry point, read size, compression) taken together: complete product over small representative menus; non-trivial = all"},
		func(emit func(crossCase) bool) {
			for _, f := range formats {
				for _, content := range []string{"one", "many", "error-middle", "large", "longline", "line-70KiB"} {
					for _, crlf := range []bool{false, true} {
						for _, entry := range []string{"reader-whole", "reader-1", "reader-7", "reader-4095", "reader-4096", "reader-4097", "file", "file-gz", "file-multigz"} {
							if !emit(crossCase{f.Name, content, crlf, entry}) {
								return
							}
						}
					}
				}
			}
		},
		func(c crossCase) core.Outcome {
			f := formatByName(c.Format)
			lf := fileContent(c.Format, c.Content)
			lf = bytes.ReplaceAll(lf, []byte("\r\n"), []byte("\n"))
			data := lf
			if c.CRLF {
				data = bytes.ReplaceAll(lf, []byte("\n"), []byte("\r\n"))
			}
			want, wp := refRead(f, lf)
			if wp != "" {
				return core.Failf("%s: reference decode panicked: %s", c.Format, wp)
			}
			var got []obsItem
			var gp string
			var over bool
			if strings.HasPrefix(c.Entry, "reader-") {
				n := 0
				fmt.Sscanf(c.Entry, "reader-%d", &n)
				var rd io.Reader = bytes.NewReader(data)
				if n > 0 {
					rd = &fixedChunkReader{data: data, n: n}
				}
				got, gp, over = f.Read(rd, 1<<20)
			} else {
				name := fmt.Sprintf("x-%s-%s-%v.%s", c.Format, c.Content, c.CRLF, c.Format)
				var disk []byte
				switch c.Entry {
				case "file":
					disk = data
				case "file-gz":
					var zb bytes.Buffer
					zw := gzip.NewWriter(&zb)
					zw.Write(data)
					zw.Close()
					disk, name = zb.Bytes(), name+".gz"
				case "file-multigz":
					var zb bytes.Buffer
					for off := 0; off < len(data) || off == 0; off += 3001 {
						zw := gzip.NewWriter(&zb)
						zw.Write(data[off:min(off+3001, len(data))])
						zw.Close()
						if len(data) == 0 {
							break
						}
					}
					disk, name = zb.Bytes(), name+".multi.gz"
				}
				path := filepath.Join(scratch, name)
				if err := os.WriteFile(path, disk, 0o644); err != nil {
					return core.Outcome{Skip: true}
				}
				defer os.Remove(path)
				got, gp, over = f.File(path, 1<<20)
			}
			if gp != "" || over {
				return core.Failf("%s %s content=%s crlf=%v: panic/hang: %s", c.Format, c.Entry, c.Content, c.CRLF, gp)
			}
			if !sameShape(got, want) {
				return core.Failf("%s via %s, content %s, CRLF=%v (%d bytes) decodes to %s, but the LF content in one piece decodes to %s", c.Format, c.Entry, c.Content, c.CRLF, len(data), trunc(renderObs(got), 300), trunc(renderObs(want), 300))
			}
			return core.Outcome{Class: c.Entry, Nontrivial: true, Evals: 2}
		})

	interleavedReaders(r)

	lo, hi := core.Pick(r, 4000, 3000), core.Pick(r, 4200, 9000)
	r.Bound("gz-member-boundaries", fmt.Sprintf("three-member .gz files per format: the first member ends at every compressed offset %d..%d%s, the second is 4096 or 4097 bytes long (so a boundary at a multiple of 4096 is followed by another one / by none)", lo, hi, core.Pick(r, "", " and 65500..65600")))
	core.Clause(r, "gz-member-boundaries", core.Opts{Rule: "a .gz file is a series of gzip members (RFC 1952; what cat a.gz b.gz and bgzip produce): wherever the member boundaries fall in the compressed file, File(path) yields what Reader yields on the concatenated contents; non-trivial = all"},
		func(emit func(c06Member) bool) {
			for _, f := range formats {
				ends := []int{}
				for e := lo; e <= hi; e++ {
					ends = append(ends, e)
				}
				if r.Thorough() {
					for e := 65500; e <= 65600; e++ {
						ends = append(ends, e)
					}
				}
				for _, e := range ends {
					for _, gap := range []int{4096, 4097} {
						if !emit(c06Member{f.Name, e, gap}) {
							return
						}
					}
				}
			}
		},
		func(c c06Member) core.Outcome {
			f := formatByName(c.Format)
			sm := corpus(c.Format, "small")
			parts := [][]byte{sm[0], sm[1%len(sm)], sm[2%len(sm)]}
			m1, ok1 := gzMemberOfSize(parts[0], c.End1)
			m2, ok2 := gzMemberOfSize(parts[1], c.Gap)
			m3, _ := gzMemberOfSize(parts[2], 0)
			if !ok1 || !ok2 {
				return core.Outcome{Class: "HARNESS cannot build a member of that size", Skip: true}
			}
			disk := append(append(append([]byte{}, m1...), m2...), m3...)
			data := append(append(append([]byte{}, parts[0]...), parts[1]...), parts[2]...)
			path := filepath.Join(scratch, fmt.Sprintf("members-%s-%d-%d.gz", c.Format, c.End1, c.Gap))
			if err := os.WriteFile(path, disk, 0o644); err != nil {
				return core.Outcome{Class: "HARNESS cannot write scratch file", Skip: true}
			}
			defer os.Remove(path)
			want, wp := refRead(f, data)
			got, gp, over := f.File(path, 1<<20)
			if over {
				gp = "iterator did not end"
			}
			if wp != "" || gp != "" {
				return core.Failf("%s: panic: Reader %q File %q", c.Format, wp, gp)
			}
			if !sameShape(got, want) {
				return core.Failf("%s.File on a 3-member .gz (members end at compressed offsets %d, %d, %d) yields %s but Reader on the concatenated contents yields %s", c.Format, len(m1), len(m1)+len(m2), len(disk), trunc(renderObs(got), 300), trunc(renderObs(want), 300))
			}
			return core.Outcome{Class: fmt.Sprint("end1%4096=", min(c.End1%4096, 2), " items=", min(len(got), 2)), Nontrivial: true, Evals: 2}
		})

	core.Clause(r, "file-grid", core.Opts{Rule: "every format (SAM: File and FileHeader) x {plain, .gz written with compress/gzip} x content {empty file, one record, many records, a file whose decode ends in an error item, the 9 KiB file, the long-line file, a file with one line of 70 000 bytes, one with a line of 2 MiB, a ~300 KiB file, files that begin with the magic number of another file type or with a broken gzip header, files in which every kind of line the format has (header and comment lines before and after the first record, name lines, '+' lines, quoted names) is 4090, 5000 or 70 000 bytes long} plus a multi-member .gz: File(path) yields what Reader yields on the bytes; a missing path yields exactly one item, an error - also when its compressed or uncompressed twin, a backup, another compression or an upper-case twin exists next to it; names with a meaning for command-line tools or URL-aware openers (\"-\", the empty name, \"stdin\", \"~\", http:// and file:// URLs) are ordinary missing paths; how the path reaches the file plays no role (blanks and non-ASCII in it, a directory whose name ends in .gz, a symbolic link, a relative path, dot segments); non-trivial = all"},
		func(emit func(c06File) bool) {
			for _, f := range formats {
				for _, what := range append(append(fileBeginningNames(), "long-lines-of-every-kind:4090", "long-lines-of-every-kind:5000", "long-lines-of-every-kind:70000", "empty", "one", "many", "error", "error-middle", "large", "longline", "line-70KiB", "line-2MiB", "huge", "gzip-magic", "zstd-magic", "gzip-bytes", "missing", "missing-next-to-compressed-twin", "missing-next-to-plain-twin", "missing-next-to-backup", "missing-next-to-other-compression", "missing-next-to-upper-case-twin", "missing-special-name:-", "missing-special-name:", "missing-special-name:stdin", "missing-special-name:/dev/stdin/x", "missing-special-name:~", "missing-special-name:http://example.org/x.fa", "missing-special-name:file:///etc/hostname", "path:space-and-unicode", "path:dir-named-like-gz", "path:symlink", "path:relative", "path:dot-segments"), specialNameShapes()...) {
					for _, gz := range []bool{false, true} {
						emit(c06File{f.Name, what, gz})
					}
				}
				emit(c06File{f.Name, "multimember", true})
			}
		},
		func(c c06File) core.Outcome {
			f := formatByName(c.Format)
			name := fmt.Sprintf("%s-%s.%s", c.Format, c.What, map[string]string{"fasta": "fa", "fastq": "fq", "sam": "sam", "samh": "sam", "bed": "bed", "newick": "nwk"}[c.Format])
			if c.Gz {
				name += ".gz"
			}
			path := filepath.Join(scratch, name)
			if strings.HasPrefix(c.What, "missing-next-to-") {
				// the path asked for does not exist, but a close relative does: its compressed or
				// uncompressed twin, a backup, another compression. File must not read something else.
				base := filepath.Join(scratch, fmt.Sprintf("sib-%s-%s-%v.%s", c.Format, c.What, c.Gz, map[string]string{"fasta": "fa", "fastq": "fq", "sam": "sam", "samh": "sam", "bed": "bed", "newick": "nwk"}[c.Format]))
				content := corpus(c.Format, "medium")[0]
				var zb bytes.Buffer
				zw := gzip.NewWriter(&zb)
				zw.Write(content)
				zw.Close()
				ask := base
				var sibling string
				var sibData []byte
				switch strings.TrimPrefix(c.What, "missing-next-to-") {
				case "compressed-twin":
					sibling, sibData = base+".gz", zb.Bytes()
				case "plain-twin":
					ask, sibling, sibData = base+".gz", base, content
				case "backup":
					sibling, sibData = base+"~", content
				case "other-compression":
					sibling, sibData = base+".zst", content
				case "upper-case-twin":
					sibling, sibData = strings.ToUpper(base[len(scratch):]), content
					sibling = filepath.Join(scratch, sibling)
				}
				if err := os.WriteFile(sibling, sibData, 0o644); err != nil {
					return core.Outcome{Class: "HARNESS cannot write scratch file", Skip: true}
				}
				defer os.Remove(sibling)
				if _, err := os.Stat(ask); err == nil {
					return core.Outcome{Class: "HARNESS the path exists (case-insensitive file system?)", Skip: true}
				}
				items, p, _ := f.File(ask, 1000)
				if p != "" {
					return core.Failf("%s.File on a missing path panicked: %s", c.Format, p)
				}
				if len(items) != 1 || !items[0].IsErr() {
					return core.Failf("%s.File(%q): the path does not exist (only %q does) but File yields %s, want exactly one error item", c.Format, filepath.Base(ask), filepath.Base(sibling), trunc(renderObs(items), 300))
				}
				return core.OK(c.What, true)
			}
			if strings.HasPrefix(c.What, "missing-special-name:") {
				// names that mean something to command-line tools ("-" is standard input for samtools & co.);
				// for File they are ordinary paths, and these do not exist in the working directory
				ask := strings.TrimPrefix(c.What, "missing-special-name:")
				if c.Gz {
					ask += ".gz"
				}
				if _, err := os.Lstat(ask); err == nil || ask == ".gz" {
					return core.Outcome{Class: "HARNESS such a file exists in the working directory", Skip: true}
				}
				items, p, _ := f.File(ask, 1000)
				if p != "" {
					return core.Failf("%s.File(%q) panicked: %s", c.Format, ask, p)
				}
				if len(items) != 1 || !items[0].IsErr() {
					return core.Failf("%s.File(%q): there is no such file, but File yields %s, want exactly one error item", c.Format, ask, trunc(renderObs(items), 300))
				}
				return core.OK("missing special name", true)
			}
			if c.What == "missing" {
				path = filepath.Join(scratch, "no-such-dir", name)
				items, p, _ := f.File(path, 1000)
				if p != "" {
					return core.Failf("%s.File on a missing path panicked: %s", c.Format, p)
				}
				if len(items) != 1 || !items[0].IsErr() {
					return core.Failf("%s.File(%q) on a path that cannot be opened yields %s, want exactly one error item", c.Format, path, renderObs(items))
				}
				return core.OK("missing", true)
			}
			pathShape := ""
			if strings.HasPrefix(c.What, "path:") { // the content is the medium file; what varies is how the path reaches it
				pathShape = strings.TrimPrefix(c.What, "path:")
			}
			data := fileContent(c.Format, c.What)
			if pathShape != "" {
				data = corpus(c.Format, "medium")[0]
			}
			var disk []byte
			if c.Gz && c.What == "multimember" {
				// a gzip file made of several members (what `cat a.gz b.gz` or bgzip produce)
				var zb bytes.Buffer
				for off := 0; off < len(data); off += 70001 {
					zw := gzip.NewWriter(&zb)
					zw.Write(data[off:min(off+70001, len(data))])
					zw.Close()
				}
				disk = zb.Bytes()
			} else if c.Gz {
				var zb bytes.Buffer
				zw := gzip.NewWriter(&zb)
				zw.Write(data)
				zw.Close()
				disk = zb.Bytes()
			} else {
				disk = data
			}
			ext := filepath.Ext(strings.TrimSuffix(name, ".gz"))
			if c.Gz {
				ext += ".gz"
			}
			ask := path
			switch pathShape {
			case "space-and-unicode":
				path = filepath.Join(scratch, fmt.Sprintf("dir with space %s %v", c.Format, c.Gz), "données 日本 (1)"+ext)
				os.MkdirAll(filepath.Dir(path), 0o755)
				defer os.RemoveAll(filepath.Dir(path))
				ask = path
			case "dir-named-like-gz":
				path = filepath.Join(scratch, fmt.Sprintf("archive-%s-%v.gz", c.Format, c.Gz), "reads"+ext)
				os.MkdirAll(filepath.Dir(path), 0o755)
				defer os.RemoveAll(filepath.Dir(path))
				ask = path
			case "symlink":
				path = filepath.Join(scratch, fmt.Sprintf("target-%s-%v%s", c.Format, c.Gz, ext))
				ask = filepath.Join(scratch, fmt.Sprintf("link-%s-%v%s", c.Format, c.Gz, ext))
			case "relative":
				path = filepath.Join(scratch, fmt.Sprintf("rel-%s-%v%s", c.Format, c.Gz, ext))
				if cwd, err := os.Getwd(); err == nil {
					if rel, err := filepath.Rel(cwd, path); err == nil {
						ask = rel
					}
				}
			case "dot-segments-placeholder-never-used":
			}
			if strings.HasPrefix(pathShape, "special-name:") {
				// A file name is an opaque string: characters that mean something to a shell, to glob or URL
				// expansion, or to printf are ordinary name characters. The file stands in a directory of its
				// own next to decoys with OTHER content whose names the special name would select if it were
				// expanded as a pattern.
				var k int
				fmt.Sscanf(strings.TrimPrefix(pathShape, "special-name:"), "%d", &k)
				sn := specialNames[k]
				dir := filepath.Join(scratch, fmt.Sprintf("special-%s-%v-%d", c.Format, c.Gz, k))
				os.MkdirAll(dir, 0o755)
				defer os.RemoveAll(dir)
				decoy := corpus(c.Format, "small")[0]
				if c.Gz {
					var zb bytes.Buffer
					zw := gzip.NewWriter(&zb)
					zw.Write(decoy)
					zw.Close()
					decoy = zb.Bytes()
				}
				for _, d := range sn.decoys {
					os.WriteFile(filepath.Join(dir, d+ext), decoy, 0o644)
				}
				path = filepath.Join(dir, sn.name+ext)
				ask = path
			}
			switch pathShape {
			case "dot-segments":
				path = filepath.Join(scratch, fmt.Sprintf("dots-%s-%v%s", c.Format, c.Gz, ext))
				ask = scratch + "/./x/../" + filepath.Base(path)
				os.MkdirAll(filepath.Join(scratch, "x"), 0o755)
			}
			if err := os.WriteFile(path, disk, 0o644); err != nil {
				return core.Outcome{Class: "HARNESS cannot write scratch file", Skip: true}
			}
			defer os.Remove(path)
			if pathShape == "symlink" {
				os.Remove(ask)
				if err := os.Symlink(path, ask); err != nil {
					return core.Outcome{Class: "HARNESS cannot create a symlink", Skip: true}
				}
				defer os.Remove(ask)
			}
			want, wp := refRead(f, data)
			got, gp, over := f.File(ask, 1<<20)
			if over {
				gp = "iterator did not end"
			}
			if wp != "" || gp != "" {
				return core.Failf("%s: panic: Reader %q File %q", c.Format, wp, gp)
			}
			if pathShape != "" && !sameShape(got, want) {
				return core.Failf("%s.File(%q) (path shape: %s) yields %s but Reader on that file's bytes yields %s", c.Format, ask, pathShape, trunc(renderObs(got), 300), trunc(renderObs(want), 300))
			}
			if !sameShape(got, want) {
				return core.Failf("%s.File(%s) yields %s but Reader on the same %d bytes yields %s", c.Format, name, trunc(renderObs(got), 300), len(data), trunc(renderObs(want), 300))
			}
			return core.Outcome{Class: fmt.Sprint(c.What, " gz=", c.Gz, " items=", min(len(got), 2)), Nontrivial: true, Evals: 2}
		})

	// One File(path) value is an iter.Seq2 like any other: it may be ranged over again (a second pass
	// over the data, a retry after an early stop), and every walk is a walk over that file's bytes.
	type c06Walks struct {
		Format string `json:"format"`
		What   string `json:"content"`
		Gz     bool   `json:"gz"`
		First  int    `json:"first_walk_stops_after"` // 0: the first walk runs to the end
	}
	core.Clause(r, "file-iterator-walked-again", core.Opts{Rule: "ONE value returned by File(path) (SAM: File and FileHeader) walked three times - the first walk complete or stopped after 1 or 2 items, the second complete, the third complete after a second File(path) value for the same path was walked in between: every complete walk yields what Reader yields on the file's bytes, a stopped walk its leading items; plain and .gz; contents: one record, many records, a decode ending in an error item, the 9 KiB file, a missing path; non-trivial = all"},
		func(emit func(c06Walks) bool) {
			for _, f := range formats {
				for _, what := range []string{"one", "many", "error", "large", "missing"} {
					for _, gz := range []bool{false, true} {
						for first := 0; first <= 2; first++ {
							if !emit(c06Walks{f.Name, what, gz, first}) {
								return
							}
						}
					}
				}
			}
		},
		func(c c06Walks) core.Outcome {
			f := formatByName(c.Format)
			name := fmt.Sprintf("walks-%s-%s-%d.txt", c.Format, c.What, c.First)
			if c.Gz {
				name += ".gz"
			}
			path := filepath.Join(scratch, name)
			var want []obsItem
			if c.What != "missing" {
				data := fileContent(c.Format, c.What)
				disk := data
				if c.Gz {
					var zb bytes.Buffer
					zw := gzip.NewWriter(&zb)
					zw.Write(data)
					zw.Close()
					disk = zb.Bytes()
				}
				if err := os.WriteFile(path, disk, 0o644); err != nil {
					return core.Outcome{Class: "HARNESS cannot write scratch file", Skip: true}
				}
				defer os.Remove(path)
				var wp string
				if want, wp = refRead(f, data); wp != "" {
					return core.Failf("%s: Reader panicked: %s", c.Format, wp)
				}
			}
			walk, other := fileWalker(c.Format, path), fileWalker(c.Format, path)
			check := func(n int, got []obsItem, p string, stopped int) string {
				if p != "" {
					return fmt.Sprintf("walk %d panicked: %s", n, p)
				}
				if c.What == "missing" {
					if len(got) != 1 || !got[0].IsErr() {
						return fmt.Sprintf("walk %d over a missing path yields %s, want exactly one error item", n, trunc(renderObs(got), 200))
					}
					return ""
				}
				w := want
				if stopped > 0 && stopped < len(w) {
					w = w[:stopped]
				}
				if !sameShape(got, w) {
					return fmt.Sprintf("walk %d (stopped after %d; 0 = complete) yields %s but Reader on the file's bytes yields %s", n, stopped, trunc(renderObs(got), 300), trunc(renderObs(w), 300))
				}
				return ""
			}
			horizon := 1 << 20
			if c.First > 0 {
				horizon = c.First
			}
			g1, p1, _ := walk(horizon)
			g2, p2, _ := walk(1 << 20)
			o1, op, _ := other(1 << 20)
			g3, p3, _ := walk(1 << 20)
			for i, e := range []string{check(1, g1, p1, c.First), check(2, g2, p2, 0), check(0, o1, op, 0), check(3, g3, p3, 0)} {
				if e != "" {
					return core.Failf("%s.File(%s), one iterator value walked repeatedly (step %d): %s", c.Format, name, i+1, e)
				}
			}
			return core.Outcome{Class: fmt.Sprint(c.What, " gz=", c.Gz, " first=", c.First), Nontrivial: true, Evals: 5}
		})
}

// specialNames: file names made of characters that some expansion facility gives a meaning to, each
// with decoy siblings that the expansion would pick up.
var specialNames = []struct {
	name   string
	decoys []string
}{
	{"sample[1]", []string{"sample1"}},
	{"lane*", []string{"lane1", "lane2", "lane"}},
	{"what?", []string{"whatX", "what"}},
	{"run[2024", []string{"run2"}},
	{"x[]y", []string{"xy"}},
	{"a{b,c}", []string{"ab", "ac"}},
	{"[a-c]", []string{"a", "b"}},
	{"back\\*slash", []string{"back*slash", "backXslash"}},
	{"~", []string{"home"}},
	{"~root", []string{"root"}},
	{"$HOME", []string{"HOME"}},
	{"${PATH}", []string{"PATH"}},
	{"%41", []string{"A"}},
	{"%s%d%n", []string{"s"}},
	{"a b", []string{"a", "b"}},
	{" lead", []string{"lead"}},
	{"trail ", []string{"trail"}},
	{"-", []string{"stdin"}},
	{"-x", []string{"x"}},
	{"a;b&c|d", []string{"a"}},
	{"x#frag", []string{"x"}},
	{"q?a=b", []string{"q"}},
	{"c:d", []string{"d"}},
	{"http:", []string{"http"}},
	{"a+b", []string{"a b"}},
	{"new\nline", []string{"new"}},
	{".hidden", []string{"hidden"}},
	{"..two", []string{"two"}},
	{"UPPER", []string{"upper"}},
	{"e\u0301", []string{"\u00e9"}}, // decomposed vs precomposed é
	{"\xff\xfe", []string{"\ufffd\ufffd"}},
}

func specialNameShapes() []string {
	var l []string
	for i := range specialNames {
		l = append(l, fmt.Sprint("path:special-name:", i))
	}
	return l
}

// unstableDecode decodes the same bytes in one piece 24 times; "" if all observations are identical.
func unstableDecode(f formatDef, data []byte) string {
	first, fp := refRead(f, data)
	for i := 0; i < 23; i++ {
		again, ap := refRead(f, data)
		if fp != ap || !sameShape(first, again) {
			return fmt.Sprintf("%s: the same %d bytes %q decoded twice in one piece give different results: %s, then %s", f.Name, len(data), trunc(string(data), 120), trunc(renderObs(first)+" "+fp, 300), trunc(renderObs(again)+" "+ap, 300))
		}
	}
	return ""
}
