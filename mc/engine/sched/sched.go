// Package sched is engine E4: a stateless, preemption-bounded depth-first explorer over the
// interleavings of a few goroutines that run INSIDE an instrumented library package (engine instr).
// Exactly one of the controlled goroutines runs at any time; at every scheduling point (a statement
// of the library, or Yield in the driver) the running goroutine itself consults the schedule and, if
// told so, hands the processor to another one. Switching away from a goroutine that could have gone
// on costs one preemption; switches at the end of a goroutine or when it blocks are free.
// Explore enumerates every schedule with at most `bound` preemptions (iterative context bounding,
// Musuvathi & Qadeer 2007); executions always run to completion.
package sched

import (
	"fmt"
	"runtime"
)

// PointRec is one recorded scheduling decision.
type PointRec struct {
	Site           int   // instrumentation site, -1 for Yield/start/end-of-thread decisions
	Enabled        []int // canonical order: the running thread first if it can go on, then ascending ids
	RunningEnabled bool
	Chosen         int // index into Enabled
}

// Exec is one controlled execution.
type Exec struct {
	prefix  []int
	Choices []int
	Points  []PointRec
	threads []*thread
	cur     int
	steps   int
	maxStep int
	mainCh  chan struct{}
	abort   bool

	Deadlock bool     // no thread could run while some were blocked
	Capped   bool     // the step budget ran out (a spin loop, most likely)
	Panics   []string // per thread: recovered panic text, "" if none
}

type thread struct {
	id      int
	resume  chan struct{}
	done    bool
	blocked bool
}

// Divergence: a replayed prefix did not fit the execution — nondeterminism leaked. Harness error.
type Divergence struct{ Msg string }

func (d Divergence) Error() string { return "schedule replay divergence: " + d.Msg }

type abortSignal struct{}

// Hooks is how the instrumented package reaches the running execution.
type Hooks struct {
	Point func(site int)
	Block func()
	Wake  func()
}

// Run executes bodies under the schedule given by prefix (then: keep running the current thread,
// lowest id first when it cannot). install is called with the hooks before the threads start and with
// zero hooks after they ended.
func Run(prefix []int, maxSteps int, install func(Hooks), bodies []func()) *Exec {
	e := &Exec{prefix: prefix, maxStep: maxSteps, mainCh: make(chan struct{}), Panics: make([]string, len(bodies))}
	for i := range bodies {
		e.threads = append(e.threads, &thread{id: i, resume: make(chan struct{})})
	}
	install(Hooks{Point: e.point, Block: e.block, Wake: e.wake})
	for i, b := range bodies {
		t, body := e.threads[i], b
		go func() {
			<-t.resume
			defer func() {
				if p := recover(); p != nil {
					if _, ok := p.(abortSignal); !ok {
						if d, ok := p.(Divergence); ok {
							panic(d) // not recoverable: the harness is broken
						}
						e.Panics[t.id] = fmt.Sprint(p)
					}
				}
				t.done = true
				e.threadEnded()
			}()
			if e.abort {
				return
			}
			body()
		}()
	}
	// the first decision: which thread starts (free)
	e.cur = -1
	first := e.decide(-1)
	e.cur = first
	e.threads[first].resume <- struct{}{}
	<-e.mainCh
	install(Hooks{})
	return e
}

func (e *Exec) enabled() (list []int, runningEnabled bool) {
	if e.cur >= 0 && !e.threads[e.cur].done && !e.threads[e.cur].blocked {
		list = append(list, e.cur)
		runningEnabled = true
	}
	for _, t := range e.threads {
		if t.id != e.cur && !t.done && !t.blocked {
			list = append(list, t.id)
		}
	}
	return
}

// decide records a scheduling decision and returns the thread to run next (-1: none can).
func (e *Exec) decide(site int) int {
	en, re := e.enabled()
	if len(en) == 0 {
		return -1
	}
	c := 0
	i := len(e.Choices)
	if i < len(e.prefix) {
		c = e.prefix[i]
		if c < 0 || c >= len(en) {
			panic(Divergence{fmt.Sprintf("decision %d: replayed choice %d but %d threads are enabled", i, c, len(en))})
		}
	}
	e.Choices = append(e.Choices, c)
	e.Points = append(e.Points, PointRec{Site: site, Enabled: en, RunningEnabled: re, Chosen: c})
	return en[c]
}

// switchTo hands the processor from the running thread (self) to next and waits to be resumed.
func (e *Exec) switchTo(self, next int) {
	e.cur = next
	e.threads[next].resume <- struct{}{}
	<-e.threads[self].resume
	if e.abort {
		panic(abortSignal{})
	}
}

func (e *Exec) point(site int) {
	if e.abort {
		panic(abortSignal{})
	}
	e.steps++
	if e.steps > e.maxStep {
		e.Capped = true
		e.abortAll()
	}
	self := e.cur
	if len(e.threads) == 1 {
		return
	}
	// a decision with one enabled thread is no decision: not recorded, so schedules stay short
	n := 0
	for _, t := range e.threads {
		if !t.done && !t.blocked {
			n++
		}
	}
	if n <= 1 {
		return
	}
	if next := e.decide(site); next != self {
		e.switchTo(self, next)
	}
}

// Yield is a scheduling point in driver code (between two library calls, before a driver-side write).
func (e *Exec) Yield() { e.point(-1) }

func (e *Exec) block() {
	if e.abort {
		panic(abortSignal{})
	}
	self := e.cur
	e.threads[self].blocked = true
	next := e.decide(-2)
	if next < 0 {
		e.Deadlock = true
		e.abortAll()
	}
	e.switchTo(self, next)
}

func (e *Exec) wake() {
	for _, t := range e.threads {
		t.blocked = false
	}
}

// abortAll ends the execution from inside the running thread: every other live thread is resumed
// only to unwind, then the running one unwinds too.
func (e *Exec) abortAll() {
	e.abort = true
	panic(abortSignal{})
}

// threadEnded runs in the goroutine that just finished (or unwound).
func (e *Exec) threadEnded() {
	if e.abort {
		// unwind the others one after the other, then report to Run
		for _, t := range e.threads {
			if !t.done {
				e.cur = t.id
				t.resume <- struct{}{}
				return // that thread's own threadEnded carries on
			}
		}
		e.mainCh <- struct{}{}
		return
	}
	next := e.decide(-3)
	if next >= 0 {
		e.cur = next
		e.threads[next].resume <- struct{}{}
		return
	}
	live := false
	for _, t := range e.threads {
		if !t.done {
			live = true
		}
	}
	if live {
		e.Deadlock = true
		e.abort = true
		e.threadEnded()
		return
	}
	e.mainCh <- struct{}{}
}

// Preemptions of the execution.
func (e *Exec) Preemptions() int {
	n := 0
	for _, p := range e.Points {
		if p.RunningEnabled && p.Chosen != 0 {
			n++
		}
	}
	return n
}

// Stats of an exploration.
type Stats struct {
	Executions     int
	MaxDecisions   int
	MaxPreemptions int
	Capped         int
}

// Explore runs every schedule with at most bound preemptions (bound < 0: all). run executes one
// schedule prefix on a fresh instance; visit is called after every execution and returns false to stop.
func Explore(bound int, run func(prefix []int) *Exec, visit func(e *Exec) bool) Stats {
	var st Stats
	var rec func(prefix []int) bool
	rec = func(prefix []int) bool {
		e := run(prefix)
		if len(e.Choices) < len(prefix) && !e.Capped && !e.Deadlock {
			panic(Divergence{fmt.Sprintf("execution ended after %d decisions but the prefix has %d", len(e.Choices), len(prefix))})
		}
		st.Executions++
		st.MaxDecisions = max(st.MaxDecisions, len(e.Points))
		st.MaxPreemptions = max(st.MaxPreemptions, e.Preemptions())
		if e.Capped {
			st.Capped++
		}
		if !visit(e) {
			return false
		}
		cost := 0
		for i := 0; i < len(e.Points); i++ {
			p := e.Points[i]
			if i >= len(prefix) {
				c := cost
				if p.RunningEnabled {
					c++
				}
				if bound < 0 || c <= bound {
					for alt := 1; alt < len(p.Enabled); alt++ {
						np := append(append(make([]int, 0, i+1), e.Choices[:i]...), alt)
						if !rec(np) {
							return false
						}
					}
				}
			}
			if p.RunningEnabled && p.Chosen != 0 {
				cost++
			}
		}
		return true
	}
	rec(nil)
	runtime.Gosched()
	return st
}
