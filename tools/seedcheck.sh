#!/bin/bash
# seedcheck.sh <ID> [tier]  — vets a seeded change produced by a sub-agent (/tmp/seedout/<ID>/patch.diff + demo_test.go):
#  1. in a fresh scratch worktree of /repo: patch applies, biostuff's own tests pass with it,
#     the demonstration fails with it and passes without it;
#  2. runs /verif's check for <ID> against the change through a -overlay build (nothing in /repo is edited).
set -u
ID="$1"; TIER="${2:-quick}"; SRC="${3:-/tmp/seedout/$ID}"
export GOFLAGS=-mod=mod GOPROXY=off GOSUMDB=off GOTOOLCHAIN=local GOCACHE=/verif/.cache/go-build
W=$(mktemp -d /tmp/seedvet.XXXXXX); rmdir "$W"
git -C /repo worktree add --detach "$W" HEAD >/dev/null 2>&1 || { echo "cannot create worktree"; exit 2; }
cleanup() { git -C /repo worktree remove --force "$W" >/dev/null 2>&1; rm -rf "$W"; }
trap cleanup EXIT
DIR=$(head -1 "$SRC/demo_test.go" | sed -n 's,^// DIR: *,,p' | tr -d ' \r')
[ -n "$DIR" ] || { echo "demo_test.go has no // DIR: line"; exit 2; }
cp "$SRC/demo_test.go" "$W/$DIR/zz_seed_demo_test.go"
( cd "$W" && go test -vet=off -count=1 ./$DIR/ >"$W/.clean.log" 2>&1 ); clean=$?
git -C "$W" apply "$SRC/patch.diff" || { echo "patch does not apply"; exit 2; }
( cd "$W" && go test -vet=off -count=1 ./$DIR/ >"$W/.mut.log" 2>&1 ); mut=$?
rm "$W/$DIR/zz_seed_demo_test.go"
( cd "$W" && go build ./... && go test -vet=off -count=1 ./... >"$W/.suite.log" 2>&1 ); suite=$?
echo "demo on clean tree: rc=$clean (want 0) | demo with change: rc=$mut (want != 0) | own suite with change: rc=$suite (want 0)"
[ $clean -eq 0 ] || tail -15 "$W/.clean.log"
[ $mut -ne 0 ] || echo "  demonstration does not fail with the change"
[ $suite -eq 0 ] || tail -15 "$W/.suite.log"
# overlay of the changed files
ov="{\"Replace\":{"; sep=""
for f in $(git -C "$W" diff --name-only); do ov="$ov$sep\"/repo/$f\":\"$W/$f\""; sep=","; done
ov="$ov}}"; echo "$ov" > "$W/.overlay.json"
echo "--- /verif check $ID $TIER against the change:"
GOMAXPROCS=${SEED_GOMAXPROCS:-} VERIF_OVERLAY="$W/.overlay.json" VERIF_EVIDENCE_DIR="$W/.evidence" /verif/run.sh "$ID" "$TIER" 2>&1 | grep -aE "^(VIOLATION|KNOWN|property|HARNESS|BUILD)|^  clause=" | cut -c1-400 | head -12
echo "rc=${PIPESTATUS[0]}"
