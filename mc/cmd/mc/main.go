// Command mc runs one property check: mc <ID> <quick|thorough> | mc <ID> --replay <file>.
package main

import (
	"fmt"
	"os"
	"runtime/pprof"
	"strconv"

	"verif/mc/engine/core"
	"verif/mc/props"
)

func main() {
	if len(os.Args) < 3 {
		fmt.Fprintln(os.Stderr, "usage: mc <ID> <quick|thorough> | mc <ID> --replay <file> | mc list x")
		os.Exit(2)
	}
	if os.Args[1] == "list" {
		for _, id := range props.IDs() {
			fmt.Println(id)
		}
		return
	}
	if os.Args[1] == "__hidden" {
		f, ok := props.Hidden[os.Args[2]]
		if !ok {
			fmt.Fprintln(os.Stderr, "unknown hidden body", os.Args[2])
			os.Exit(2)
		}
		os.Exit(f())
	}
	id := os.Args[1]
	p, ok := props.Get(id)
	if !ok {
		fmt.Fprintln(os.Stderr, "unknown property", id)
		os.Exit(2)
	}
	tier, replay := os.Args[2], ""
	if tier == "--replay" {
		if len(os.Args) < 4 {
			fmt.Fprintln(os.Stderr, "--replay needs a file")
			os.Exit(2)
		}
		replay = os.Args[3]
		tier = "quick"
	}
	if tier != "quick" && tier != "thorough" {
		fmt.Fprintln(os.Stderr, "tier must be quick or thorough")
		os.Exit(2)
	}
	var seed int64
	if v := os.Getenv("VERIF_SEED"); v != "" {
		seed, _ = strconv.ParseInt(v, 10, 64)
	}
	root := os.Getenv("VERIF_ROOT")
	if root == "" {
		root = "/verif"
	}
	r := core.NewRun(id, tier, seed, p.Level, root, replay)
	if pf := os.Getenv("VERIF_CPUPROFILE"); pf != "" {
		if f, err := os.Create(pf); err == nil {
			pprof.StartCPUProfile(f)
			defer pprof.StopCPUProfile()
		}
	}
	p.Run(r)
	code := r.Finish()
	pprof.StopCPUProfile()
	os.Exit(code)
}
