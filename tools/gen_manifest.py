#!/usr/bin/env python3
"""Generates /verif/MANIFEST.json from the table below and validates it against the schema.
Only properties whose driver is registered in mc (mc list x) are claimed."""
import json, subprocess, os, sys
ROOT = os.path.dirname(os.path.dirname(os.path.abspath(__file__)))

P = {
 "C01": ("exploration", "E3 small-scope enumeration", "§3 C01",
   "Every record list over a sharp alphabet up to the bound, every sequence length 0..400 plus the 4 KiB/64 KiB buffer boundaries, and every line layout (all compositions into lines x LF/CRLF x blank lines x final newline) of every small record list is written and read back through the real codec and compared with the written records and a literal text model.",
   "bounded: names/sequences over 2-letter alphabets, lists of <=2 (quick) / <=3 (thorough) records; lengths as listed points; no claim beyond the bound"),
 "C02": ("exploration", "E3 small-scope enumeration + exhaustive corruption menu", "§3 C02",
   "All record lists over {a,@,+} contents, all read lengths 0..300 plus boundary points up to 4 MiB, and for every valid small file every (record, line, kind) structural corruption and every cut offset; oracle: records before r intact, then exactly one error, never a record at r.",
   "bounded alphabets and list sizes; long reads are listed points"),
 "C03": ("exploration", "E3 deviation-bounded enumeration; flag table complete", "§3 C03",
   "Records with every choice of <=2/3 deviating fields over sharp menus (quotes, commas, '@', spaces, extreme ints), every tag set of size <=2/3 over typed value menus, every file of <=3 header/record lines, and the complete flag space 8192 values x 12 getters x 12 setters x {true,false} against the SAM bit table.",
   "field menus are finite; flags complete for bits 0..12 plus selected high/negative values"),
 "C04": ("exploration", "E3 deviation-bounded enumeration", "§3 C04",
   "For every N in 3..12 every record with <=2/3 deviating fields over sharp menus, garbage beyond N, every file of <=3 records sharing one N, and every out-of-range N: same N and first N fields back, N-1 tabs, refusal writes nothing.",
   "finite menus; N=10/11 with BlockCount 0 only (DESIGN §5)"),
 "C05": ("exploration", "E3 enumeration of all ordered trees x attribute deviations", "§3 C05",
   "Every ordered tree shape up to 6/8 nodes with <=2 deviating attributes over 22 names x 11 distances, all name assignments on trees of <=3 nodes, every sequence of <=3 trees with every separator, deep/wide degenerate trees; structural equality after write->read, condensed output ending in ';'.",
   "finite name/distance menus"),
 "C06": ("exploration", "E1 choice-point exploration of every Read partition", "§3 C06",
   "The io.Reader is a controlled choice point: for every input over each format's token alphabet up to the bound, every partition of the stream into Read results x EOF alone/with data is executed against the real decoder and compared with the one-Read reference; longer files with <=2/3 short reads anywhere; CRLF rewriting; File plain/.gz grid.",
   "Read never returns (0,nil); File's OS-level chunking is not controlled"),
 "C07": ("fault_enumeration", "E1 fault-plan enumeration (every byte offset x mode x delivery)", "§3 C07",
   "For every corpus input every fault offset 0..len x {once then EOF, forever} x {alone, with data} x {max, 1-byte} chunking on the read side, and every writer failure offset on the write side; oracle: prefix of the fault-free records, then an error, finite iteration; Write returns non-nil iff the writer failed.",
   "after the fault the reader only returns the error (or EOF in once-mode)"),
 "C08": ("exploration", "E3 small-scope enumeration x matrix family, independent re-scorer", "§3 C08",
   "All sequence pairs over {A,B}^<=4..6 and {A,B,C}^<=4 x a covering matrix family (zero/non-zero gap-open, asymmetric, shipped tables): steps consume a and b exactly / stay inside, returned score == re-scored steps, no-steps iff local optimum 0, inputs untouched, no panic.",
   "integer-valued matrices so sums are exact"),
 "C09": ("exploration", "E3 small-scope enumeration vs brute force / Gotoh reference", "§3 C09",
   "Same pairs x all zero-gap-open matrices: Global/Local score equals the optimum computed by brute-force enumeration of all alignments (<=4x4) and a Gotoh DP validated against it in-run; Levenshtein == -edit distance; complete table checks of all 65536 Levenshtein entries and all 24x24 entries of each shipped matrix.",
   "values of the shipped PAM/BLOSUM tables are not compared with NCBI files"),
 "C10": ("exploration", "E3 small-scope enumeration vs brute force / Gotoh reference; known-finding classifier", "§3 C10",
   "All pairs over {A,B}^<=6 x all non-zero-gap-open matrices of the family vs the affine optimum; the documented defect (single-state DP) is recognised by an executable model of the defect and reported as KNOWN-FINDING, anything else is a VIOLATION.",
   "integer matrices; known findings listed in KNOWN_FINDINGS.txt"),
 "C11": ("exploration", "E3 prefix-tree DFS over all byte strings with sound subtree pruning", "§3 C11",
   "The parser is driven as a transition system (next byte / EOF) over all strings in each format's token alphabet up to the bound; no panic, termination, fixed point of every accepted record; SAM per-line corruption menu over every file/line position.",
   "alphabets are the token bytes each parser distinguishes plus one ordinary and one >=0x80 byte"),
 "C12": ("exploration", "E3 small-scope enumeration; byte tables complete", "§3 C12",
   "All sequences over aAcCgGtTnN up to length 4/6 x dst variants vs a switch-based reference; all 256 bytes at every position for the panic boundary; all sequences over {A,C,G,T,N,a}^<=6/7 x every k for canonical k-mers and strand independence.",
   "bounded lengths"),
 "C13": ("exploration", "E3 small-scope enumeration; packed side complete", "§3 C13",
   "All DNA strings up to length 5/7 x dst variants vs a shift reference; all 256 packed bytes and all 65536 byte pairs round trip; Ntoi on all 256 bytes; panic boundary on all 256 bytes x position mod 4.",
   "bounded lengths on the unpacked side"),
 "C14": ("exploration", "E3 enumeration; codon and byte tables complete", "§3 C14",
   "All 64 codons x 8 case patterns vs the NCBI table-1 string; all 4096 codon pairs x dst prefixes; all 256 bytes at each codon position and all bad lengths panic; all sequences over ACGT up to length 7/8 for the frame law incl. lengths 0,1,2; AminoName on all 256 bytes.",
   "bounded lengths for the frame law"),
 "C15": ("model_checking", "E2 explicit-state BFS over operation histories, replayed on fresh real tries against a set model", "§3 C15",
   "Every reachable trie state over {a,b}^<=3 / {a,b,c}^<=2 (thorough {a,b}^<=4) x every Add/Delete is executed on the real trie (fresh instance + replayed shortest history), compared step by step with the set model on Delete's result, Has over all probes, ForEach multiset, argument aliasing, and JSON rebuild differential.",
   "state key = MarshalJSON bytes (the whole state: nested maps)"),
 "C16": ("exploration", "E3 enumeration of all interval lists x all positions + E2 operation histories + E4 preemption-bounded schedule exploration of concurrent At calls on the source-instrumented package; separate -race pass", "§3 C16, §8.8",
   "All ordered lists of <=3/4 intervals over coordinates {-1,0,1,2} incl. empty and inverted ones x every query position vs a brute-force scan; extreme coordinates; read-only-ness as operation histories (mutate results/inputs, re-query); mismatched lengths panic; concurrent At: every schedule with <=2/3 preemptions of 2-3 goroutines on every index of <=2/3 intervals, each execution judged against the brute-force scan (package regions instrumented at build time: a scheduling point before every statement, sync primitives as scheduler-visible shims); plus a free-running -race pass for unsynchronised accesses.",
   "schedules: preemption bound 2 (quick) / 3 (thorough), statement granularity, sequentially consistent memory; data races are left to the separate -race pass"),
 "C17": ("model_checking", "E2 BFS over Add histories on real sketches + E3 enumeration of variants, vs bottom-n reference", "§3 C17",
   "All sequence sets up to the bound x k x n: View() equals the bottom-n distinct canonical k-mer hashes; invariant under strand/case/order/partition variants (each enumerated completely); explicit-state search over Add histories; Distance laws on all pairs of full sketches; FromJaccard monotone on a complete grid.",
   "murmur3 trusted as the hash primitive; only full sketches for Distance"),
 "C18": ("exploration", "E1 choice-point exploration of every stop position", "§3 C18",
   "For every iterator and every input of the corpora, every stop position 1..N is executed in both the direct-call and range/break form: exactly t callbacks, no panic, prefix of the uninterrupted run; error item is last for FASTA/FASTQ/BED/Newick.",
   "inputs bounded as in C06/C15/C19"),
 "C19": ("exploration", "E3 enumeration of every ordered tree", "§3 C19",
   "Every ordered tree with <=8/11 nodes: PreOrder/PostOrder pointer sequences equal the recursive reference, tree unchanged; chain of depth 10^6, 10^5 children, comb.",
   "bounded node count"),
 "C20": ("exploration", "E3 enumeration of tables x layout deviations x corruptions; all 3^9 partial matrices", "§3 C20",
   "ReadNCBI on every table of <=3x3 labels in every order with <=2/3 layout deviations and every single-token corruption; Symmetrical on all 19683 partial matrices over {A,B,Gap}; GoString parsed by go/parser and evaluated, formatted by go/format.",
   "finite scores; blank-only lines not generated"),
}

def main():
    env = dict(os.environ, VERIF_ROOT=ROOT)
    subprocess.run([os.path.join(ROOT, "setup.sh")], check=True, stdout=subprocess.DEVNULL)
    built = subprocess.run([os.path.join(ROOT, "bin", "mc"), "list", "x"], capture_output=True, text=True, env=env).stdout.split()
    skip = set(os.environ.get("VERIF_UNCLAIM", "").split())
    checks, na = [], []
    for pid in sorted(P):
        lvl, tech, ref, text, note = P[pid]
        if pid not in built or pid in skip:
            na.append({"property_id": pid, "reason": "driver not built yet in this revision (work in progress; see DESIGN.md %s)" % ref})
            continue
        checks.append({
            "property_id": pid,
            "quick_cmd": "./run.sh %s quick" % pid,
            "thorough_cmd": "./run.sh %s thorough" % pid,
            "evidence_file": "/verif/evidence/%s.json" % pid,
            "replay_cmd_template": "./run.sh %s --replay {path}" % pid,
            "engine": "mc",
            "level_claimed": {"category": lvl, "text": text, "design_ref": "DESIGN.md " + ref},
            "level_note": note,
            "technique": "model checking: " + tech,
        })
    notes = open(os.path.join(ROOT, "tools", "manifest_notes.txt")).read().strip() if os.path.exists(os.path.join(ROOT, "tools", "manifest_notes.txt")) else ""
    hooks_commits = [l.strip() for l in open(os.path.join(ROOT, "tools", "hook_commits.txt"))] if os.path.exists(os.path.join(ROOT, "tools", "hook_commits.txt")) else []
    m = {
        "version": 1,
        "setup_cmd": "./setup.sh",
        "hooks": {
            "guard": "verif",
            "enable": "go build -tags verif (run.sh passes the tag on every build; no hook is committed in /repo: every property is observable through the exported API). The scheduling points of the C16 schedule exploration are generated at check time from /repo's current source and handed to go build -overlay together with -tags verif,verifsched (mc/engine/instr, DESIGN.md 8.8); nothing in /repo is edited and a build without the overlay never sees them",
            "baseline_off_cmd": "cd /repo && GOFLAGS=-mod=mod GOPROXY=off GOSUMDB=off GOTOOLCHAIN=local go test -vet=off -count=1 ./...",
            "source_commits": hooks_commits,
            "add_only": True,
        },
        "engines": [{"name": "mc", "path": "/verif/mc", "serves_properties": [c["property_id"] for c in checks],
                     "kind_free_text": "hand-written bounded exhaustive explorer in Go running the real packages from /repo: E1 choice-point (environment answer) DFS, E2 explicit-state BFS over operation histories, E3 small-scope enumerators, E4 preemption-bounded schedule explorer (cooperative scheduler over a source-instrumented copy of the package, sync shims)"}],
        "checks": checks,
        "notes": notes,
        "not_applicable": na,
    }
    json.dump(m, open(os.path.join(ROOT, "MANIFEST.json"), "w"), indent=1)
    try:
        import jsonschema
        jsonschema.validate(m, json.load(open("/root/.vp/MANIFEST.schema.json")))
        print("MANIFEST.json valid;", len(checks), "checks claimed;", len(na), "not claimed")
    except ImportError:
        print("jsonschema not importable; wrote MANIFEST.json unvalidated")

main()
