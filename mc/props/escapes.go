package props

import (
	"fmt"
	"strings"

	"verif/mc/engine/core"
)

// A text field may hold any bytes except the format's delimiters, so it may hold text that LOOKS like
// an encoded delimiter in some other convention: percent-encoding, backslash escapes, HTML entities,
// quoted-printable, caret notation, fmt verbs, template markers, invisible characters. A codec that
// encodes or decodes any of these is not the identity on them. Every spelling, in every text field of
// the format, alone and embedded, written with the real writer and read back with a record behind it.

type escapeCase struct {
	Field string `json:"field"`
	Value core.S `json:"value"`
}

var escapeSpellings = []string{
	// percent-encoding and fmt verbs
	"%09", "%0A", "%0D", "%0a", "%0d", "%25", "%20", "%00", "%3E", "%40", "%2C", "%3B", "%27", "%", "%%", "%s", "%v", "%d", "%q", "%x", "%c", "%5d", "%!", "%!v(MISSING)", "%!(EXTRA string=x)",
	// backslash conventions
	`\t`, `\n`, `\r`, `\\`, `\`, `\0`, `\x09`, `\x0a`, `\x0A`, `\u0009`, `\U0000000A`, `\011`, `\012`, `\'`, `\"`, `\a`, `\e`, `\N`, `\s`, `\1`, `\E`, `\Q`, `\ `, `\,`, `\;`, `\:`, `\(`, `\>`, `\@`,
	// entities, quoted-printable, caret notation, shell, templates
	"&#9;", "&#10;", "&#13;", "&#x9;", "&#xA;", "&amp;", "&lt;", "&gt;", "&quot;", "&apos;", "&nbsp;", "&", "=09", "=0A", "=0D", "=3D", "=", "==", "^I", "^J", "^M", "^@", "^", "+", "+++", "$'\\t'", "${x}", "$(x)", "$1", "$", "$$", "{{", "}}", "{0}", "{}", "{{.}}", "<tab>", "<br>", "0x09", "U+0009", "~", "~0", "~1",
	// quotes
	"''", `""`, "``", "'", `"`, "`", `'a'`, `"a"`, `a''b`, `a""b`,
	// invisible and special characters, raw
	"\u2409", "\u240a", "\u00a0", "\u2028", "\u2029", "\ufeff", "\u200b", "\u200d", "\u00ad", "\ufffd", "\x1b[0m", "\x7f", "\x00", "\x1a", "\x0b", "\x0c", "\x08", "\x85", "\xc2\x85", "\xff", "\xfe\xff", "\xc0\x80", "\xed\xa0\x80",
}

func escapeForms(sp string) []string {
	return []string{sp, "a" + sp + "b", sp + sp, "a" + sp, sp + "b"}
}

// fieldBuilder writes a file with the format's real writer: an ordinary first record, then one record per
// value with the named field holding that value, then an ordinary last record. It returns the file and the
// expected items, or ok=false if a value is outside that field's domain.
type fieldBuilder func(field string, values []string) (data []byte, want []obsItem, ok bool, fail string)

// escapeSpellingsClause: build returns the written file and the expected items for the given field
// holding value (with a further record behind it), or ok=false if the value is outside that field's domain.
func escapeSpellingsClause(r *core.Run, format string, fields []string, build fieldBuilder) {
	core.Clause(r, "escape-spellings-as-data", core.Opts{Rule: "every text field holds text that looks like an encoded delimiter or control sequence in some other convention (" + fmt.Sprint(len(escapeSpellings)) + " spellings: percent-encoding, fmt verbs, backslash escapes, HTML entities, quoted-printable, caret notation, shell and template markers, quotes, invisible and ill-formed characters), alone, doubled and between letters: written with the real writer and read back unchanged, the next record included; non-trivial = all",
		Bounds: fmt.Sprintf("%d spellings x 5 embeddings x fields %s, minus values outside a field's domain", len(escapeSpellings), strings.Join(fields, ", "))},
		func(emit func(escapeCase) bool) {
			for _, f := range fields {
				for _, sp := range escapeSpellings {
					for _, v := range escapeForms(sp) {
						if !emit(escapeCase{f, core.S(v)}) {
							return
						}
					}
				}
			}
		},
		func(c escapeCase) core.Outcome {
			data, want, ok, fail := build(c.Field, []string{string(c.Value)})
			if !ok {
				return core.Outcome{Skip: true}
			}
			if fail != "" {
				return core.Failf("%s %s = %q: %s", format, c.Field, c.Value, fail)
			}
			got, p, over := formatByName(format).Read(&sliceReader{data: data}, len(want)+8)
			if p != "" || over {
				return core.Failf("%s: %s = %q: panic %q / does not end %v", format, c.Field, c.Value, p, over)
			}
			if !sameShape(got, want) {
				return core.Failf("%s: a record whose %s is %q (text %q) reads back as %s, written %s", format, c.Field, c.Value, trunc(string(data), 120), trunc(renderObs(got), 300), trunc(renderObs(want), 300))
			}
			return core.Outcome{Class: c.Field, Nontrivial: true, Evals: 2}
		})
}

// Consecutive records whose fields are RELATIVES of each other: equal under case folding (ASCII and the
// Unicode simple folds), equal up to a trailing blank or NUL, one a prefix of the other, equal as numbers,
// equal after Unicode normalisation, equal. A reader that recognises "the same value as in the previous
// record" (to share a string, to skip work) by anything but byte equality hands back the wrong one.

type relativesCase struct {
	Field  string   `json:"field"`
	Values []core.S `json:"values_of_consecutive_records"`
}

var relativePairs = [][2]string{
	{"chrX", "chrx"}, {"CHR1", "chr1"}, {"k", "\u212a"}, {"K", "\u212a"}, {"s", "\u017f"}, {"ss", "\u00df"}, {"i", "\u0130"}, {"I", "\u0131"}, {"\u03c3", "\u03c2"}, {"\u00e9", "\u00c9"},
	{"a", "a "}, {" a", "a"}, {"a", "a\x00"}, {"a", "a\u00a0"}, {"chr1", "chr10"}, {"chr1", "chr1_random"}, {"ab", "a"}, {"a", "A"},
	{"1", "01"}, {"1", "1.0"}, {"1", "+1"}, {"0", "-0"}, {"1e3", "1000"}, {"0x10", "16"},
	{"\u00e9", "e\u0301"}, {"\u212b", "\u00c5"}, {"A", "\uff21"}, {"\ufb01", "fi"}, {"a\u200bb", "ab"}, {"\xff", "\ufffd"}, {"\xc3\x28", "\ufffd("},
	{"same", "same"}, {"x", "y"},
}

func relativesClause(r *core.Run, format string, fields []string, build fieldBuilder) {
	core.Clause(r, "neighbouring-records-with-related-fields", core.Opts{Rule: "consecutive records whose value in one field are relatives (" + fmt.Sprint(len(relativePairs)) + " pairs: equal under ASCII or Unicode case folding, up to a trailing blank / NUL / no-break space, prefix of each other, equal as numbers, equal after Unicode normalisation or replacement of ill-formed bytes, equal, unrelated) in the orders x y, y x, x y x, x x y, y y x y: every record reads back with its own value; non-trivial = all",
		Bounds: fmt.Sprintf("%d pairs x 5 orders x fields %s, minus values outside a field's domain", len(relativePairs), strings.Join(fields, ", "))},
		func(emit func(relativesCase) bool) {
			for _, f := range fields {
				for _, pr := range relativePairs {
					x, y := core.S(pr[0]), core.S(pr[1])
					for _, vs := range [][]core.S{{x, y}, {y, x}, {x, y, x}, {x, x, y}, {y, y, x, y}} {
						if !emit(relativesCase{f, vs}) {
							return
						}
					}
				}
			}
		},
		func(c relativesCase) core.Outcome {
			vals := make([]string, len(c.Values))
			for i, v := range c.Values {
				vals[i] = string(v)
			}
			data, want, ok, fail := build(c.Field, vals)
			if !ok {
				return core.Outcome{Skip: true}
			}
			if fail != "" {
				return core.Failf("%s %s = %q: %s", format, c.Field, vals, fail)
			}
			got, p, over := formatByName(format).Read(&sliceReader{data: data}, len(want)+8)
			if p != "" || over {
				return core.Failf("%s: %s = %q in consecutive records: panic %q / does not end %v", format, c.Field, vals, p, over)
			}
			if !sameShape(got, want) {
				return core.Failf("%s: consecutive records whose %s is %q (text %q) read back as %s, written %s", format, c.Field, vals, trunc(string(data), 160), trunc(renderObs(got), 400), trunc(renderObs(want), 400))
			}
			return core.Outcome{Class: c.Field, Nontrivial: true, Evals: 2}
		})
}
