package core

import (
	"encoding/json"
	"fmt"
)

// S is a byte string that survives JSON unchanged: every byte is written as the code point of the
// same number (Latin-1), so replay files are lossless for arbitrary bytes and still readable.
type S string

// MarshalJSON implements json.Marshaler.
func (s S) MarshalJSON() ([]byte, error) {
	r := make([]rune, len(s))
	for i := 0; i < len(s); i++ {
		r[i] = rune(s[i])
	}
	return json.Marshal(string(r))
}

// UnmarshalJSON implements json.Unmarshaler.
func (s *S) UnmarshalJSON(b []byte) error {
	var u string
	if err := json.Unmarshal(b, &u); err != nil {
		return err
	}
	out := make([]byte, 0, len(u))
	for _, c := range u {
		if c > 255 {
			return fmt.Errorf("code point %d outside byte range", c)
		}
		out = append(out, byte(c))
	}
	*s = S(out)
	return nil
}

// B returns the bytes (a fresh copy).
func (s S) B() []byte { return []byte(s) }

// SS converts a list of strings.
func SS(a ...string) []S {
	out := make([]S, len(a))
	for i, x := range a {
		out[i] = S(x)
	}
	return out
}
