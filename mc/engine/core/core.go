// Package core is the shared spine of every check: a Run collects counters, the set of
// distinct non-trivial cases, samples, outcome classes and violations of one property check,
// distributes the enumerated cases over a worker pool, writes the evidence file and the replay
// files, and decides the exit status.
//
// A property driver is written as a sequence of clauses:
//
//	core.Clause(r, "name", gen, check)
//
// gen enumerates JSON-serialisable cases (completely, in a fixed order, simplest first); check
// executes ONE case against the real code and returns its outcome. In replay mode
// (mc <ID> --replay file) gen is not called at all: the stored case is decoded and handed to the
// same check function, so a replay is a plain re-execution without any explorer.
package core

import (
	"encoding/json"
	"fmt"
	"hash/fnv"
	"os"
	"path/filepath"
	"runtime"
	"runtime/debug"
	"sort"
	"strings"
	"sync"
	"sync/atomic"
	"time"
)

// Outcome of executing one case.
type Outcome struct {
	Fail       string // non-empty: the property is violated on this case; text says how
	Nontrivial bool   // counts towards distinct_nontrivial (rule is stated per clause)
	Class      string // outcome class (for distinct_outcomes; exposes vacuous exploration)
	Known      string // non-empty together with Fail: id of the known finding that explains it
	Evals      int    // executions of library code performed for this case (default 1)
	Skip       bool   // case lies outside the property's domain; not counted at all
	ReplayCase any    // optional: a more specific case (e.g. with the failing choice sequence) to store in the replay file
}

// OK is the usual outcome.
func OK(class string, nontrivial bool) Outcome {
	return Outcome{Class: class, Nontrivial: nontrivial}
}

// Failf builds a failing outcome.
func Failf(format string, a ...any) Outcome {
	return Outcome{Fail: fmt.Sprintf(format, a...), Nontrivial: true, Class: "VIOLATION"}
}

type violation struct {
	Clause string
	Seq    int64
	Case   json.RawMessage
	Fail   string
	Known  string
}

// ClauseStat is reported per clause in the evidence.
type ClauseStat struct {
	Name        string   `json:"name"`
	Rule        string   `json:"rule"`
	Cases       int64    `json:"cases"`
	Evaluations int64    `json:"evaluations"`
	Nontrivial  int64    `json:"distinct_nontrivial"`
	Outcomes    []string `json:"outcome_classes"`
	Exhaustive  bool     `json:"exhaustive"`
	Bounds      string   `json:"bounds,omitempty"`
	WallS       float64  `json:"wall_s"`
	States      int64    `json:"states,omitempty"`
	Transitions int64    `json:"transitions,omitempty"`
}

// Run is one execution of one property check.
type Run struct {
	ID     string
	Tier   string // quick | thorough
	Seed   int64
	Level  string
	Root   string // /verif
	Replay string // path of a replay file, or ""

	start      time.Time
	deadline   time.Time
	oneWorker  bool // see OneWorkerFromNow
	mu         sync.Mutex
	clauses    []*ClauseStat
	samples    []any
	viol       []violation
	assume     []string
	extra      map[string]any
	bounds     map[string]any
	hitCap     []string
	freshTotal int64 // unexplained failing outcomes counted by the clauses (safety net for Finish)
	known      []KnownFinding
	knownHits  map[string]*knownHit
	replayCase *replayFile
	replayDone bool
	harnessErr []string
	States     int64
	Trans      int64
	Traces     int64
}

type knownHit struct {
	n       int64
	witness string
}

type replayFile struct {
	Property string          `json:"property"`
	Clause   string          `json:"clause"`
	Case     json.RawMessage `json:"case"`
	Fail     string          `json:"fail,omitempty"`
	Note     string          `json:"note,omitempty"`
}

// Thorough reports whether the thorough tier was requested.
func (r *Run) Thorough() bool { return r.Tier == "thorough" }

// Pick returns q in the quick tier and t in the thorough tier.
func Pick[T any](r *Run, q, t T) T {
	if r.Thorough() {
		return t
	}
	return q
}

// NewRun prepares a run. root is /verif.
func NewRun(id, tier string, seed int64, level, root, replay string) *Run {
	r := &Run{ID: id, Tier: tier, Seed: seed, Level: level, Root: root, Replay: replay,
		start: time.Now(), extra: map[string]any{}, bounds: map[string]any{},
		knownHits: map[string]*knownHit{}}
	soft := 5 * time.Minute
	if tier == "thorough" {
		soft = 40 * time.Minute
	}
	if v := os.Getenv("VERIF_SOFT_DEADLINE_S"); v != "" {
		var s int
		fmt.Sscanf(v, "%d", &s)
		if s > 0 {
			soft = time.Duration(s) * time.Second
		}
	}
	r.deadline = r.start.Add(soft)
	r.known = LoadKnown(filepath.Join(root, "KNOWN_FINDINGS.txt"), id)
	if replay != "" {
		b, err := os.ReadFile(replay)
		if err != nil {
			fmt.Fprintln(os.Stderr, "cannot read replay file:", err)
			os.Exit(2)
		}
		rf := &replayFile{}
		if err := json.Unmarshal(b, rf); err != nil {
			fmt.Fprintln(os.Stderr, "cannot parse replay file:", err)
			os.Exit(2)
		}
		r.replayCase = rf
	}
	return r
}

// Assume records an assumption / trusted-base item for the evidence file.
func (r *Run) Assume(s string) { r.assume = append(r.assume, s) }

// Bound records a bound for the evidence file.
func (r *Run) Bound(k string, v any) { r.mu.Lock(); r.bounds[k] = v; r.mu.Unlock() }

// Extra records an additional coverage key.
func (r *Run) Extra(k string, v any) { r.mu.Lock(); r.extra[k] = v; r.mu.Unlock() }

// HarnessError records a defect of the harness itself (nondeterminism, reference model
// disagreeing with brute force). It makes the run exit 2 without claiming a violation.
func (r *Run) HarnessError(format string, a ...any) {
	r.mu.Lock()
	r.harnessErr = append(r.harnessErr, fmt.Sprintf(format, a...))
	r.mu.Unlock()
}

// OneWorkerFromNow makes every later clause run its cases one at a time. Called once a detector pass has
// shown that library calls disturb each other when they overlap: the enumerations that follow are about
// what ONE caller sees, and overlapping calls would bury that under corrupted memory.
func (r *Run) OneWorkerFromNow() { r.oneWorker = true }

// Expired reports whether the soft deadline has passed.
func (r *Run) Expired() bool { return time.Now().After(r.deadline) }

// Opts tunes a clause.
type Opts struct {
	Rule    string // how cases are enumerated and which count as non-trivial
	Bounds  string
	Serial  bool // run check on the generator goroutine (for cases that are themselves parallel)
	Workers int
}

type item[T any] struct {
	seq int64
	c   T
}

// Clause enumerates cases with gen and executes each with check on a worker pool.
// gen must enumerate deterministically; it should return early when emit returns false
// (soft deadline reached).
func Clause[T any](r *Run, name string, o Opts, gen func(emit func(T) bool), check func(T) Outcome) {
	if r.replayCase != nil {
		if r.replayCase.Clause != name {
			return
		}
		var c T
		if err := json.Unmarshal(r.replayCase.Case, &c); err != nil {
			fmt.Fprintln(os.Stderr, "cannot decode replay case:", err)
			os.Exit(2)
		}
		r.replayDone = true
		out := check(c)
		fmt.Printf("REPLAY property=%s clause=%s\n", r.ID, name)
		if out.Fail != "" {
			fmt.Printf("  reproduced: %s\n", out.Fail)
			r.viol = append(r.viol, violation{Clause: name, Case: r.replayCase.Case, Fail: out.Fail, Known: out.Known})
		} else {
			fmt.Printf("  case passes (class %q)\n", out.Class)
		}
		return
	}
	st := &ClauseStat{Name: name, Rule: o.Rule, Bounds: o.Bounds, Exhaustive: true}
	t0 := time.Now()
	workers := o.Workers
	if workers <= 0 {
		workers = runtime.GOMAXPROCS(0)
	}
	if o.Serial || r.oneWorker {
		workers = 1
	}
	type wstate struct {
		hashes    []uint64
		classes   map[string]struct{}
		cases     int64
		evals     int64
		viol      []violation
		nFresh    int // violations kept that no listed finding explains
		nKnown    int // kept ones that a listed finding explains (separate budget: thousands of known ones must never crowd out a fresh one)
		samples   []item[T]
		lastItem  *item[T]
		compactAt int
	}
	ws := make([]*wstate, workers)
	var wg sync.WaitGroup
	ch := make(chan []item[T], workers*4)
	var stop atomic.Bool
	var nviol atomic.Int64
	for w := 0; w < workers; w++ {
		s := &wstate{classes: map[string]struct{}{}, compactAt: 1 << 21}
		ws[w] = s
		wg.Add(1)
		go func() {
			defer wg.Done()
			for batch := range ch {
				for _, it := range batch {
					out := safeCheck(check, it.c)
					if out.Skip {
						continue
					}
					s.cases++
					if out.Evals > 0 {
						s.evals += int64(out.Evals)
					} else {
						s.evals++
					}
					if _, ok := s.classes[out.Class]; !ok && len(s.classes) < 4096 {
						s.classes[out.Class] = struct{}{}
					}
					if out.Nontrivial {
						s.hashes = append(s.hashes, hashCase(name, it.c))
						if len(s.hashes) >= s.compactAt {
							s.hashes = uniq(s.hashes)
							s.compactAt = max(1<<21, 2*len(s.hashes)) // amortised: never re-sort an already compacted list per case
						}
					}
					if out.Fail != "" {
						keep := false
						if out.Known == "" {
							keep = s.nFresh < 64
							s.nFresh++
						} else {
							keep = s.nKnown < 8
							s.nKnown++
						}
						if keep {
							b, _ := json.Marshal(it.c)
							if out.ReplayCase != nil {
								b, _ = json.Marshal(out.ReplayCase)
							}
							s.viol = append(s.viol, violation{Clause: name, Seq: it.seq, Case: b, Fail: out.Fail, Known: out.Known})
						}
						if out.Known == "" {
							if nviol.Add(1) >= 200 {
								stop.Store(true)
							}
						} else {
							r.noteKnown(out.Known, it.c)
						}
					}
					if it.seq < 2 {
						s.samples = append(s.samples, it)
					}
					itc := it
					s.lastItem = &itc
				}
			}
		}()
	}
	var seq int64
	batch := make([]item[T], 0, 256)
	var mid []item[T] // reservoir at powers of two for "evenly spread" samples
	emit := func(c T) bool {
		if stop.Load() {
			return false
		}
		if seq&(seq-1) == 0 && seq > 2 {
			mid = append(mid, item[T]{seq, c})
		}
		batch = append(batch, item[T]{seq, c})
		seq++
		if len(batch) == cap(batch) {
			ch <- batch
			batch = make([]item[T], 0, 256)
			if seq&0xfff == 0 && r.Expired() {
				st.Exhaustive = false
				r.mu.Lock()
				r.hitCap = append(r.hitCap, fmt.Sprintf("clause %s: soft deadline reached after %d cases", name, seq))
				r.mu.Unlock()
				stop.Store(true)
				return false
			}
		}
		return true
	}
	gen(emit)
	if len(batch) > 0 {
		ch <- batch
	}
	close(ch)
	wg.Wait()
	r.freshTotal += nviol.Load()
	if stop.Load() && nviol.Load() >= 200 {
		st.Exhaustive = false
	}
	// merge
	var all []uint64
	classes := map[string]struct{}{}
	var last *item[T]
	var firsts []item[T]
	for _, s := range ws {
		all = append(all, s.hashes...)
		for c := range s.classes {
			classes[c] = struct{}{}
		}
		st.Cases += s.cases
		st.Evaluations += s.evals
		r.viol = append(r.viol, s.viol...)
		firsts = append(firsts, s.samples...)
		if s.lastItem != nil && (last == nil || s.lastItem.seq > last.seq) {
			last = s.lastItem
		}
	}
	st.Nontrivial = int64(len(uniq(all)))
	for c := range classes {
		st.Outcomes = append(st.Outcomes, c)
	}
	sort.Strings(st.Outcomes)
	if len(st.Outcomes) > 40 {
		n := len(st.Outcomes)
		st.Outcomes = append(st.Outcomes[:40], fmt.Sprintf("… %d classes in total", n))
	}
	st.WallS = time.Since(t0).Seconds()
	sort.Slice(firsts, func(i, j int) bool { return firsts[i].seq < firsts[j].seq })
	add := func(it item[T]) {
		r.samples = append(r.samples, map[string]any{"clause": name, "seq": it.seq, "case": it.c})
	}
	for _, it := range firsts {
		add(it)
	}
	for i, it := range mid {
		if i%6 == 5 && len(mid) > 0 {
			add(it)
		}
	}
	if last != nil && last.seq >= 2 {
		add(*last)
	}
	r.mu.Lock()
	r.clauses = append(r.clauses, st)
	r.mu.Unlock()
	fmt.Printf("  clause %-28s cases=%-10d evals=%-10d nontrivial=%-9d classes=%-4d exhaustive=%v  %.1fs\n",
		name, st.Cases, st.Evaluations, st.Nontrivial, len(classes), st.Exhaustive, st.WallS)
}

// safeCheck runs check and turns a panic that the driver did not expect (and therefore did not
// catch itself) into a failing outcome: on the unchanged tree no case panics, so a panic that
// escapes a driver comes from library code called where the property promises a result.
func safeCheck[T any](check func(T) Outcome, c T) (out Outcome) {
	defer func() {
		if r := recover(); r != nil {
			st := string(debug.Stack())
			if i := strings.Index(st, "panic("); i >= 0 {
				st = st[i:]
			}
			out = Failf("unexpected panic while executing this case: %v\n%s", r, trunc(st, 1500))
		}
	}()
	return check(c)
}

// AddSearch lets an explicit-state clause report states/transitions.
func (r *Run) AddSearch(states, transitions, traces int64) {
	atomic.AddInt64(&r.States, states)
	atomic.AddInt64(&r.Trans, transitions)
	atomic.AddInt64(&r.Traces, traces)
}

func (r *Run) noteKnown(id string, c any) {
	r.mu.Lock()
	h := r.knownHits[id]
	if h == nil {
		b, _ := json.Marshal(c)
		h = &knownHit{witness: string(b)}
		r.knownHits[id] = h
	}
	h.n++
	r.mu.Unlock()
}

func hashCase(clause string, c any) uint64 {
	h := fnv.New64a()
	h.Write([]byte(clause))
	h.Write([]byte{0})
	switch v := c.(type) {
	case string:
		h.Write([]byte(v))
	case []byte:
		h.Write(v)
	case interface{ Key() string }:
		h.Write([]byte(v.Key()))
	default:
		b, _ := json.Marshal(c)
		h.Write(b)
	}
	return h.Sum64()
}

func uniq(a []uint64) []uint64 {
	if len(a) < 2 {
		return a
	}
	sort.Slice(a, func(i, j int) bool { return a[i] < a[j] })
	w := 1
	for i := 1; i < len(a); i++ {
		if a[i] != a[w-1] {
			a[w] = a[i]
			w++
		}
	}
	return a[:w]
}

// Finish writes the evidence file, the replay files, prints the verdict lines and returns the
// process exit status.
func (r *Run) Finish() int {
	if r.replayCase != nil {
		if !r.replayDone {
			fmt.Printf("replay: clause %q not found in property %s\n", r.replayCase.Clause, r.ID)
			return 2
		}
		for _, v := range r.viol {
			if v.Known == "" {
				fmt.Printf("VIOLATION property=%s replay=%s\n", r.ID, r.Replay)
				return 1
			}
			fmt.Printf("KNOWN-FINDING: property=%s %s\n", r.ID, r.knownText(v.Known))
		}
		return 0
	}
	sort.SliceStable(r.viol, func(i, j int) bool {
		a, b := r.viol[i], r.viol[j]
		ia, ib := r.clauseIndex(a.Clause), r.clauseIndex(b.Clause)
		if ia != ib {
			return ia < ib
		}
		return a.Seq < b.Seq
	})
	var fresh []violation
	for _, v := range r.viol {
		if v.Known == "" {
			fresh = append(fresh, v)
		}
	}
	var evals, cases, nontriv int64
	exhaustive := true
	outcomes := map[string]struct{}{}
	var rules []string
	for _, c := range r.clauses {
		evals += c.Evaluations
		cases += c.Cases
		nontriv += c.Nontrivial
		exhaustive = exhaustive && c.Exhaustive
		for _, o := range c.Outcomes {
			outcomes[c.Name+"/"+o] = struct{}{}
		}
		if c.Rule != "" {
			merged := false
			for i := range rules {
				if strings.HasSuffix(rules[i], ": "+c.Rule) {
					rules[i] = c.Name + ", " + rules[i]
					merged = true
					break
				}
			}
			if !merged {
				rules = append(rules, c.Name+": "+c.Rule)
			}
		}
	}
	cov := map[string]any{
		"evaluations":            evals,
		"cases":                  cases,
		"distinct_nontrivial":    nontriv,
		"rule":                   "Cases are enumerated completely (never sampled) clause by clause, simplest first; a case is hashed (FNV-64 of its canonical JSON encoding, per clause) into a set and counted once if it is non-trivial by the clause's rule. " + strings.Join(rules, " | "),
		"samples":                r.samples,
		"exhaustive":             exhaustive && len(r.hitCap) == 0,
		"distinct_outcomes":      len(outcomes),
		"clauses":                r.clauses,
		"bounds":                 r.bounds,
		"caps_hit":               r.hitCap,
		"known_findings_matched": r.knownSummary(),
	}
	if r.States > 0 {
		cov["states"] = r.States
		cov["transitions"] = r.Trans
		cov["traces_validated_against_impl"] = r.Traces
	}
	for k, v := range r.extra {
		cov[k] = v
	}
	if len(r.samples) == 0 {
		cov["samples"] = []any{"(no case generated)"}
	}
	if r.assume == nil {
		r.assume = []string{}
	}
	if r.hitCap == nil {
		cov["caps_hit"] = []string{}
	}
	ev := map[string]any{
		"property_id": r.ID, "tier": r.Tier, "seed": r.Seed, "level": r.Level,
		"coverage": cov, "assumptions": r.assume,
		"wall_s": time.Since(r.start).Seconds(), "violations": len(fresh),
	}
	evDir := filepath.Join(r.Root, "evidence")
	if d := os.Getenv("VERIF_EVIDENCE_DIR"); d != "" {
		evDir = d // used by the mutant / seeded-change self-tests so that they do not overwrite real evidence
	}
	os.MkdirAll(evDir, 0o755)
	b, _ := json.MarshalIndent(ev, "", " ")
	evPath := filepath.Join(evDir, r.ID+".json")
	if err := os.WriteFile(evPath, append(b, '\n'), 0o644); err != nil {
		fmt.Fprintln(os.Stderr, "cannot write evidence:", err)
		return 2
	}
	fmt.Printf("property %s tier=%s cases=%d evaluations=%d distinct_nontrivial=%d outcomes=%d exhaustive=%v wall=%.1fs\n",
		r.ID, r.Tier, cases, evals, nontriv, len(outcomes), exhaustive && len(r.hitCap) == 0, time.Since(r.start).Seconds())
	for _, c := range r.hitCap {
		fmt.Println("  cap:", c)
	}
	if len(r.harnessErr) > 0 && len(fresh) == 0 {
		for _, e := range r.harnessErr {
			fmt.Println("HARNESS-ERROR:", e)
		}
		return 2
	}
	// Observations that did not repeat are not believed on their own (above). Next to other violations they
	// are reported as what they then most likely are - the library keeping state between calls - and the
	// other violations decide the exit code.
	for _, e := range r.harnessErr {
		fmt.Println("NOT-REPEATABLE (reported next to the violations below, not counted):", e)
	}
	ids := make([]string, 0, len(r.knownHits))
	for id := range r.knownHits {
		ids = append(ids, id)
	}
	sort.Strings(ids)
	for _, id := range ids {
		h := r.knownHits[id]
		fmt.Printf("KNOWN-FINDING: property=%s %s (matched on %d enumerated cases; first: %s)\n", r.ID, r.knownText(id), h.n, trunc(h.witness, 200))
	}
	if len(fresh) == 0 {
		if r.freshTotal > 0 {
			fmt.Printf("HARNESS-ERROR property=%s: %d failing outcomes were counted but none was kept for reporting\n", r.ID, r.freshTotal)
			return 2
		}
		return 0
	}
	replayDir := filepath.Join(r.Root, "replays")
	if d := os.Getenv("VERIF_EVIDENCE_DIR"); d != "" {
		replayDir = filepath.Join(d, "replays")
	}
	os.MkdirAll(replayDir, 0o755)
	seen := map[string]bool{}
	printed := 0
	for _, v := range fresh {
		rf := replayFile{Property: r.ID, Clause: v.Clause, Case: v.Case, Fail: v.Fail,
			Note: "re-execute with: ./run.sh " + r.ID + " --replay <this file>"}
		jb, _ := json.MarshalIndent(rf, "", " ")
		h := fnv.New64a()
		h.Write([]byte(v.Clause))
		h.Write(v.Case)
		p := filepath.Join(replayDir, fmt.Sprintf("%s-%016x.json", r.ID, h.Sum64()))
		if seen[p] {
			continue
		}
		seen[p] = true
		if printed >= 5 {
			continue
		}
		os.WriteFile(p, append(jb, '\n'), 0o644)
		fmt.Printf("VIOLATION property=%s replay=%s\n", r.ID, p)
		fmt.Printf("  clause=%s: %s\n  case=%s\n", v.Clause, trunc(v.Fail, 600), trunc(string(v.Case), 600))
		printed++
	}
	if len(seen) > printed {
		fmt.Printf("  (%d further violating cases not written)\n", len(seen)-printed)
	}
	return 1
}

func trunc(s string, n int) string {
	if len(s) <= n {
		return s
	}
	return s[:n] + fmt.Sprintf("…(+%d bytes)", len(s)-n)
}

func (r *Run) clauseIndex(name string) int {
	for i, c := range r.clauses {
		if c.Name == name {
			return i
		}
	}
	return len(r.clauses)
}

func (r *Run) knownText(id string) string {
	for _, k := range r.known {
		if k.ID == id {
			return k.Text
		}
	}
	return id
}

func (r *Run) knownSummary() any {
	out := map[string]any{}
	for id, h := range r.knownHits {
		out[id] = map[string]any{"cases": h.n, "first": trunc(h.witness, 300)}
	}
	return out
}

// KnownListed reports whether a finding with this id is listed (as finding:, not fixed:) in
// KNOWN_FINDINGS.txt for this property.
func (r *Run) KnownListed(id string) bool {
	for _, k := range r.known {
		if k.ID == id {
			return true
		}
	}
	return false
}
