#!/bin/bash
# setup_cmd: warm the Go build cache and build the explorer once, offline.
set -eu
cd "$(dirname "$0")"
ROOT="$(pwd)"
export GOFLAGS=-mod=mod GOPROXY=off GOSUMDB=off GOTOOLCHAIN=local
export GOCACHE="${GOCACHE:-$ROOT/.cache/go-build}"
mkdir -p "$ROOT/bin" "$ROOT/evidence" "$ROOT/.scratch" "$GOCACHE"
cd "$ROOT/mc"
cp /repo/go.sum go.sum
go build -tags verif -o "$ROOT/bin/mc" ./cmd/mc
go test ./engine/... >/dev/null
echo "setup ok: $("$ROOT/bin/mc" list x | tr '\n' ' ')"
