#!/bin/bash
# seedrun.sh [pattern] — the literal procedure for every vetted seeded change under /verif/seeded:
#   git -C /repo apply <patch>; run the property's quick check; git -C /repo checkout -- .
# Requires a clean /repo and nothing else building from /repo meanwhile. Results -> seeded/RESULTS.txt
set -u
cd "$(dirname "$0")/.."
PAT="${1:-.}"
[ -z "$(git -C /repo status --porcelain)" ] || { echo "/repo is not clean"; exit 2; }
: > seeded/RESULTS.tmp
ok=0; bad=0; design=0
for d in seeded/*/; do
  id=$(basename "$d"); echo "$id" | grep -Eq -e "$PAT" || continue
  prop=${id%%-*}
  if ! git -C /repo apply "$PWD/$d/patch.diff" 2>/dev/null; then echo "$id: patch does not apply" | tee -a seeded/RESULTS.tmp; bad=$((bad+1)); continue; fi
  out=$(VERIF_EVIDENCE_DIR="$PWD/.scratch/seedrun-evidence" ./run.sh "$prop" quick 2>&1); rc=$?
  git -C /repo checkout -- . ; git -C /repo clean -fdq
  line=$(echo "$out" | grep -A1 '^VIOLATION' | sed -n 2p | cut -c1-220)
  if [ $rc -eq 1 ] && echo "$out" | grep -q '^VIOLATION'; then echo "$id: DETECTED by ./run.sh $prop quick:$line" | tee -a seeded/RESULTS.tmp; ok=$((ok+1));
  elif grep -q '"detection_status": "NOT DETECTED BY DESIGN' "$d/meta.json"; then echo "$id: not detected, by design (outside the statement's domain, see meta.json) rc=$rc" | tee -a seeded/RESULTS.tmp; design=$((design+1));
  else echo "$id: MISSED (rc=$rc)" | tee -a seeded/RESULTS.tmp; bad=$((bad+1)); fi
done
echo "seeded changes: $ok detected, $design outside the domain by design, $bad missed/broken" | tee -a seeded/RESULTS.tmp
if [ "$PAT" = "." ]; then mv seeded/RESULTS.tmp seeded/RESULTS.txt; else cat seeded/RESULTS.tmp >> seeded/RESULTS.partial.txt; rm -f seeded/RESULTS.tmp; fi
[ -z "$(git -C /repo status --porcelain)" ] || echo "WARNING: /repo not clean after the run"
