package enum

import "testing"

func TestTrees(t *testing.T) {
	// Catalan numbers: trees with n nodes = C(n-1): 1,1,2,5,14,42,132,429,1430,4862,16796
	want := []int{1, 1, 2, 5, 14, 42, 132, 429, 1430, 4862, 16796}
	for n := 1; n <= 11; n++ {
		got := 0
		Trees(n, func(c []int) bool {
			s := 0
			for i, k := range c {
				s += k
				if i < n-1 && s < i+1 {
					t.Fatalf("bad prefix %v", c)
				}
			}
			if s != n-1 {
				t.Fatalf("bad sum %v", c)
			}
			got++
			return true
		})
		if got != want[n-1] {
			t.Fatalf("n=%d got %d want %d", n, got, want[n-1])
		}
	}
}

func TestCounts(t *testing.T) {
	n := 0
	Compositions(5, func(p []int) bool { n++; return true })
	if n != 16 {
		t.Fatal(n)
	}
	n = 0
	Deviations([]int{2, 3, 4}, 2, func(t []int) bool { n++; return true })
	if n != 1+9+(6+8+12) {
		t.Fatal(n)
	}
	n = 0
	Subsets(5, 2, func([]int) bool { n++; return true })
	if n != 1+5+10 {
		t.Fatal(n)
	}
	n = 0
	Sequences(3, 3, func([]int) bool { n++; return true })
	if n != 1+3+9+27 {
		t.Fatal(n)
	}
	if int64(len(AllStrings("ab", 4))) != Count(2, 4) {
		t.Fatal("count")
	}
}

func TestRunes(t *testing.T) {
	n := 0
	Runes(0x80, 0x10FFFF, func(r rune) bool {
		if len(string(r)) < 2 || string(r) == "�" && r != 0xFFFD {
			t.Fatalf("rune %#x has no proper encoding", r)
		}
		n++
		return true
	})
	if n != 0x110000-0x80-0x800 {
		t.Fatalf("got %d runes", n)
	}
}
