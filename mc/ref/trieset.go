package ref

import (
	"sort"
	"strings"
)

// TrieSet is the reference model of the trie: the set M of maximal sequences.
type TrieSet map[string]struct{}

// Add inserts b unless it is empty or already a prefix of a member; members that are proper
// prefixes of b are absorbed.
func (m TrieSet) Add(b string) {
	if b == "" {
		return
	}
	for x := range m {
		if strings.HasPrefix(x, b) {
			return
		}
	}
	for x := range m {
		if strings.HasPrefix(b, x) {
			delete(m, x)
		}
	}
	m[b] = struct{}{}
}

// Delete removes every member with prefix b (b non-empty) and reports whether there was one.
func (m TrieSet) Delete(b string) bool {
	found := false
	for x := range m {
		if strings.HasPrefix(x, b) {
			delete(m, x)
			found = true
		}
	}
	return found
}

// Has is true iff x is empty or a prefix of a member.
func (m TrieSet) Has(x string) bool {
	if x == "" {
		return true
	}
	for y := range m {
		if strings.HasPrefix(y, x) {
			return true
		}
	}
	return false
}

// Members returns the members in ascending order.
func (m TrieSet) Members() []string {
	out := make([]string, 0, len(m))
	for x := range m {
		out = append(out, x)
	}
	sort.Strings(out)
	return out
}
