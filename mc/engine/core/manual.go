package core

import (
	"encoding/json"
	"fmt"
	"os"
	"sort"
	"sync"
	"time"
)

// Manual is a clause whose cases are discovered dynamically (explicit-state search, choice-point
// exploration): the driver executes cases itself and records each one with Record. In replay
// mode Begin returns nil after re-executing the stored case with check.
type Manual[T any] struct {
	r      *Run
	st     *ClauseStat
	t0     time.Time
	shards [64]manualShard[T]
	seq    int64
	seqMu  sync.Mutex
}

type manualShard[T any] struct {
	mu        sync.Mutex
	hashes    []uint64
	classes   map[string]struct{}
	cases     int64
	evals     int64
	viol      []violation
	nFresh    int
	nKnown    int
	first     *item[T]
	last      *item[T]
	compactAt int
}

// Begin starts a manual clause. check is used for replay only (and is normally the same function
// the driver uses to execute a case).
func Begin[T any](r *Run, name string, o Opts, check func(T) Outcome) *Manual[T] {
	if r.replayCase != nil {
		if r.replayCase.Clause != name {
			return nil
		}
		var c T
		if err := json.Unmarshal(r.replayCase.Case, &c); err != nil {
			fmt.Fprintln(os.Stderr, "cannot decode replay case:", err)
			os.Exit(2)
		}
		r.replayDone = true
		out := check(c)
		fmt.Printf("REPLAY property=%s clause=%s\n", r.ID, name)
		if out.Fail != "" {
			fmt.Printf("  reproduced: %s\n", out.Fail)
			r.viol = append(r.viol, violation{Clause: name, Case: r.replayCase.Case, Fail: out.Fail, Known: out.Known})
		} else {
			fmt.Printf("  case passes (class %q)\n", out.Class)
		}
		return nil
	}
	m := &Manual[T]{r: r, st: &ClauseStat{Name: name, Rule: o.Rule, Bounds: o.Bounds, Exhaustive: true}, t0: time.Now()}
	for i := range m.shards {
		m.shards[i].classes = map[string]struct{}{}
	}
	return m
}

// Record accounts for one executed case. seq orders violations (smaller = simpler); pass -1 to
// use arrival order. Safe for concurrent use.
func (m *Manual[T]) Record(seq int64, c T, out Outcome) {
	if out.Skip {
		return
	}
	h := hashCase(m.st.Name, c)
	s := &m.shards[h&63]
	if seq < 0 {
		m.seqMu.Lock()
		seq = m.seq
		m.seq++
		m.seqMu.Unlock()
	}
	s.mu.Lock()
	s.cases++
	if out.Evals > 0 {
		s.evals += int64(out.Evals)
	} else {
		s.evals++
	}
	if len(s.classes) < 1024 {
		s.classes[out.Class] = struct{}{}
	}
	if out.Nontrivial {
		s.hashes = append(s.hashes, h)
		if s.compactAt == 0 {
			s.compactAt = 1 << 20
		}
		if len(s.hashes) >= s.compactAt {
			s.hashes = uniq(s.hashes)
			s.compactAt = max(1<<20, 2*len(s.hashes))
		}
	}
	if out.Fail != "" && ((out.Known == "" && s.nFresh < 16) || (out.Known != "" && s.nKnown < 8)) {
		if out.Known == "" {
			s.nFresh++
		} else {
			s.nKnown++
		}
		b, _ := json.Marshal(c)
		s.viol = append(s.viol, violation{Clause: m.st.Name, Seq: seq, Case: b, Fail: out.Fail, Known: out.Known})
	}
	if s.first == nil || seq < s.first.seq {
		s.first = &item[T]{seq, c}
	}
	if s.last == nil || seq > s.last.seq {
		s.last = &item[T]{seq, c}
	}
	s.mu.Unlock()
	if out.Fail != "" && out.Known != "" {
		m.r.noteKnown(out.Known, c)
	}
}

// Incomplete marks the clause as not exhaustive (a cap or the soft deadline was hit).
func (m *Manual[T]) Incomplete(why string) {
	m.st.Exhaustive = false
	m.r.mu.Lock()
	m.r.hitCap = append(m.r.hitCap, "clause "+m.st.Name+": "+why)
	m.r.mu.Unlock()
}

// End merges the shards into the run.
func (m *Manual[T]) End(states, transitions int64) {
	var all []uint64
	classes := map[string]struct{}{}
	var first, last *item[T]
	for i := range m.shards {
		s := &m.shards[i]
		all = append(all, s.hashes...)
		for c := range s.classes {
			classes[c] = struct{}{}
		}
		m.st.Cases += s.cases
		m.st.Evaluations += s.evals
		m.r.viol = append(m.r.viol, s.viol...)
		if s.first != nil && (first == nil || s.first.seq < first.seq) {
			first = s.first
		}
		if s.last != nil && (last == nil || s.last.seq > last.seq) {
			last = s.last
		}
	}
	m.st.Nontrivial = int64(len(uniq(all)))
	for c := range classes {
		m.st.Outcomes = append(m.st.Outcomes, c)
	}
	sort.Strings(m.st.Outcomes)
	if len(m.st.Outcomes) > 40 {
		n := len(m.st.Outcomes)
		m.st.Outcomes = append(m.st.Outcomes[:40], fmt.Sprintf("… %d classes in total", n))
	}
	m.st.States, m.st.Transitions = states, transitions
	m.st.WallS = time.Since(m.t0).Seconds()
	if first != nil {
		m.r.samples = append(m.r.samples, map[string]any{"clause": m.st.Name, "seq": first.seq, "case": first.c})
	}
	if last != nil && (first == nil || last.seq != first.seq) {
		m.r.samples = append(m.r.samples, map[string]any{"clause": m.st.Name, "seq": last.seq, "case": last.c})
	}
	m.r.mu.Lock()
	m.r.clauses = append(m.r.clauses, m.st)
	m.r.mu.Unlock()
	if states > 0 {
		m.r.AddSearch(states, transitions, transitions)
	}
	fmt.Printf("  clause %-28s cases=%-10d evals=%-10d nontrivial=%-9d classes=%-4d exhaustive=%v  %.1fs",
		m.st.Name, m.st.Cases, m.st.Evaluations, m.st.Nontrivial, len(classes), m.st.Exhaustive, m.st.WallS)
	if states > 0 {
		fmt.Printf("  states=%d transitions=%d", states, transitions)
	}
	fmt.Println()
}
