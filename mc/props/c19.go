package props

import (
	"fmt"
	"math"
	"runtime/debug"
	"strings"

	"github.com/fluhus/biostuff/formats/newick"

	"verif/mc/engine/core"
	"verif/mc/engine/enum"
)

func init() {
	register("C19", "exploration", runC19)
	Hidden["deep-C19"] = deepBodyC19
}

// deepBodyC19 runs in a subprocess with the goroutine stack capped at 16 MiB: a traversal that
// recurses as deep as the tree (about 50-100 bytes per level) dies on a chain of 10^6 nodes, an
// explicit-stack traversal needs a few KiB. The expected order is computed without recursion.
func deepBodyC19() int {
	debug.SetMaxStack(16 << 20)
	const n = 1000000
	nodes := make([]*newick.Node, n)
	for i := range nodes {
		nodes[i] = &newick.Node{}
	}
	for i := 0; i < n-1; i++ {
		nodes[i].Children = []*newick.Node{nodes[i+1]}
	}
	i := 0
	for x := range nodes[0].PreOrder() {
		if i >= n || x != nodes[i] {
			fmt.Println("PreOrder on a chain of 10^6 nodes deviates at position", i)
			return 1
		}
		i++
	}
	if i != n {
		fmt.Println("PreOrder yielded", i, "nodes, want", n)
		return 1
	}
	i = 0
	for x := range nodes[0].PostOrder() {
		if i >= n || x != nodes[n-1-i] {
			fmt.Println("PostOrder on a chain of 10^6 nodes deviates at position", i)
			return 1
		}
		i++
	}
	if i != n {
		fmt.Println("PostOrder yielded", i, "nodes, want", n)
		return 1
	}
	fmt.Println("deep traversal ok under a 16 MiB stack cap")
	return 0
}

// buildTree builds a tree from a pre-order child-count code and returns the nodes in pre-order.
func buildTree(code []int) (*newick.Node, []*newick.Node) {
	nodes := make([]*newick.Node, len(code))
	for i := range nodes {
		nodes[i] = &newick.Node{Name: fmt.Sprint("n", i), Distance: float64(i)}
	}
	pos := 0
	var rec func() *newick.Node
	rec = func() *newick.Node {
		i := pos
		pos++
		n := nodes[i]
		for k := 0; k < code[i]; k++ {
			n.Children = append(n.Children, rec())
		}
		return n
	}
	root := rec()
	return root, nodes
}

// buildSlabTree builds the same tree with all nodes kept in ONE slice (children first, then
// their parent) and every Children slice a sub-slice of it with spare capacity behind it: an
// append to a Children slice would land in a sibling's storage.
func buildSlabTree(code []int) (*newick.Node, []*newick.Node) {
	n := len(code)
	// children lists per node (pre-order numbering)
	kids := make([][]int, n)
	pos := 0
	var rec func() int
	rec = func() int {
		i := pos
		pos++
		for k := 0; k < code[i]; k++ {
			kids[i] = append(kids[i], rec())
		}
		return i
	}
	rec()
	nodes := make([]*newick.Node, n)
	for i := range nodes {
		nodes[i] = &newick.Node{Name: fmt.Sprint("n", i), Distance: float64(i)}
	}
	// slab: the child lists of all nodes laid out one after another, followed by the root
	slab := make([]*newick.Node, 0, n+1)
	start := make([]int, n)
	for i := 0; i < n; i++ {
		start[i] = len(slab)
		for _, k := range kids[i] {
			slab = append(slab, nodes[k])
		}
	}
	slab = append(slab, nodes[0])
	for i := 0; i < n; i++ {
		if len(kids[i]) > 0 {
			nodes[i].Children = slab[start[i] : start[i]+len(kids[i])] // cap extends over the rest of the slab
		}
	}
	return nodes[0], nodes
}

func refPre(n *newick.Node, out *[]*newick.Node) {
	*out = append(*out, n)
	for _, c := range n.Children {
		refPre(c, out)
	}
}

func refPost(n *newick.Node, out *[]*newick.Node) {
	for _, c := range n.Children {
		refPost(c, out)
	}
	*out = append(*out, n)
}

type nodeSnap struct {
	name string
	dist float64
	kids []*newick.Node
}

func snapTree(nodes []*newick.Node) []nodeSnap {
	out := make([]nodeSnap, len(nodes))
	for i, n := range nodes {
		out[i] = nodeSnap{n.Name, n.Distance, append([]*newick.Node(nil), n.Children...)}
	}
	return out
}

func sameSnap(a, b []nodeSnap) bool {
	if len(a) != len(b) {
		return false
	}
	for i := range a {
		if a[i].name != b[i].name || a[i].dist != b[i].dist || len(a[i].kids) != len(b[i].kids) {
			return false
		}
		for j := range a[i].kids {
			if a[i].kids[j] != b[i].kids[j] {
				return false
			}
		}
	}
	return true
}

type c19Tree struct {
	Code []int `json:"preorder_child_counts"`
}

type c19Big struct {
	Kind string `json:"kind"`
	N    int    `json:"n"`
}

func checkTraversal(root *newick.Node, nodes []*newick.Node, what string) core.Outcome {
	before := snapTree(nodes)
	var wantPre, wantPost []*newick.Node
	refPre(root, &wantPre)
	refPost(root, &wantPost)
	index := make(map[*newick.Node]int, len(nodes))
	for i, n := range nodes {
		index[n] = i
	}
	render := func(s []*newick.Node) string {
		if len(s) > 24 {
			return fmt.Sprintf("(%d nodes)", len(s))
		}
		out := ""
		for _, n := range s {
			out += fmt.Sprint(index[n], " ")
		}
		return out
	}
	for pass, want := range [][]*newick.Node{wantPre, wantPost} {
		var got []*newick.Node
		name := []string{"PreOrder", "PostOrder"}[pass]
		p := catch(func() {
			it := root.PreOrder()
			if pass == 1 {
				it = root.PostOrder()
			}
			for n := range it {
				got = append(got, n)
				if len(got) > 2*len(nodes)+2 {
					panic("traversal yields more than twice the number of nodes")
				}
			}
		})
		if p != "" {
			return core.Failf("%s on %s panicked: %s", name, what, p)
		}
		if len(got) != len(want) {
			return core.Failf("%s on %s yielded %d nodes, want %d: got %s want %s", name, what, len(got), len(want), render(got), render(want))
		}
		for i := range got {
			if got[i] != want[i] {
				return core.Failf("%s on %s differs from the recursive order at position %d: got %s want %s", name, what, i, render(got), render(want))
			}
		}
	}
	// A walk that the consumer abandons yields a prefix of the full walk and nothing after the stop:
	// "every node exactly once" must not turn into "some node once more" when part of the tree is handed
	// to a helper that cannot report the stop back (a deep subtree, a wide node, a fast path for leaves).
	// Small trees: every stop position; large ones: positions around every power of two up to 2^17, around
	// 1000 and 10 000, the middle and the end.
	var stops []int
	if len(nodes) <= 24 {
		for t := 1; t <= len(nodes); t++ {
			stops = append(stops, t)
		}
	} else {
		for _, c := range []int{1, 2, 4, 8, 16, 32, 64, 128, 256, 512, 1000, 1024, 2048, 4096, 8192, 10000, 16384, 32768, 65536, 131072, len(nodes) / 2, len(nodes)} {
			for d := -2; d <= 2; d++ {
				if t := c + d; t >= 1 && t <= len(nodes) && t <= 140000 {
					stops = append(stops, t)
				}
			}
		}
	}
	evals := 2
	for pass, want := range [][]*newick.Node{wantPre, wantPost} {
		name := []string{"PreOrder", "PostOrder"}[pass]
		for _, t := range stops {
			calls, wrongAt := 0, -1
			p := catch(func() {
				it := root.PreOrder()
				if pass == 1 {
					it = root.PostOrder()
				}
				it(func(n *newick.Node) bool {
					if calls < len(want) && n != want[calls] && wrongAt < 0 {
						wrongAt = calls
					}
					calls++
					return calls < t && calls < 2*len(nodes)+2
				})
			})
			evals++
			if p != "" {
				return core.Failf("%s on %s abandoned after %d nodes panicked: %s", name, what, t, p)
			}
			if calls != t {
				return core.Failf("%s on %s abandoned after %d nodes: %d nodes were yielded (nodes after the stop)", name, what, t, calls)
			}
			if wrongAt >= 0 {
				return core.Failf("%s on %s abandoned after %d nodes: node %d differs from the recursive order", name, what, t, wrongAt)
			}
		}
	}
	if !sameSnap(before, snapTree(nodes)) {
		return core.Failf("traversal modified the tree %s", what)
	}
	return core.Outcome{Class: fmt.Sprint("nodes", min(len(nodes), 12)), Nontrivial: len(nodes) >= 3, Evals: evals}
}

func runC19(r *core.Run) {
	firstCallClause(r, "newick.traversals")
	racePass(r, "race-C19", "PreOrder and PostOrder of one shared tree")

	N := core.Pick(r, 9, 14)
	r.Bound("trees", fmt.Sprintf("every ordered tree with 1..%d nodes", N))
	core.Clause(r, "all-trees", core.Opts{Rule: "every ordered rooted tree (Łukasiewicz code) up to the node bound (built node by node, from one slab, with empty non-nil leaf slices, and with 7 payload variants: all blank, blank leaves, blank inner nodes, identical payloads, infinite distances, every node named #H1, names from the extended-Newick vocabulary), PreOrder and PostOrder each vs the recursive reference by node identity; non-trivial = at least 3 nodes"},
		func(emit func(c19Tree) bool) {
			enum.TreesUpTo(N, func(c []int) bool { return emit(c19Tree{append([]int(nil), c...)}) })
		},
		func(c c19Tree) core.Outcome {
			root, nodes := buildTree(c.Code)
			out := checkTraversal(root, nodes, fmt.Sprint("tree ", c.Code))
			if out.Fail != "" {
				return out
			}
			root, nodes = buildSlabTree(c.Code)
			o2 := checkTraversal(root, nodes, fmt.Sprint("tree ", c.Code, " with all Children slices cut from one slab (spare capacity behind each)"))
			if o2.Fail != "" {
				return o2
			}
			out.Evals += o2.Evals
			// leaves represented by an empty non-nil slice / a zero-length slice with capacity
			for variant := 0; variant < 2; variant++ {
				root, nodes = buildTree(c.Code)
				for _, n := range nodes {
					if len(n.Children) == 0 {
						if variant == 0 {
							n.Children = []*newick.Node{}
						} else {
							n.Children = make([]*newick.Node, 0, 3)
						}
					}
				}
				o3 := checkTraversal(root, nodes, fmt.Sprint("tree ", c.Code, " whose leaves have an empty non-nil Children slice (variant ", variant, ")"))
				if o3.Fail != "" {
					return o3
				}
				out.Evals += o3.Evals
			}
			// node payloads: the traversal is about the Children structure only; what a node carries
			// (no name, zero distance, equal names, NaN) must not decide whether or when it is yielded
			for variant, what := range []string{"every node blank (empty name, distance 0)", "blank leaves", "blank inner nodes", "all nodes carry the same name and distance", "distances +Inf and -Inf",
				"every node named #H1 (extended-Newick hybrid label)", "names cycling through x#H1, #H1, y#H1, #LGT2, #R1, [&&NHX:x=1], 'q', ;"} {
				root, nodes = buildTree(c.Code)
				for _, n := range nodes {
					leaf := len(n.Children) == 0
					switch {
					case variant == 0, variant == 1 && leaf, variant == 2 && !leaf:
						n.Name, n.Distance = "", 0
					case variant == 3:
						n.Name, n.Distance = "same", 1
					case variant == 4:
						n.Distance = []float64{math.Inf(1), math.Inf(-1)}[len(n.Children)%2]
					case variant == 5:
						n.Name = "#H1"
					case variant == 6:
						n.Name = []string{"x#H1", "#H1", "y#H1", "#LGT2", "#R1", "[&&NHX:x=1]", "'q'", ";"}[int(n.Distance)%8]
					}
				}
				o4 := checkTraversal(root, nodes, fmt.Sprint("tree ", c.Code, " with ", what))
				if o4.Fail != "" {
					return o4
				}
				out.Evals += o4.Evals
			}
			return out
		})

	// A tree is a mutable structure: it is traversed, edited (a subtree grafted on, a branch pruned), and
	// traversed again - by new iterators obtained after the edit. Anything a traversal remembers about a
	// root beyond its own run (a depth hint, a cached order) is stale by then.
	type c19Edit struct {
		Code []int  `json:"preorder_child_counts"`
		Edit string `json:"edit"`
		Node int    `json:"at_node"`
	}
	NE := core.Pick(r, 6, 8)
	edits := []string{"append-leaf", "prepend-leaf", "graft-chain-of-4", "graft-bush", "drop-last-child", "drop-all-children", "replace-children-by-one-leaf"}
	r.Bound("traversal-after-the-tree-changed", fmt.Sprintf("every ordered tree with 1..%d nodes x every node x the edits %v; both traversals run to completion (and once more, stopped after one item) before the edit", NE, edits))
	core.Clause(r, "traversal-after-the-tree-changed", core.Opts{Rule: "the tree is traversed in both orders, edited at one node, and traversed again by iterators obtained after the edit: PreOrder and PostOrder of the edited tree vs the recursive reference by node identity, whatever was traversed from the same root before; non-trivial = all"},
		func(emit func(c19Edit) bool) {
			enum.TreesUpTo(NE, func(c []int) bool {
				for i := range c {
					for _, e := range edits {
						if !emit(c19Edit{append([]int(nil), c...), e, i}) {
							return false
						}
					}
				}
				return true
			})
		},
		func(c c19Edit) core.Outcome {
			root, nodes := buildTree(c.Code)
			out := checkTraversal(root, nodes, fmt.Sprint("tree ", c.Code, " before the edit"))
			if out.Fail != "" {
				return out
			}
			for range root.PreOrder() {
				break
			}
			for range root.PostOrder() {
				break
			}
			n := nodes[c.Node]
			leaf := func(name string) *newick.Node { return &newick.Node{Name: name, Distance: 100} }
			switch c.Edit {
			case "append-leaf":
				n.Children = append(n.Children, leaf("new"))
			case "prepend-leaf":
				n.Children = append([]*newick.Node{leaf("new")}, n.Children...)
			case "graft-chain-of-4":
				n.Children = append(n.Children, &newick.Node{Name: "g1", Children: []*newick.Node{{Name: "g2", Children: []*newick.Node{{Name: "g3", Children: []*newick.Node{leaf("g4")}}}}}})
			case "graft-bush":
				n.Children = append(n.Children, &newick.Node{Name: "h", Children: []*newick.Node{leaf("h1"), {Name: "h2", Children: []*newick.Node{leaf("h21"), leaf("h22")}}, leaf("h3")}})
			case "drop-last-child":
				if len(n.Children) == 0 {
					return core.Outcome{Skip: true}
				}
				n.Children = n.Children[:len(n.Children)-1]
			case "drop-all-children":
				if len(n.Children) == 0 {
					return core.Outcome{Skip: true}
				}
				n.Children = nil
			case "replace-children-by-one-leaf":
				n.Children = []*newick.Node{leaf("only")}
			}
			var after []*newick.Node
			refPre(root, &after)
			o2 := checkTraversal(root, after, fmt.Sprint("tree ", c.Code, " after it was traversed and then edited (", c.Edit, " at node ", c.Node, ")"))
			if o2.Fail != "" {
				return o2
			}
			return core.Outcome{Class: c.Edit, Nontrivial: true, Evals: out.Evals + o2.Evals + 2}
		})

	core.Clause(r, "no-recursion", core.Opts{Serial: true, Rule: "a chain of 10^6 nodes traversed in a subprocess whose goroutine stack is capped at 16 MiB (debug.SetMaxStack): any recursion that is as deep as the tree overflows, an explicit stack does not; order checked against the chain itself; non-trivial = all"},
		func(emit func(c19Big) bool) { emit(c19Big{"chain-under-16MiB-stack-cap", 1000000}) },
		func(c c19Big) core.Outcome {
			out, code, err := runHidden(r, "deep-C19", false)
			if err != nil {
				r.HarnessError("deep traversal subprocess could not be built or run: %v\n%s", err, out)
				return core.OK("harness-error", false)
			}
			if code != 0 {
				return core.Failf("traversal of a chain of 10^6 nodes under a 16 MiB goroutine stack failed (exit %d): %s", code, tailLines(out, 6))
			}
			return core.Outcome{Class: "ok", Nontrivial: true, Evals: 2}
		})

	NR := core.Pick(r, 6, 8)
	core.Clause(r, "iterator-reuse", core.Opts{Rule: "one iter.Seq value obtained once per traversal and used as a history: run fully twice in a row; run again after an early break at every position; a full inner run nested inside the outer run at every outer position (outer must continue unharmed); on every ordered tree up to the node bound; non-trivial = at least 2 nodes"},
		func(emit func(c19Tree) bool) {
			enum.TreesUpTo(NR, func(c []int) bool { return emit(c19Tree{append([]int(nil), c...)}) })
		},
		func(c c19Tree) core.Outcome {
			root, nodes := buildTree(c.Code)
			evals := 0
			for pass := 0; pass < 2; pass++ {
				name := []string{"PreOrder", "PostOrder"}[pass]
				var want []*newick.Node
				if pass == 0 {
					refPre(root, &want)
				} else {
					refPost(root, &want)
				}
				seq := root.PreOrder()
				if pass == 1 {
					seq = root.PostOrder()
				}
				same := func(got []*newick.Node) bool {
					if len(got) != len(want) {
						return false
					}
					for i := range got {
						if got[i] != want[i] {
							return false
						}
					}
					return true
				}
				var fail string
				p := catch(func() {
					for rep := 0; rep < 2; rep++ {
						var got []*newick.Node
						for n := range seq {
							got = append(got, n)
						}
						evals++
						if !same(got) {
							fail = fmt.Sprintf("%s: run %d of the same iterator value yields %d nodes in the wrong order/number (want %d)", name, rep+1, len(got), len(want))
							return
						}
					}
					for stop := 1; stop <= len(nodes); stop++ {
						k := 0
						for range seq {
							k++
							if k == stop {
								break
							}
						}
						var got []*newick.Node
						for n := range seq {
							got = append(got, n)
						}
						evals += 2
						if !same(got) {
							fail = fmt.Sprintf("%s: a full run after a run that was stopped at node %d yields %d nodes in the wrong order/number (want %d)", name, stop, len(got), len(want))
							return
						}
					}
					for at := 1; at <= len(nodes); at++ {
						var outer []*newick.Node
						for n := range seq {
							outer = append(outer, n)
							if len(outer) == at {
								var inner []*newick.Node
								for m := range seq {
									inner = append(inner, m)
								}
								evals++
								if !same(inner) {
									fail = fmt.Sprintf("%s: a run nested inside another run of the same iterator value (at outer node %d) yields %d nodes (want %d)", name, at, len(inner), len(want))
									return
								}
							}
							if len(outer) > 2*len(nodes) {
								break
							}
						}
						evals++
						if !same(outer) {
							fail = fmt.Sprintf("%s: after a nested run at outer node %d the outer run yields %d nodes in the wrong order/number (want %d)", name, at, len(outer), len(want))
							return
						}
					}
				})
				if p != "" {
					return core.Failf("%s on tree %v, iterator value reused: panic: %s", name, c.Code, p)
				}
				if fail != "" {
					return core.Failf("tree %v: %s", c.Code, fail)
				}
			}
			return core.Outcome{Class: fmt.Sprint("nodes=", len(nodes)), Nontrivial: len(nodes) >= 2, Evals: evals}
		})

	type pairCase struct {
		A []int `json:"tree_a"`
		B []int `json:"tree_b"`
	}
	NP := core.Pick(r, 4, 5)
	r.Bound("two-traversals-interleaved", fmt.Sprintf("every ordered pair of ordered trees with 1..%d nodes, traversals {Pre,Pre}, {Post,Post}, {Pre,Post}: every interleaving of the pulls; each side abandoned after every number of items while the other goes on; a plain run of each afterwards", NP))
	core.Clause(r, "two-traversals-interleaved", core.Opts{Rule: "two traversals of two different trees alive at once on one goroutine, advanced in every order, either one abandoned at any point: each yields exactly its own tree's classic order (state shared between iterator values - a pooled stack, a package-level slice - shows here); non-trivial = all"},
		func(emit func(pairCase) bool) {
			var trees [][]int
			enum.TreesUpTo(NP, func(c []int) bool { trees = append(trees, append([]int(nil), c...)); return true })
			for _, a := range trees {
				for _, b := range trees {
					if !emit(pairCase{a, b}) {
						return
					}
				}
			}
		},
		func(c pairCase) core.Outcome {
			ra, _ := buildTree(c.A)
			rb, _ := buildTree(c.B)
			name := func(prefix string) func(n *newick.Node) string {
				return func(n *newick.Node) string { return prefix + n.Name }
			}
			var total core.Outcome
			for _, kind := range []string{"pre/pre", "post/post", "pre/post"} {
				sa, sb := ra.PreOrder(), rb.PreOrder()
				if kind == "post/post" {
					sa, sb = ra.PostOrder(), rb.PostOrder()
				}
				if kind == "pre/post" {
					sb = rb.PostOrder()
				}
				out := interleavedSeqs(fmt.Sprintf("trees %v and %v (%s)", c.A, c.B, kind), asStrings1(sa, name("a:")), asStrings1(sb, name("b:")))
				if out.Fail != "" {
					return out
				}
				total.Evals += out.Evals
			}
			total.Class, total.Nontrivial = "ok", true
			return total
		})

	core.Clause(r, "degenerate", core.Opts{Serial: true, Rule: "chain of depth n, star with n children, comb (chain with a leaf at every level), combs whose side children are inner nodes (met before / after the deep descent, at every level on the way back up), and roots whose children are every sequence of up to 3 of {chain of n nodes, inner node, leaf} with at least one chain (deep dip, back to the root, further subtrees), for the listed n; non-trivial = all"},
		func(emit func(c19Big) bool) {
			for _, n := range []int{5000, 9000} { // combs deeper than any threshold of a few thousand levels, stopped around the powers of two
				emit(c19Big{"comb", n})
				emit(c19Big{"comb-inner-after", n})
				emit(c19Big{"comb-inner-before", n})
			}
			for n := 1; n <= 300; n++ { // every depth / width: a stack or queue preallocated for some size is met at its edge
				emit(c19Big{"chain", n})
				emit(c19Big{"star", n})
				emit(c19Big{"comb", n})
			}
			for _, n := range []int{1000, 100000, 1000000} {
				emit(c19Big{"chain", n})
			}
			for _, n := range []int{1000, 100000} {
				emit(c19Big{"star", n})
			}
			for _, n := range []int{1000, 200000} {
				emit(c19Big{"comb", n})
			}
			// dips: a very deep lineage, then back up, then further subtrees (inner nodes and leaves) at
			// every level on the way / at the root: whatever the traversal keeps per level must survive
			// the stack having been large and small again
			for _, n := range []int{1000, 70000, 300000} {
				emit(c19Big{"comb-inner-after", n})
				emit(c19Big{"comb-inner-before", n})
			}
			for _, n := range core.Pick(r, []int{70000}, []int{70000, 300000, 1 << 20}) {
				enum.Strings("DIL", 3, func(sh string) bool {
					if strings.Contains(sh, "D") {
						emit(c19Big{"root:" + sh, n})
					}
					return true
				})
			}
		},
		func(c c19Big) core.Outcome {
			var code []int
			switch c.Kind {
			case "chain":
				code = make([]int, c.N)
				for i := 0; i < c.N-1; i++ {
					code[i] = 1
				}
			case "star":
				code = make([]int, c.N+1)
				code[0] = c.N
			case "comb-inner-after": // spine node i has children [spine i+1, S_i -> s_i]: inner nodes met on the way back up
				for i := 0; i < c.N-1; i++ {
					code = append(code, 2)
				}
				code = append(code, 0)
				for i := 0; i < c.N-1; i++ {
					code = append(code, 1, 0)
				}
			case "comb-inner-before": // spine node i has children [S_i -> s_i, spine i+1]
				for i := 0; i < c.N-1; i++ {
					code = append(code, 2, 1, 0)
				}
				code = append(code, 0)
			case "comb": // each spine node has a leaf child and the next spine node
				code = make([]int, 0, 2*c.N+1)
				for i := 0; i < c.N; i++ {
					code = append(code, 2, 0)
				}
				code = append(code, 0)
			}
			if sh, ok := strings.CutPrefix(c.Kind, "root:"); ok { // the root's children: D = chain of N nodes, I = inner node with one leaf, L = leaf
				code = append(code, len(sh))
				for _, k := range sh {
					switch k {
					case 'D':
						for i := 0; i < c.N-1; i++ {
							code = append(code, 1)
						}
						code = append(code, 0)
					case 'I':
						code = append(code, 1, 0)
					case 'L':
						code = append(code, 0)
					}
				}
			}
			root, nodes := buildTree(code)
			return checkTraversal(root, nodes, fmt.Sprintf("%s(%d)", c.Kind, c.N))
		})
}
