package core

import (
	"bufio"
	"os"
	"strings"
)

// KnownFinding is one "finding:" line of /verif/KNOWN_FINDINGS.txt. The file is only ever read.
//
//	finding: property=C10 id=C10-global <free text: call site, signature, witness>
//	fixed:   property=C02 <commit> <what failed>          (documentation only, suppresses nothing)
type KnownFinding struct {
	Property string
	ID       string
	Text     string
}

// LoadKnown returns the findings listed for one property.
func LoadKnown(path, property string) []KnownFinding {
	f, err := os.Open(path)
	if err != nil {
		return nil
	}
	defer f.Close()
	var out []KnownFinding
	sc := bufio.NewScanner(f)
	sc.Buffer(make([]byte, 1<<20), 1<<20)
	for sc.Scan() {
		line := strings.TrimSpace(sc.Text())
		if !strings.HasPrefix(line, "finding:") {
			continue
		}
		rest := strings.TrimSpace(strings.TrimPrefix(line, "finding:"))
		k := KnownFinding{}
		var text []string
		for _, f := range strings.Fields(rest) {
			switch {
			case strings.HasPrefix(f, "property=") && k.Property == "":
				k.Property = strings.TrimPrefix(f, "property=")
			case strings.HasPrefix(f, "id=") && k.ID == "":
				k.ID = strings.TrimPrefix(f, "id=")
			default:
				text = append(text, f)
			}
		}
		k.Text = k.ID + " " + strings.Join(text, " ")
		if k.Property == property && k.ID != "" {
			out = append(out, k)
		}
	}
	return out
}
