package ref

import "testing"

func mk(mt, x, g, o float64) Mat {
	m := Mat{}
	for _, a := range []byte("AB") {
		for _, b := range []byte("AB") {
			if a == b {
				m[[2]byte{a, b}] = mt
			} else {
				m[[2]byte{a, b}] = x
			}
		}
		m[[2]byte{a, GapSym}] = g
		m[[2]byte{GapSym, a}] = g
	}
	m[[2]byte{GapSym, GapSym}] = o
	return m
}

func TestKnownWitnesses(t *testing.T) {
	m := mk(1, -1, -1, -1)
	if g := GotohGlobal([]byte("A"), []byte("AAB"), m); g != -2 {
		t.Fatal(g)
	}
	if g := BruteGlobal([]byte("A"), []byte("AAB"), m); g != -2 {
		t.Fatal(g)
	}
	if g := SingleStateGlobal([]byte("A"), []byte("AAB"), m); g != -3 {
		t.Fatal(g)
	}
	m2 := mk(3, -3, -1, -2)
	if g := GotohLocal([]byte("ABAB"), []byte("ABBAAB"), m2); g != 8 {
		t.Fatal(g)
	}
	if g := SingleStateLocal([]byte("ABAB"), []byte("ABBAAB"), m2); g != 6 {
		t.Fatal(g)
	}
	if BruteLocal([]byte("ABA"), []byte("BAB"), m2) != BruteLocalFast([]byte("ABA"), []byte("BAB"), m2) {
		t.Fatal("brute local")
	}
	if EditDistance([]byte("kitten"), []byte("sitting")) != 3 {
		t.Fatal("edit")
	}
}
