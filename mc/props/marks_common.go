package props

// markCase: one long field (neutral filler) with ONE byte of the format's vocabulary at one offset,
// so that the byte meets every internal buffer boundary of the reader (4096-byte bufio buffers,
// 64 KiB scanner buffers) in every field. Shared by the round-trip properties of the line formats.
type markCase struct {
	Field  string `json:"field"`
	Len    int    `json:"field_len"`
	Offset int    `json:"offset"`
	Byte   int    `json:"byte"`
}

var markOffsets70000 = []int{0, 1, 2, 3, 4090, 4091, 4092, 4093, 4094, 4095, 4096, 4097, 4098, 4099, 4100, 65530, 65531, 65532, 65533, 65534, 65535, 65536, 65537, 65538, 65539, 65540, 69997, 69998, 69999}

const markBounds = "a long field (8300 bytes: every offset; 70000 bytes: offsets 0..3, 4090..4100, 65530..65540, last 3) with ONE byte of the format's vocabulary at that offset, as the middle record of three"

// genMarks enumerates fields x vocabulary x offsets; skip(field, byte, offset) drops combinations
// outside the property's domain.
func genMarks(fields []string, vocab []int, skip func(field string, b, off int) bool) func(emit func(markCase) bool) {
	return func(emit func(markCase) bool) {
		for _, f := range fields {
			for _, v := range vocab {
				for off := 0; off < 8300; off++ {
					if skip != nil && skip(f, v, off) {
						continue
					}
					if !emit(markCase{f, 8300, off, v}) {
						return
					}
				}
				for _, off := range markOffsets70000 {
					if skip != nil && skip(f, v, off) {
						continue
					}
					if !emit(markCase{f, 70000, off, v}) {
						return
					}
				}
			}
		}
	}
}

// markedField builds the field content: filler everywhere, the marked byte at Offset.
func markedField(c markCase, filler byte) []byte {
	b := make([]byte, c.Len)
	for i := range b {
		b[i] = filler
	}
	b[c.Offset] = byte(c.Byte)
	return b
}
