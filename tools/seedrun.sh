#!/bin/bash
# seedrun.sh [pattern] — the literal procedure for every vetted seeded change under /verif/seeded:
#   git -C /repo apply <patch>; run the property's quick check; git -C /repo checkout -- .
# Requires a clean /repo and nothing else building from /repo meanwhile. Results -> seeded/RESULTS.txt
set -u
cd "$(dirname "$0")/.."
PAT="${1:-.}"
[ -z "$(git -C /repo status --porcelain)" ] || { echo "/repo is not clean"; exit 2; }
: > seeded/RESULTS.tmp
ok=0; bad=0
for d in seeded/*/; do
  id=$(basename "$d"); echo "$id" | grep -Eq "$PAT" || continue
  prop=${id%%-*}
  if ! git -C /repo apply "$PWD/$d/patch.diff" 2>/dev/null; then echo "$id: patch does not apply" | tee -a seeded/RESULTS.tmp; bad=$((bad+1)); continue; fi
  out=$(VERIF_EVIDENCE_DIR="$PWD/.scratch/seedrun-evidence" ./run.sh "$prop" quick 2>&1); rc=$?
  git -C /repo checkout -- . ; git -C /repo clean -fdq
  line=$(echo "$out" | grep -A1 '^VIOLATION' | sed -n 2p | cut -c1-220)
  if [ $rc -eq 1 ] && echo "$out" | grep -q '^VIOLATION'; then echo "$id: DETECTED by ./run.sh $prop quick:$line" | tee -a seeded/RESULTS.tmp; ok=$((ok+1));
  else echo "$id: MISSED (rc=$rc)" | tee -a seeded/RESULTS.tmp; bad=$((bad+1)); fi
done
echo "seeded changes: $ok detected, $bad missed/broken" | tee -a seeded/RESULTS.tmp
[ "$PAT" = "." ] && mv seeded/RESULTS.tmp seeded/RESULTS.txt || rm -f seeded/RESULTS.tmp
[ -z "$(git -C /repo status --porcelain)" ] || echo "WARNING: /repo not clean after the run"
