package ref

import (
	"bytes"
	"math"
	"sort"

	"github.com/spaolacci/murmur3"
)

// CanonicalKmerHashes returns the set of hashes of the canonical (strand-normalised,
// upper-cased) k-mers of the sequences.
func CanonicalKmerHashes(k int, seed uint32, seqs ...[]byte) map[uint64]struct{} {
	out := map[uint64]struct{}{}
	for _, s := range seqs {
		u := bytes.ToUpper(s)
		for i := 0; i+k <= len(u); i++ {
			km := u[i : i+k]
			rc, ok := RevComp(km)
			if !ok {
				panic("ref: sequence outside aAcCgGtTnN")
			}
			if bytes.Compare(rc, km) < 0 {
				km = rc
			}
			out[murmur3.Sum64WithSeed(km, seed)] = struct{}{}
		}
	}
	return out
}

// BottomN returns the n smallest values of the set in DESCENDING order.
func BottomN(set map[uint64]struct{}, n int) []uint64 {
	all := make([]uint64, 0, len(set))
	for v := range set {
		all = append(all, v)
	}
	sort.Slice(all, func(i, j int) bool { return all[i] < all[j] })
	if len(all) > n {
		all = all[:n]
	}
	for i, j := 0, len(all)-1; i < j; i, j = i+1, j-1 {
		all[i], all[j] = all[j], all[i]
	}
	return all
}

// SketchJaccard: for two full sketches of size n, the shared fraction of the n smallest values
// of their union.
func SketchJaccard(a, b []uint64) float64 {
	n := len(a)
	union := map[uint64]struct{}{}
	inA, inB := map[uint64]bool{}, map[uint64]bool{}
	for _, v := range a {
		union[v] = struct{}{}
		inA[v] = true
	}
	for _, v := range b {
		union[v] = struct{}{}
		inB[v] = true
	}
	shared := 0
	for _, v := range BottomN(union, n) {
		if inA[v] && inB[v] {
			shared++
		}
	}
	return float64(shared) / float64(n)
}

// MashFromJaccard is min(1, -ln(2j/(1+j))/k), 1 when j = 0.
func MashFromJaccard(j float64, k int) float64 {
	if j == 0 {
		return 1
	}
	return math.Min(1, -math.Log(2*j/(1+j))/float64(k))
}
