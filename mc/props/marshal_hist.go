package props

import (
	"bytes"
	"fmt"
	"io"

	"verif/mc/engine/core"
	"verif/mc/engine/enum"
)

// marshalHist is a history of MarshalText calls on records of one pool: the slices returned by
// earlier calls are kept (not copied) and must still hold the right text after later calls.
type marshalHist struct {
	Recs []int `json:"record_indices"`
}

type marshaller struct {
	name    string
	marshal func() ([]byte, error)
	write   func(w *bytes.Buffer) error
	writeTo func(w io.Writer) error
}

// marshalHistories adds the clause to a codec driver. pool builds fresh records on every call
// so that no state is shared between cases through the records themselves.
func marshalHistories(r *core.Run, what string, pool func() []marshaller) {
	n := len(pool())
	depth := 3
	r.Bound("marshal-histories", fmt.Sprintf("every sequence of 1..%d MarshalText calls over a pool of %d %s records of different sizes; returned slices are retained uncopied across the later calls", depth, n, what))
	core.Clause(r, "marshal-histories", core.Opts{Rule: "operation histories on the writer: MarshalText results of earlier calls are kept and compared (after ALL calls of the history) with what Write produces for the same record; also appending to a retained result must not disturb the others; non-trivial = at least 2 calls"},
		func(emit func(marshalHist) bool) {
			enum.Sequences(n, depth, func(sq []int) bool {
				if len(sq) == 0 {
					return true
				}
				return emit(marshalHist{append([]int(nil), sq...)})
			})
		},
		func(c marshalHist) core.Outcome {
			p := pool()
			var kept [][]byte
			var want [][]byte
			var fail string
			pn := catch(func() {
				for _, i := range c.Recs {
					var w bytes.Buffer
					if err := p[i].write(&w); err != nil {
						fail = fmt.Sprintf("Write of %s failed: %v", p[i].name, err)
						return
					}
					want = append(want, w.Bytes())
				}
				for _, i := range c.Recs {
					b, err := p[i].marshal()
					if err != nil {
						fail = fmt.Sprintf("MarshalText of %s failed: %v", p[i].name, err)
						return
					}
					kept = append(kept, b)
				}
			})
			if pn != "" {
				return core.Failf("panic: %s", pn)
			}
			if fail != "" {
				return core.Failf("%s", fail)
			}
			for k := range kept {
				if !bytes.Equal(kept[k], want[k]) {
					return core.Failf("%s: after the MarshalText calls on records %v, the slice returned by call %d (record %s) holds %q but Write gives %q: an earlier result was overwritten by a later call", what, c.Recs, k+1, p[c.Recs[k]].name, trunc(string(kept[k]), 200), trunc(string(want[k]), 200))
				}
			}
			// appending to one result must not change another
			for k := range kept {
				kept[k] = append(kept[k], "tail-written-by-the-caller"...)
			}
			for k := range kept {
				if !bytes.Equal(kept[k][:len(want[k])], want[k]) {
					return core.Failf("%s: appending to the MarshalText results of records %v changed result %d", what, c.Recs, k+1)
				}
			}
			return core.Outcome{Class: fmt.Sprint("calls=", len(c.Recs)), Nontrivial: len(c.Recs) >= 2, Evals: 2 * len(c.Recs)}
		})

	type writeAfterFault struct {
		First  int `json:"first_record"`
		Second int `json:"second_record"`
		Limit  int `json:"first_writer_accepts_bytes"`
	}
	core.Clause(r, "write-after-failed-write", core.Opts{Rule: "operation histories on the writer: Write record A to a destination that fails after k bytes (every k), then Write record B to a healthy destination and MarshalText B: B's text must be exactly what a fresh process writes (nothing left over from the failed write); every ordered pair of pool records; non-trivial = all"},
		func(emit func(writeAfterFault) bool) {
			p := pool()
			for i := range p {
				var w bytes.Buffer
				p[i].write(&w)
				for j := range p {
					for k := 0; k < w.Len(); k++ {
						if !emit(writeAfterFault{i, j, k}) {
							return
						}
					}
				}
			}
		},
		func(c writeAfterFault) core.Outcome {
			p := pool()
			var want bytes.Buffer
			if err := p[c.Second].write(&want); err != nil {
				return core.Failf("Write failed: %v", err)
			}
			var fail string
			pn := catch(func() {
				lw := &limitBuffer{limit: c.Limit}
				p[c.First].writeTo(lw) // error expected and ignored here (C07 judges it)
				var got bytes.Buffer
				if err := p[c.Second].write(&got); err != nil {
					fail = fmt.Sprintf("the Write after a failed Write returned %v", err)
					return
				}
				if !bytes.Equal(got.Bytes(), want.Bytes()) {
					fail = fmt.Sprintf("after a Write of %s that failed at byte %d, Write of %s produced %q instead of %q", p[c.First].name, c.Limit, p[c.Second].name, trunc(got.String(), 200), trunc(want.String(), 200))
					return
				}
				mt, err := p[c.Second].marshal()
				if err != nil || !bytes.Equal(mt, want.Bytes()) {
					fail = fmt.Sprintf("after a failed Write, MarshalText of %s gives %q (%v) instead of %q", p[c.Second].name, trunc(string(mt), 200), err, trunc(want.String(), 200))
				}
			})
			if pn != "" {
				return core.Failf("panic: %s", pn)
			}
			if fail != "" {
				return core.Failf("%s: %s", what, fail)
			}
			return core.Outcome{Class: "ok", Nontrivial: true, Evals: 3}
		})
}

// limitBuffer accepts limit bytes and then fails every Write.
type limitBuffer struct {
	limit int
	n     int
}

func (l *limitBuffer) Write(p []byte) (int, error) {
	room := l.limit - l.n
	if len(p) <= room {
		l.n += len(p)
		return len(p), nil
	}
	l.n += room
	return room, fmt.Errorf("injected write fault")
}
