package props

import (
	"bytes"
	"fmt"
	"io"
	"strings"

	"verif/mc/engine/core"
)

// Big files with a MODEL oracle. The per-format round-trip clauses work on short files; the delivery
// clauses (C06) compare two decodes of the real reader with each other, so a defect that spoils both in
// the same way (a retained record pointing into the reader's buffer, spoilt when the buffer is refilled)
// cancels out. Here hundreds of generated records (every field varying from record to record, more
// than three buffer fills of text) are written, read back under several deliveries and compared with
// what was written, including a second rendering of every retained record after the iteration.

type bigFileCase struct {
	Format   string `json:"format"`
	Variant  int    `json:"variant"`                      // BED: N; others: 0
	Size     int    `json:"file_size_at_least,omitempty"` // 0: 14 000 bytes
	Delivery string `json:"delivery"`                     // whole | bytes-1 | chunks-7 | chunks-4096 | chunks-4097
}

func bigFileRecords(format string, variant, size int) (data []byte, want []obsItem, fail string) {
	var buf bytes.Buffer
	switch format {
	case "fasta":
		var recs []faRec
		for i := 0; buf.Len() < size; i++ {
			rc := faRec{core.S(fmt.Sprintf("record%d description %d", i, i*i)), core.S(longSeq(37 + 53*i%400))}
			d, f := writeFastaChecked([]faRec{rc})
			if f != "" {
				return nil, nil, f
			}
			buf.Write(d)
			recs = append(recs, rc)
		}
		return buf.Bytes(), wantFasta(recs), ""
	case "fastq":
		var recs []fqRec
		for i := 0; buf.Len() < size; i++ {
			l := 20 + 37*i%150
			rc := fqRec{core.S(fmt.Sprintf("read%d/%d", i, l)), core.S(longSeq(l)), core.S(strings.Repeat("IJ+@!~", 30)[i%5 : i%5+l])}
			d, f := writeFastqChecked([]fqRec{rc})
			if f != "" {
				return nil, nil, f
			}
			buf.Write(d)
			recs = append(recs, rc)
		}
		return buf.Bytes(), wantFastq(recs), ""
	case "sam":
		for i := 0; buf.Len() < size; i++ {
			rc := defaultSamRec()
			rc.Qname, rc.Flag, rc.Rname, rc.Pos, rc.Mapq = core.S(fmt.Sprintf("read%d", i)), i%4096, core.S(fmt.Sprintf("chr%d", i%23)), i*13, i%61
			rc.Cigar, rc.Rnext, rc.Pnext, rc.Tlen = core.S(fmt.Sprintf("%dM", 1+i%150)), core.S([]string{"=", "*", "chrX"}[i%3]), i*13+150, i%7-3
			rc.Seq, rc.Qual = core.S(longSeq(1+i%40)), core.S(strings.Repeat("I\"J#", 11)[:1+i%40])
			rc.Tags = []samTag{{Name: "NM", Type: "i", I: i % 7}, {Name: "XS", Type: "Z", Z: core.S(strings.Repeat("x\"", i%9))}, {Name: "XA", Type: "A", A: 0x21 + i%90}}
			s := rc.build()
			d, f := writeSAMChecked(s)
			if f != "" {
				return nil, nil, f
			}
			buf.Write(d)
			want = append(want, obsItem{Rec: renderSAM(s)})
		}
		return buf.Bytes(), want, ""
	case "bed":
		n := variant
		for i := 0; buf.Len() < size; i++ {
			rc := defaultBed(n)
			rc.Chrom, rc.ChromStart, rc.ChromEnd = core.S(fmt.Sprintf("chr%d", i%23)), i*10, i*10+7
			if n >= 4 {
				rc.Name = core.S(fmt.Sprintf("feature\"%d", i))
			}
			if n >= 5 {
				rc.Score = i % 1000
			}
			if n >= 6 {
				rc.Strand = []string{"+", "-", ".", ""}[i%4]
			}
			if n >= 7 {
				rc.ThickStart = i*10 + 1
			}
			if n >= 8 {
				rc.ThickEnd = i*10 + 5
			}
			if n >= 9 {
				rc.RGB = [3]int{i % 256, (i * 7) % 256, 255 - i%256}
			}
			if n >= 12 {
				k := i % 4
				rc.BlockCount, rc.BlockSizes, rc.BlockStarts = k, nil, nil
				for j := 0; j < k; j++ {
					rc.BlockSizes = append(rc.BlockSizes, j+i%5)
					rc.BlockStarts = append(rc.BlockStarts, j*3)
				}
			}
			d, f := writeBedChecked(rc)
			if f != "" {
				return nil, nil, f
			}
			buf.Write(d)
			want = append(want, obsItem{Rec: renderBED(rc.expectBack())})
		}
		return buf.Bytes(), want, ""
	case "newick":
		for i := 0; buf.Len() < size; i++ {
			t := defaultNwTree([][]int{{2, 0, 0}, {1, 1, 0}, {3, 0, 1, 0, 0}, {0}}[i%4])
			for j := range t.Names {
				t.Names[j] = core.S([]string{fmt.Sprintf("leaf%d", i+j), fmt.Sprintf("sp %d", i), fmt.Sprintf("it's (%d)", j), "", fmt.Sprintf("a_b%d", i)}[(i+j)%5])
				t.Dists[j] = []string{"0", "0.25", fmt.Sprint(i), "1e-05", "-1.5"}[(i+2*j)%5]
			}
			root := t.build()
			d, f := writeNewickChecked(root)
			if f != "" {
				return nil, nil, f
			}
			buf.Write(d)
			buf.WriteString([]string{"\n", "", " ", "\r\n"}[i%4])
			want = append(want, obsItem{Rec: renderNewick(root)})
		}
		return buf.Bytes(), want, ""
	}
	panic("format " + format)
}

// dataEOFReader delivers n bytes per Read and returns io.EOF together with the last bytes.
type dataEOFReader struct {
	data []byte
	n    int
}

func (d *dataEOFReader) Read(p []byte) (int, error) {
	if len(d.data) == 0 {
		return 0, io.EOF
	}
	k := min(len(p), d.n, len(d.data))
	copy(p, d.data[:k])
	d.data = d.data[k:]
	if len(d.data) == 0 {
		return k, io.EOF
	}
	return k, nil
}

func bigFiles(r *core.Run, format string, variants []int) {
	r.Bound("big-files", "about 14 KB of generated records (every field different from record to record; BED: for every N) x deliveries {whole, 1 byte, 7 bytes, 4096 bytes, 4097 bytes per Read; whole and 5000 bytes per Read with io.EOF arriving together with the last bytes}; about 300 KB of such records (thousands of short records, several times 64 KiB in total, all kept by the consumer and rendered again after the iteration) x deliveries {whole, 4096 bytes, 5000 bytes with io.EOF}")
	core.Clause(r, "big-files", core.Opts{Rule: "hundreds of records written, read back and compared with WHAT WAS WRITTEN (not with another decode), every retained record rendered a second time after the iteration: a record that still points into the reader's buffer changes when the buffer is refilled; non-trivial = all"},
		func(emit func(bigFileCase) bool) {
			for _, v := range variants {
				for _, d := range []string{"whole", "bytes-1", "chunks-7", "chunks-4096", "chunks-4097", "whole+eof", "chunks-5000+eof"} {
					if !emit(bigFileCase{format, v, 0, d}) {
						return
					}
				}
				// many more records than any slab, pool or buffer of 64 KiB holds, all kept by the consumer
				for _, d := range []string{"whole", "chunks-4096", "chunks-5000+eof"} {
					if !emit(bigFileCase{format, v, 300000, d}) {
						return
					}
				}
			}
		},
		func(c bigFileCase) core.Outcome {
			data, want, fail := bigFileRecords(c.Format, c.Variant, max(c.Size, 14000))
			if fail != "" {
				return core.Failf("%s", fail)
			}
			var rd io.Reader = bytes.NewReader(data)
			var n int
			if strings.HasSuffix(c.Delivery, "+eof") { // the last bytes arrive together with io.EOF (io.Reader allows it; iotest.DataErrReader, some decompressors do it)
				chunk := len(data)
				fmt.Sscanf(c.Delivery, "chunks-%d+eof", &chunk)
				rd = &dataEOFReader{data: data, n: chunk}
			} else if _, err := fmt.Sscanf(c.Delivery, "bytes-%d", &n); err == nil {
				rd = &fixedChunkReader{data: data, n: n}
			} else if _, err := fmt.Sscanf(c.Delivery, "chunks-%d", &n); err == nil {
				rd = &fixedChunkReader{data: data, n: n}
			}
			got, p, over := formatByName(c.Format).Read(rd, len(want)+16)
			if p != "" || over {
				return core.Failf("%s big file (%d bytes, %d records, delivery %s): panic %q, does not end: %v", c.Format, len(data), len(want), c.Delivery, p, over)
			}
			if !sameShape(got, want) {
				i := 0
				for i < len(got) && i < len(want) && !got[i].IsErr() && got[i].Rec == want[i].Rec {
					i++
				}
				g := "(nothing)"
				if i < len(got) {
					g = renderObs(got[i : i+1])
				}
				w := "(nothing)"
				if i < len(want) {
					w = want[i].Rec
				}
				return core.Failf("%s big file (%d bytes, %d records, variant %d, delivery %s): %d items read back; first difference at record %d: got %s, written %s", c.Format, len(data), len(want), c.Variant, c.Delivery, len(got), i, trunc(g, 400), trunc(w, 300))
			}
			return core.Outcome{Class: c.Delivery, Nontrivial: true, Evals: 2}
		})
}
