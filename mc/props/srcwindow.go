package props

import (
	"bytes"
	"fmt"

	"verif/mc/engine/core"
	"verif/mc/engine/enum"
)

// The sequence handed to a function is usually a window of something larger: a read inside a block
// of reads, a gene inside a chromosome, with live data before it and - within the slice's capacity -
// after it. A function that only reads its argument leaves all of that as it was. Appending to
// arg[len(arg):] or to arg[:0], "borrowing" the spare capacity as scratch space, or normalising the
// argument in place shows here and in no run that hands over a slice owning its whole array.

type srcWindowFn struct {
	Name string
	Call func(in []byte)
}

type srcWindowCase struct {
	Fn    string `json:"fn"`
	Input core.S `json:"input"`
}

func srcWindows(r *core.Run, alphabet string, maxLen int, long []string, fns []srcWindowFn) {
	byName := map[string]srcWindowFn{}
	for _, f := range fns {
		byName[f.Name] = f
	}
	core.Clause(r, "argument-is-a-window-of-caller-memory", core.Opts{Rule: fmt.Sprintf("every function that only reads its sequence argument, on every sequence over %q up to length %d and %d longer ones, the argument being a window buf[8:8+n] of a caller buffer with 8 live bytes before it and 24 after it inside its capacity; called twice; the whole buffer must be byte for byte what it was; non-trivial = length >= 1", alphabet, maxLen, len(long))},
		func(emit func(srcWindowCase) bool) {
			for _, f := range fns {
				ok := enum.Strings(alphabet, maxLen, func(s string) bool { return emit(srcWindowCase{f.Name, core.S(s)}) })
				if !ok {
					return
				}
				for _, s := range long {
					if !emit(srcWindowCase{f.Name, core.S(s)}) {
						return
					}
				}
			}
		},
		func(c srcWindowCase) core.Outcome {
			in := c.Input.B()
			buf := make([]byte, 8+len(in)+24)
			for i := range buf {
				buf[i] = "ACGTacgt"[i%8] // live data of the same kind, not a recognisable filler
			}
			copy(buf[8:], in)
			snap := bytes.Clone(buf)
			arg := buf[8 : 8+len(in)]
			for rep := 0; rep < 2; rep++ {
				catch(func() { byName[c.Fn].Call(arg) }) // a panic on invalid input is the other clauses' business
				if !bytes.Equal(buf, snap) {
					i := 0
					for buf[i] == snap[i] {
						i++
					}
					where := "the argument itself"
					if i < 8 {
						where = "the caller's bytes BEFORE the argument"
					} else if i >= 8+len(in) {
						where = "the caller's bytes BEHIND the argument (inside its capacity)"
					}
					return core.Failf("%s on a %d-byte window of a caller buffer changed %s: offset %d of the buffer was %q and is %q (buffer before %q, after %q)", c.Fn, len(in), where, i, snap[i], buf[i], trunc(string(snap), 60), trunc(string(buf), 60))
				}
			}
			return core.Outcome{Class: c.Fn, Nontrivial: len(in) >= 1, Evals: 2}
		})
}
