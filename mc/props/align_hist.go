package props

import (
	"bytes"
	"fmt"
	"strings"

	"github.com/fluhus/biostuff/align"

	"verif/mc/engine/enum"

	"verif/mc/engine/core"
	"verif/mc/ref"
)

// alnCall is one call of a call history.
type alnCall struct {
	Fn string `json:"fn"`
	A  string `json:"a"` // compact spelling: see expandSeq
	B  string `json:"b"`
}

type alnHist struct {
	Matrix string    `json:"matrix"`
	Calls  []alnCall `json:"calls"`
}

// expandSeq expands "A*60+B*10" to the sequence.
func expandSeq(s string) []byte {
	var out []byte
	for _, part := range strings.Split(s, "+") {
		if part == "" {
			continue
		}
		var unit string
		n := 1
		if i := strings.Index(part, "*"); i >= 0 {
			unit = part[:i]
			fmt.Sscan(part[i+1:], &n)
		} else {
			unit = part
		}
		for i := 0; i < n; i++ {
			out = append(out, unit...)
		}
	}
	return out
}

var histSeqPairs = [][2]string{
	{"A*60+B*10", "C*10+A*60"},
	{"A*70", "B*70"},
	{"AB*40", "BA*35+C"},
	{"ABCAB*20", "ABCCB*19+A"},
	{"A*64", "A*64"},
	{"AB", "B"},
	{"A*130", "A*65+B+A*64"},
	{"ABCBA*60", "ABBCA*59+CC"}, // 300 x 297: a table of more than 65536 cells
}

// alignHistories explores call histories on long sequences: every ordered pair (and, for the
// first three inputs, triple) of calls from the pool, run back to back on one goroutine, each
// call judged by judge (which gets the result of the call and the case). It finds state that
// leaks from one call into the next (pooled tables, cached rows) and size-dependent paths that
// the small-scope enumeration cannot reach (tables of 4096 cells and more).
func alignHistories(r *core.Run, matrices []string, judge func(c alnCase, res alnResult, changed bool) core.Outcome) {
	var calls []alnCall
	for _, p := range histSeqPairs {
		for _, fn := range bothFns {
			calls = append(calls, alnCall{fn, p[0], p[1]}, alnCall{fn, p[1], p[0]})
		}
	}
	r.Bound("call-histories", fmt.Sprintf("sequences up to 130 letters (%d calls: Global/Local x %d sequence pairs in both orders), every ordered pair of calls and every triple over the first 8 calls, x %d matrices; tables up to 131x131 cells", len(calls), len(histSeqPairs), len(matrices)))
	core.Clause(r, "call-histories-long", core.Opts{Rule: "operation histories on long sequences: calls run back to back on one goroutine; every call of every history is judged exactly like a single call (reference: Gotoh DP); non-trivial = at least 2 calls"},
		func(emit func(alnHist) bool) {
			for _, m := range matrices {
				for i := range calls {
					if !emit(alnHist{m, []alnCall{calls[i]}}) {
						return
					}
				}
				for i := range calls {
					for j := range calls {
						if !emit(alnHist{m, []alnCall{calls[i], calls[j]}}) {
							return
						}
					}
				}
				for i := 0; i < 8; i++ {
					for j := 0; j < 8; j++ {
						for k := 0; k < 8; k++ {
							if !emit(alnHist{m, []alnCall{calls[i], calls[j], calls[k]}}) {
								return
							}
						}
					}
				}
			}
		},
		func(h alnHist) core.Outcome {
			m := matrixByName(h.Matrix)
			out := core.Outcome{Class: fmt.Sprint("calls=", len(h.Calls)), Nontrivial: len(h.Calls) >= 2, Evals: len(h.Calls)}
			var kept []alnResult
			var snap [][]byte
			defer func() {
				_ = kept
			}()
			for i, cl := range h.Calls {
				c := alnCase{cl.Fn, core.S(expandSeq(cl.A)), core.S(expandSeq(cl.B)), h.Matrix}
				res, changed := runAlignRaw(c, m)
				kept = append(kept, res)
				snap = append(snap, append([]byte(nil), res.steps...))
				for k := 0; k < i; k++ {
					if string(kept[k].steps) != string(snap[k]) {
						return core.Failf("the steps returned by call %d of the history %v were overwritten by call %d", k+1, h.Calls, i+1)
					}
				}
				o := judge(c, res, changed)
				if o.Fail != "" {
					if o.Known != "" {
						out.Fail, out.Known, out.Class = o.Fail, o.Known, o.Class
						continue
					}
					o.Fail = fmt.Sprintf("call %d of the history %v: %s", i+1, h.Calls, o.Fail)
					return o
				}
			}
			return out
		})
}

// judgeOptimal is the C09/C10 judgement of one finished call.
func judgeOptimal(r *core.Run, knownIDs map[string]string) func(c alnCase, res alnResult, changed bool) core.Outcome {
	return func(c alnCase, res alnResult, _ bool) core.Outcome {
		a, b := c.A.B(), c.B.B()
		rm := toRefMat(matrixByName(c.Matrix))
		if res.panicS != "" {
			return core.Failf("%s(%d letters, %d letters, %s) panicked: %s", c.Fn, len(a), len(b), c.Matrix, res.panicS)
		}
		var opt float64
		if c.Fn == "Global" {
			opt = ref.GotohGlobal(a, b, rm)
		} else {
			opt = ref.GotohLocal(a, b, rm)
		}
		if res.score == opt {
			if f := stepsCarryScore(c, res, rm); f != "" {
				return core.Failf("%s", trunc(f, 500))
			}
			return core.Outcome{}
		}
		out := core.Failf("%s(%q, %q, %s) returned score %v, the optimum is %v", c.Fn, trunc(string(a), 30), trunc(string(b), 30), c.Matrix, res.score, opt)
		if id := knownIDs[c.Fn]; id != "" && res.score < opt && r.KnownListed(id) {
			var model float64
			if c.Fn == "Global" {
				model = ref.SingleStateGlobal(a, b, rm)
			} else {
				model = ref.SingleStateLocal(a, b, rm)
			}
			if model == res.score {
				out.Known = id
				out.Class = "suboptimal (known finding " + id + ")"
			}
		}
		return out
	}
}

// matrixMutationHistories: ONE map object is used for a whole history and its values are
// rewritten in place between the calls (same keys, same length). Every call must be judged as if
// the matrix had been passed for the first time: a cache keyed by the map's identity shows here.
type alnMutHist struct {
	Params [][4]int `json:"matrix_params_per_call"` // match, mismatch, gap, gap-open
	Fn     []string `json:"fn_per_call"`
	A      string   `json:"a"`
	B      string   `json:"b"`
}

func matrixMutationHistories(r *core.Run, zeroOpen bool, judge func(c alnCase, res alnResult, changed bool) core.Outcome) {
	params := [][4]int{{1, -1, -1, 0}, {2, -3, -2, 0}, {5, 0, -1, 0}, {1, -3, 0, 0}}
	if !zeroOpen {
		params = [][4]int{{1, -1, -1, -1}, {3, -3, -1, -2}, {2, 0, -2, -3}, {1, -1, 0, -1}}
	}
	pairs := [][2]string{{"ABBA", "ABA"}, {"AAB", "BAA"}, {"ABCAB*20", "ABCCB*19+A"}}
	r.Bound(mutClauseName, fmt.Sprintf("one matrix map rewritten in place between calls: every sequence of 2..3 parameter sets from %v x {Global, Local} per call x %d sequence pairs", params, len(pairs)))
	core.Clause(r, mutClauseName, core.Opts{Rule: "call histories in which the SAME map object carries different scores from call to call (keys and length unchanged); each call is judged against the reference for the scores it was given; non-trivial = all"},
		func(emit func(alnMutHist) bool) {
			for _, p := range pairs {
				for n := 2; n <= 3; n++ {
					sizes := make([]int, n)
					for i := range sizes {
						sizes[i] = len(params)
					}
					enum := func(f func(t []int) bool) {
						t := make([]int, n)
						for {
							if !f(t) {
								return
							}
							i := n - 1
							for ; i >= 0; i-- {
								t[i]++
								if t[i] < sizes[i] {
									break
								}
								t[i] = 0
							}
							if i < 0 {
								return
							}
						}
					}
					enum(func(t []int) bool {
						for fm := 0; fm < 1<<n; fm++ {
							h := alnMutHist{A: p[0], B: p[1]}
							for i, x := range t {
								h.Params = append(h.Params, params[x])
								h.Fn = append(h.Fn, bothFns[fm>>i&1])
							}
							if !emit(h) {
								return false
							}
						}
						return true
					})
				}
			}
		},
		func(h alnMutHist) core.Outcome {
			m := symMatrix(0, 0, 0, 0)
			a, b := expandSeq(h.A), expandSeq(h.B)
			for i, p := range h.Params {
				fresh := symMatrix(float64(p[0]), float64(p[1]), float64(p[2]), float64(p[3]))
				for k, v := range fresh {
					m[k] = v // rewrite in place: same keys, same length
				}
				name := fmt.Sprintf("sym:%d:%d:%d:%d", p[0], p[1], p[2], p[3])
				c := alnCase{h.Fn[i], core.S(a), core.S(b), name}
				res, changed := runAlign(c, m)
				o := judge(c, res, changed)
				if o.Fail != "" && o.Known == "" {
					o.Fail = fmt.Sprintf("call %d of a history that rewrites one matrix map in place (%v): %s", i+1, h.Params, o.Fail)
					return o
				}
			}
			return core.Outcome{Class: fmt.Sprint("calls=", len(h.Params)), Nontrivial: true, Evals: len(h.Params)}
		})
}

// matrixMutationHistories2 repeats the zero-gap-open menu under a second clause name for C08.
func matrixMutationHistories2(r *core.Run) {
	// the clause registry is keyed by name; a second call needs its own name
	saved := mutClauseName
	mutClauseName = "matrix-mutation-histories-zero-open"
	matrixMutationHistories(r, true, judgeC08)
	mutClauseName = saved
}

var mutClauseName = "matrix-mutation-histories"

// alnAliasCase: a and b are windows of ONE buffer (the same slice when the windows coincide).
// The property is about the contents of a and b; where they live in memory must play no role.
type alnAliasCase struct {
	Fn     string `json:"fn"`
	Buf    core.S `json:"buffer"`
	A0     int    `json:"a_from"`
	A1     int    `json:"a_to"`
	B0     int    `json:"b_from"`
	B1     int    `json:"b_to"`
	Matrix string `json:"matrix"`
}

// alignAliasing enumerates every pair of windows of every buffer up to the bound (this includes
// a and b being the very same slice, nested and partially overlapping windows) and judges each
// result exactly like a call on two separately allocated sequences.
func alignAliasing(r *core.Run, sigma string, L int, matrices []string, judge func(c alnCase, res alnResult, changed bool) core.Outcome) {
	core.Clause(r, "aliased-arguments", core.Opts{Rule: fmt.Sprintf("a and b are windows [i:j] and [k:l] of ONE buffer: every buffer over {%s} up to length %d x every pair of windows (coinciding = the same slice passed twice, nested, overlapping, adjacent, empty) x %d matrices x {Global, Local}; judged like any other call and the buffer must be unchanged; non-trivial = both windows non-empty", sigma, L, len(matrices)),
		Bounds: fmt.Sprintf("buffers up to length %d over %q, all window pairs", L, sigma)},
		func(emit func(alnAliasCase) bool) {
			for _, fn := range bothFns {
				for _, mn := range matrices {
					ok := enum.Strings(sigma, L, func(s string) bool {
						n := len(s)
						for a0 := 0; a0 <= n; a0++ {
							for a1 := a0; a1 <= n; a1++ {
								for b0 := 0; b0 <= n; b0++ {
									for b1 := b0; b1 <= n; b1++ {
										if !emit(alnAliasCase{fn, core.S(s), a0, a1, b0, b1, mn}) {
											return false
										}
									}
								}
							}
						}
						return true
					})
					if !ok {
						return
					}
				}
			}
		},
		func(c alnAliasCase) core.Outcome {
			buf := c.Buf.B()
			buf0 := bytes.Clone(buf)
			a, b := buf[c.A0:c.A1], buf[c.B0:c.B1]
			m := matrixByName(c.Matrix)
			var res alnResult
			res.panicS = catch(func() {
				if c.Fn == "Global" {
					st, sc := align.Global(a, b, m)
					res.steps, res.score = stepsBytes(st), sc
				} else {
					st, ai, bi, sc := align.Local(a, b, m)
					res.steps, res.ai, res.bi, res.score = stepsBytes(st), ai, bi, sc
				}
			})
			out := judge(alnCase{c.Fn, core.S(buf0[c.A0:c.A1]), core.S(buf0[c.B0:c.B1]), c.Matrix}, res, !bytes.Equal(buf, buf0))
			if out.Fail == "" && out.Known == "" {
				rel := "disjoint"
				switch {
				case c.A0 == c.B0 && c.A1 == c.B1:
					rel = "same slice"
				case c.A0 < c.B1 && c.B0 < c.A1:
					rel = "overlapping"
				}
				out.Class = c.Fn + " " + rel
				out.Nontrivial = c.A1 > c.A0 && c.B1 > c.B0
			}
			if out.Fail != "" {
				out.Fail = fmt.Sprintf("with a = buf[%d:%d] and b = buf[%d:%d] of one buffer %q: %s", c.A0, c.A1, c.B0, c.B1, buf0, out.Fail)
			}
			return out
		})
}

// alignAllBytes: every byte value except the reserved gap byte 255 as a sequence letter. The aligners
// work on bytes; no value (0x00, '*', '-', ' ', 0x80..0xFE) has a meaning of its own in a sequence.
func alignAllBytes(r *core.Run, levenshtein bool, params []string, judge func(c alnCase, res alnResult, changed bool) core.Outcome) {
	core.Clause(r, "all-byte-letters", core.Opts{Rule: fmt.Sprintf("for every byte value v in 0..254 (255 is the reserved gap byte): every ordered pair of sequences over {A, v} up to length 3 x {Global, Local} x the two-letter matrices %v over {A, v}%s; judged like every other call; non-trivial = both sequences non-empty", params, map[bool]string{true: " and Levenshtein", false: ""}[levenshtein]),
		Bounds: "255 byte values x 225 sequence pairs x matrices x 2 functions"},
		func(emit func(alnCase) bool) {
			for v := 0; v < 255; v++ {
				if v == 'A' {
					continue
				}
				var mats []string
				for _, p := range params {
					mats = append(mats, fmt.Sprintf("over:%d:%s", v, p))
				}
				if levenshtein {
					mats = append(mats, "Levenshtein")
				}
				for _, fn := range bothFns {
					for _, mn := range mats {
						stop := false
						pairsOver(string([]byte{'A', byte(v)}), 3, func(a, b string) bool {
							if !emit(alnCase{fn, core.S(a), core.S(b), mn}) {
								stop = true
							}
							return !stop
						})
						if stop {
							return
						}
					}
				}
			}
		},
		func(c alnCase) core.Outcome {
			res, changed := runAlign(c, matrixByName(c.Matrix))
			out := judge(c, res, changed)
			if out.Fail == "" && out.Known == "" && out.Class == "" {
				out.Class = c.Fn
				out.Nontrivial = len(c.A) > 0 && len(c.B) > 0
			}
			return out
		})
}

// alignBufferReuse: both sequences live in one caller buffer ("a|b") that is rewritten in place between
// the calls; each call must give what a call on fresh copies gives (see bufreuse.go).
func alignBufferReuse(r *core.Run, matrices []string) {
	var fns []string
	for _, mn := range matrices {
		fns = append(fns, "Global "+mn, "Local "+mn)
	}
	var inputs []string
	for _, a := range []string{"", "A", "AB", "ABA", "BBAB", "ABAB"} {
		for _, b := range []string{"", "B", "AB", "BAB", "ABAB", "BBAB"} {
			inputs = append(inputs, a+"|"+b)
		}
	}
	bufferReuse(r, inputs, fns, func(fn string, in []byte) string {
		cut := bytes.IndexByte(in, '|')
		a, b := in[:cut], in[cut+1:]
		m := matrixByName(fn[strings.IndexByte(fn, ' ')+1:])
		if strings.HasPrefix(fn, "Global") {
			st, sc := align.Global(a, b, m)
			return fmt.Sprint(stepsBytes(st), sc)
		}
		st, ai, bi, sc := align.Local(a, b, m)
		return fmt.Sprint(stepsBytes(st), ai, bi, sc)
	})
}

// alnLenCase: sequences given by their lengths (position-dependent content over ABC).
type alnLenCase struct {
	Fn     string `json:"fn"`
	LenA   int    `json:"len_a"`
	LenB   int    `json:"len_b"`
	Matrix string `json:"matrix"`
}

func lenSeq(n, salt int) []byte {
	s := make([]byte, n)
	for i := range s {
		s[i] = "ABCABBCACA"[(i*3+i/7+salt)%10]
	}
	return s
}

// alignAllLengthPairs: every pair of lengths up to the bound, so that the table size (len(a)+1)*(len(b)+1)
// and its neighbours len(a)*len(b) pass every threshold a size-dependent shortcut could use (256, 1024,
// 4096 cells; a stack buffer; a pooled table), plus very unbalanced pairs around 4096 and 65536.
func alignAllLengthPairs(r *core.Run, matrix string, judge func(c alnCase, res alnResult, changed bool) core.Outcome) {
	maxLen := core.Pick(r, 72, 140)
	core.Clause(r, "all-length-pairs", core.Opts{Rule: fmt.Sprintf("every pair of lengths (la, lb) in 0..%d x {Global, Local} with position-dependent sequences and matrix %s, plus the pairs (0|1|2, L) and (L, 0|1|2) for L in 4090..4100 and 65530..65540: judged like every other call; non-trivial = both lengths >= 1", maxLen, matrix),
		Bounds: fmt.Sprintf("all %d length pairs; unbalanced pairs around 4096 and 65536", (maxLen+1)*(maxLen+1))},
		func(emit func(alnLenCase) bool) {
			for _, fn := range bothFns {
				for la := 0; la <= maxLen; la++ {
					for lb := 0; lb <= maxLen; lb++ {
						if !emit(alnLenCase{fn, la, lb, matrix}) {
							return
						}
					}
				}
				for _, c := range []int{4095, 65535} {
					for l := c - 5; l <= c+5; l++ {
						for s := 0; s <= 2; s++ {
							if !emit(alnLenCase{fn, s, l, matrix}) || !emit(alnLenCase{fn, l, s, matrix}) {
								return
							}
						}
					}
				}
			}
		},
		func(c alnLenCase) core.Outcome {
			ac := alnCase{c.Fn, core.S(lenSeq(c.LenA, 0)), core.S(lenSeq(c.LenB, 4)), c.Matrix}
			res, changed := runAlign(ac, matrixByName(c.Matrix))
			out := judge(ac, res, changed)
			if out.Fail != "" {
				out.Fail = fmt.Sprintf("lengths %d x %d: %s", c.LenA, c.LenB, trunc(out.Fail, 400))
			}
			if out.Fail == "" && out.Known == "" {
				out.Class = c.Fn
				out.Nontrivial = c.LenA >= 1 && c.LenB >= 1
			}
			return out
		})
}

// alignWideAlphabets: sequences that use (almost) all of the 255 letters a byte offers, with and without
// repeats: an index, a table or a counter sized by "number of distinct letters seen" meets its limits here.
func alignWideAlphabets(r *core.Run, judge func(c alnCase, res alnResult, changed bool) core.Outcome) {
	mk := func(kind string) []byte {
		var n int
		var out []byte
		switch {
		case strings.HasPrefix(kind, "asc:"):
			fmt.Sscanf(kind, "asc:%d", &n)
			for i := 0; i < n; i++ {
				out = append(out, byte(i))
			}
		case strings.HasPrefix(kind, "desc:"):
			fmt.Sscanf(kind, "desc:%d", &n)
			for i := n - 1; i >= 0; i-- {
				out = append(out, byte(i))
			}
		case strings.HasPrefix(kind, "asc+last:"):
			fmt.Sscanf(kind, "asc+last:%d", &n)
			for i := 0; i < n; i++ {
				out = append(out, byte(i))
			}
			out = append(out, byte(n-1))
		case strings.HasPrefix(kind, "asc+first:"):
			fmt.Sscanf(kind, "asc+first:%d", &n)
			for i := 0; i < n; i++ {
				out = append(out, byte(i))
			}
			out = append(out, 0)
		case strings.HasPrefix(kind, "twice:"):
			fmt.Sscanf(kind, "twice:%d", &n)
			for k := 0; k < 2; k++ {
				for i := 0; i < n; i++ {
					out = append(out, byte(i))
				}
			}
		}
		return out
	}
	var kinds []string
	for _, n := range []int{128, 129, 254, 255} {
		kinds = append(kinds, fmt.Sprint("asc:", n), fmt.Sprint("desc:", n), fmt.Sprint("asc+last:", n), fmt.Sprint("asc+first:", n), fmt.Sprint("twice:", n))
	}
	type wideCase struct {
		Fn string `json:"fn"`
		A  string `json:"a"`
		B  string `json:"b"`
	}
	core.Clause(r, "wide-alphabets", core.Opts{Rule: "sequences over 128, 129, 254 and all 255 letters (ascending, descending, with the last or the first letter repeated, the whole alphabet twice): every ordered pair x {Global, Local} with Levenshtein; Global == -(edit distance), and judged like every other call; non-trivial = all",
		Bounds: fmt.Sprintf("%d sequences, all ordered pairs", len(kinds))},
		func(emit func(wideCase) bool) {
			for _, fn := range bothFns {
				for _, a := range kinds {
					for _, b := range kinds {
						if !emit(wideCase{fn, a, b}) {
							return
						}
					}
				}
			}
		},
		func(c wideCase) core.Outcome {
			a, b := mk(c.A), mk(c.B)
			ac := alnCase{c.Fn, core.S(a), core.S(b), "Levenshtein"}
			res, changed := runAlign(ac, align.Levenshtein)
			if res.panicS == "" && c.Fn == "Global" {
				if d := ref.EditDistance(a, b); res.score != -float64(d) {
					return core.Failf("Global(%s, %s, Levenshtein) = %v, the edit distance is %d", c.A, c.B, res.score, d)
				}
			}
			out := judge(ac, res, changed)
			if out.Fail != "" {
				out.Fail = fmt.Sprintf("a = %s, b = %s: %s", c.A, c.B, trunc(out.Fail, 300))
			}
			if out.Fail == "" && out.Known == "" {
				out.Class, out.Nontrivial = c.Fn, true
			}
			return out
		})
}

// alignAllBytePairs: every ordered PAIR of adjacent bytes as part of a sequence. A single byte value means
// nothing to the text machinery of the standard library; two adjacent ones may: a valid 2-byte UTF-8
// sequence (0xC3 0xBF is U+00FF, the code point whose number is the gap byte), CR LF, a backslash escape, a
// percent verb. Levenshtein is defined on all 255 letters, so every pair is inside the domain.
func alignAllBytePairs(r *core.Run, judge func(c alnCase, res alnResult, changed bool) core.Outcome) {
	core.Clause(r, "all-byte-pairs", core.Opts{Rule: "for every ordered pair (x,y) of byte values 0..254: a = xy against b = xy and b = yxy, and a = AxyA against b = xy, with Levenshtein x {Global, Local}; judged like every other call; non-trivial = always",
		Bounds: "65 025 byte pairs x 3 sequence pairs x 2 functions"},
		func(emit func(alnCase) bool) {
			for x := 0; x < 255; x++ {
				for y := 0; y < 255; y++ {
					xy := string([]byte{byte(x), byte(y)})
					for _, fn := range bothFns {
						if !emit(alnCase{fn, core.S(xy), core.S(xy), "Levenshtein"}) ||
							!emit(alnCase{fn, core.S(xy), core.S(xy[1:] + xy), "Levenshtein"}) ||
							!emit(alnCase{fn, core.S("A" + xy + "A"), core.S(xy), "Levenshtein"}) {
							return
						}
					}
				}
			}
		},
		func(c alnCase) core.Outcome {
			res, changed := runAlign(c, matrixByName(c.Matrix))
			out := judge(c, res, changed)
			if out.Fail == "" && out.Known == "" {
				out.Class = c.Fn
				out.Nontrivial = true
			}
			return out
		})
}
