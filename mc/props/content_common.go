package props

// Content classes: what a long field is made of, independent of its length. Length sweeps with one
// neutral ASCII pattern are blind to code that counts runes instead of bytes (fmt precisions, range over
// string, strings.Fields), treats '%' as a verb, or special-cases high bytes; these classes are crossed
// with the lengths around every wrapping / buffer threshold.
var contentClassNames = []string{"utf8-2byte", "utf8-mixed", "high-bytes", "percent-verbs", "quotes-backslashes", "utf8-cut"}

// contentOf returns n BYTES of the class (a multi-byte rune may be cut at the end: the fields are byte
// strings). excluded bytes (the field's delimiters) are replaced by 'x'.
func contentOf(class string, n int, excluded string) []byte {
	var unit string
	switch class {
	case "utf8-2byte":
		unit = "é"
	case "utf8-mixed":
		unit = "a\u00e9\u65e5\U0001d11e\u0141\u2028b\ufeff"
	case "high-bytes":
		unit = "\x80\xff\xfe\xc0\xc3\xa9\xed\xa0\x80\xf5"
	case "percent-verbs":
		unit = "%s%d%%!%v(MISSING)%"
	case "quotes-backslashes":
		unit = "\"\\'`\\n\\x00"
	case "utf8-cut": // starts in the middle of a rune, so that rune boundaries never line up with line boundaries
		unit = "\xa9é日\x97"
	}
	b := make([]byte, n)
	for i := range b {
		c := unit[(i+i/len(unit)/7)%len(unit)]
		for j := 0; j < len(excluded); j++ {
			if c == excluded[j] {
				c = 'x'
			}
		}
		b[i] = c
	}
	return b
}
