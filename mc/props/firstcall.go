package props

import (
	"bytes"
	"encoding/json"
	"fmt"
	"os"
	"os/exec"
	"slices"
	"sort"
	"strings"

	"github.com/fluhus/biostuff/align"
	"github.com/fluhus/biostuff/formats/bed"
	"github.com/fluhus/biostuff/formats/fasta"
	"github.com/fluhus/biostuff/formats/fastq"
	"github.com/fluhus/biostuff/formats/newick"
	"github.com/fluhus/biostuff/formats/sam"
	"github.com/fluhus/biostuff/formats/smtext"
	"github.com/fluhus/biostuff/mash"
	"github.com/fluhus/biostuff/regions"
	"github.com/fluhus/biostuff/sequtil"
	"github.com/fluhus/biostuff/trie"

	"verif/mc/engine/core"
)

// Every entry point as the FIRST call into the library of a fresh process. The enumerations of a check
// run inside one long-lived process in which some other call has usually happened before; a table that
// is filled lazily by one entry point and read by another (a sync.Once in the wrong place, an init moved
// into a constructor) is only visible when the reading entry point comes first. The check re-executes
// its own binary once per entry point (mc __hidden firstcall:<name>); the body makes that one call on a
// small valid input and compares with a literal expected value.

var firstCalls = map[string]func() string{
	"sequtil.ReverseComplement": func() string {
		return expect(string(sequtil.ReverseComplement(nil, []byte("AACTTGGGn"))), "nCCCAAGTT")
	},
	"sequtil.ReverseComplementString": func() string { return expect(sequtil.ReverseComplementString("AACTTGGGn"), "nCCCAAGTT") },
	"sequtil.CanonicalSubsequences": func() string {
		var got []string
		for km := range sequtil.CanonicalSubsequences([]byte("GATTA"), 2) {
			got = append(got, string(km))
		}
		return expect(strings.Join(got, ","), "GA,AT,AA,TA")
	},
	"sequtil.DNATo2Bit":   func() string { return expect(fmt.Sprintf("%x", sequtil.DNATo2Bit(nil, []byte("ACGTa"))), "1b00") },
	"sequtil.DNAFrom2Bit": func() string { return expect(string(sequtil.DNAFrom2Bit(nil, []byte{0x1b})), "ACGT") },
	"sequtil.Ntoi":        func() string { return expect(fmt.Sprint(sequtil.Ntoi('g'), sequtil.Ntoi('N')), "2 -1") },
	"sequtil.Iton":        func() string { return expect(string(sequtil.Iton(3)), "T") },
	"sequtil.Translate":   func() string { return expect(string(sequtil.Translate(nil, []byte("ATGgcaTGA"))), "MA*") },
	"sequtil.TranslateReadingFrames": func() string {
		f := sequtil.TranslateReadingFrames([]byte("ATGGCATG"))
		return expect(string(f[0])+"|"+string(f[1])+"|"+string(f[2]), "MA|WH|GM")
	},
	"sequtil.AminoName": func() string {
		code, name := sequtil.AminoName('m')
		return expect(code+"/"+name, "Met/Methionine")
	},
	"align.Global": func() string {
		st, sc := align.Global([]byte("ab"), []byte("b"), align.Levenshtein)
		return expect(fmt.Sprint(st, sc), "[deletion match] -1")
	},
	"align.Local": func() string {
		st, ai, bi, sc := align.Local([]byte("WRA"), []byte("RA"), align.BLOSUM62)
		return expect(fmt.Sprint(st, ai, bi, sc), "[match match] 1 0 9")
	},
	"align.Symmetrical": func() string {
		m := align.SubstitutionMatrix{{'a', 'b'}: 2}.Symmetrical()
		return expect(fmt.Sprint(len(m), m[[2]byte{'b', 'a'}]), "2 2")
	},
	"align.GoString": func() string {
		return expect(align.SubstitutionMatrix{{'a', 'b'}: 2}.GoString(), "SubstitutionMatrix{\n{'a','b'}:2,\n}\n")
	},
	"smtext.ReadNCBI": func() string {
		m, err := smtext.ReadNCBI(strings.NewReader("  A *\nA 1 -2\n"))
		return expect(fmt.Sprint(len(m), m[[2]byte{'A', align.Gap}], err), "2 -2 <nil>")
	},
	"mash.Sequences": func() string {
		return expect(fmt.Sprint(len(mash.Sequences(3, 2, []byte("ACGTT")).View())), "3")
	},
	"mash.Distance": func() string {
		a := mash.Sequences(2, 2, []byte("ACGTT"))
		return expect(fmt.Sprint(mash.Distance(a, a, 2) == 0), "true")
	},
	"mash.FromJaccard": func() string {
		return expect(fmt.Sprint(mash.FromJaccard(1, 5) == 0, mash.FromJaccard(0, 5)), "true 1")
	},
	"trie": func() string {
		t := trie.New()
		t.Add([]byte("ab"))
		var got []string
		t.ForEach(func(b []byte) bool { got = append(got, string(b)); return true })
		js, _ := json.Marshal(t)
		return expect(fmt.Sprint(t.Has([]byte("a")), t.Has([]byte("b")), got, t.Delete([]byte("ab")), len(js) > 2), "true false [ab] true true")
	},
	"trie.UnmarshalJSON": func() string {
		t := &trie.Trie{}
		err := json.Unmarshal([]byte(`{"m":{"97":{"m":{}}}}`), t)
		return expect(fmt.Sprint(err, t.Has([]byte("a"))), "<nil> true")
	},
	"regions": func() string {
		idx := regions.NewIndex([]int{0, 2}, []int{5, 3})
		return expect(fmt.Sprint(idx.At(2), idx.At(4), len(idx.At(9))), "[0 1] [0] 0")
	},
	"newick.traversals": func() string {
		root := &newick.Node{Name: "r", Children: []*newick.Node{{Name: "a"}, {Name: "b"}}}
		var pre, post []string
		for n := range root.PreOrder() {
			pre = append(pre, n.Name)
		}
		for n := range root.PostOrder() {
			post = append(post, n.Name)
		}
		return expect(fmt.Sprint(pre, post), "[r a b] [a b r]")
	},
	"fasta.Reader":     func() string { return firstRead("fasta", ">a\nAC\n>b\nG\n", 2) },
	"fastq.Reader":     func() string { return firstRead("fastq", "@a\nAC\n+\nII\n", 1) },
	"sam.Reader":       func() string { return firstRead("sam", "@HD\tVN:1\nq\t0\tr\t1\t9\t1M\t*\t0\t0\tA\tI\tNM:i:1\n", 1) },
	"sam.ReaderHeader": func() string { return firstRead("samh", "@HD\tVN:1\nq\t0\tr\t1\t9\t1M\t*\t0\t0\tA\tI\n", 2) },
	"bed.Reader":       func() string { return firstRead("bed", "c\t0\t1\tn\t5\t+\n", 1) },
	"newick.Reader":    func() string { return firstRead("newick", "(a:1,'b c')r;", 1) },
	"fasta.Write": func() string {
		var w bytes.Buffer
		err := (&fasta.Fasta{Name: []byte("a"), Sequence: []byte("AC")}).Write(&w)
		mt, _ := (&fasta.Fasta{Name: []byte("a"), Sequence: []byte("AC")}).MarshalText()
		return expect(fmt.Sprintf("%s|%v|%s", w.String(), err, mt), ">a\nAC\n|<nil>|>a\nAC\n")
	},
	"fastq.Write": func() string {
		var w bytes.Buffer
		err := (&fastq.Fastq{Name: []byte("a"), Sequence: []byte("AC"), Quals: []byte("II")}).Write(&w)
		return expect(fmt.Sprintf("%s|%v", w.String(), err), "@a\nAC\n+\nII\n|<nil>")
	},
	"sam.Write": func() string {
		var w bytes.Buffer
		err := (&sam.SAM{Qname: "q", Rname: "r", Cigar: "1M", Rnext: "*", Seq: "A", Qual: "I", Tags: map[string]any{"NM": 1}}).Write(&w)
		return expect(fmt.Sprintf("%s|%v", w.String(), err), "q\t0\tr\t0\t0\t1M\t*\t0\t0\tA\tI\tNM:i:1\n|<nil>")
	},
	"sam.Flag": func() string {
		var fl sam.Flag = 16
		return expect(fmt.Sprint(fl.ReverseComplement(), fl.Unmapped()), "true false")
	},
	"bed.Write": func() string {
		var w bytes.Buffer
		err := (&bed.BED{N: 4, Chrom: "c", ChromEnd: 1, Name: "n"}).Write(&w)
		return expect(fmt.Sprintf("%s|%v", w.String(), err), "c\t0\t1\tn\n|<nil>")
	},
	"newick.Write": func() string {
		var w bytes.Buffer
		err := (&newick.Node{Name: "r", Children: []*newick.Node{{Name: "a b", Distance: 1}}}).Write(&w)
		return expect(fmt.Sprintf("%s|%v", w.String(), err), "(a_b:1)r;|<nil>")
	},
}

func expect(got, want string) string {
	if got != want {
		return fmt.Sprintf("got %q, want %q", got, want)
	}
	return ""
}

func firstRead(format, text string, items int) string {
	got, p, _ := formatByName(format).Read(strings.NewReader(text), 16)
	if p != "" {
		return "panic: " + p
	}
	for _, it := range got {
		if it.IsErr() {
			return "error item: " + it.Err
		}
	}
	return expect(fmt.Sprint(len(got)), fmt.Sprint(items))
}

func init() {
	for name, f := range firstCalls {
		f := f
		Hidden["firstcall:"+name] = func() int {
			var fail string
			if p := catch(func() { fail = f() }); p != "" {
				fail = "panic: " + p
			}
			if fail != "" {
				fmt.Println(fail)
				return 3
			}
			return 0
		}
	}
}

type firstCallCase struct {
	Entry string `json:"entry_point"`
}

// firstCallClause runs the named entry points (prefix match) each as the first library call of a fresh process.
func firstCallClause(r *core.Run, prefixes ...string) {
	var names []string
	for n := range firstCalls {
		for _, p := range prefixes {
			if strings.HasPrefix(n, p) {
				names = append(names, n)
				break
			}
		}
	}
	sort.Strings(names)
	names = slices.Compact(names)
	core.Clause(r, "first-call-in-a-fresh-process", core.Opts{Rule: "each entry point is the FIRST call into the library in a freshly started process (the check re-executes its own binary once per entry point) and must give its ordinary answer on a small valid input: what one entry point prepares lazily, another must not rely on; non-trivial = all",
		Bounds: fmt.Sprintf("%d entry points: %v", len(names), names)},
		func(emit func(firstCallCase) bool) {
			for _, n := range names {
				if !emit(firstCallCase{n}) {
					return
				}
			}
		},
		func(c firstCallCase) core.Outcome {
			exe, err := os.Executable()
			if err != nil {
				return core.Outcome{Class: "HARNESS cannot find own executable", Skip: true}
			}
			cmd := exec.Command(exe, "__hidden", "firstcall:"+c.Entry)
			out, err := cmd.CombinedOutput()
			if err != nil {
				return core.Failf("%s as the first library call of a fresh process: %s (%v)", c.Entry, trunc(strings.TrimSpace(string(out)), 400), err)
			}
			return core.OK("ok", true)
		})
}
