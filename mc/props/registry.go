// Package props holds one driver per property. A driver closes the system around the real
// biostuff packages (compiled from /repo's working tree) and enumerates its bounded space with
// the engines.
package props

import (
	"fmt"
	"runtime/debug"
	"sort"

	"verif/mc/engine/core"
)

// Prop is a registered property driver.
type Prop struct {
	ID    string
	Level string
	Run   func(r *core.Run)
}

var registry = map[string]Prop{}

func register(id, level string, f func(r *core.Run)) {
	registry[id] = Prop{id, level, f}
}

// Get returns a driver.
func Get(id string) (Prop, bool) { p, ok := registry[id]; return p, ok }

// IDs lists the registered drivers.
func IDs() []string {
	var ids []string
	for id := range registry {
		ids = append(ids, id)
	}
	sort.Strings(ids)
	return ids
}

// catch runs f and returns the recovered panic value rendered as text ("" if none).
func catch(f func()) (p string) {
	defer func() {
		if r := recover(); r != nil {
			p = fmt.Sprint(r)
			if p == "" {
				p = "panic with empty value"
			}
			_ = debug.Stack
		}
	}()
	f()
	return ""
}
