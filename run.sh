#!/bin/bash
# Entry point of every registered check:  ./run.sh <ID> <quick|thorough>   |   ./run.sh <ID> --replay <file>
# Rebuilds the explorer from /repo's current working tree (replace directive + build cache), then runs it.
set -u
cd "$(dirname "$0")"
ROOT="$(pwd)"
export GOFLAGS=-mod=mod GOPROXY=off GOSUMDB=off GOTOOLCHAIN=local
export VERIF_ROOT="$ROOT"
export GOCACHE="${GOCACHE:-$ROOT/.cache/go-build}"
mkdir -p "$ROOT/bin" "$ROOT/evidence" "$ROOT/.scratch" "$GOCACHE"
ID="${1:?property id}"; shift
TIER="${1:-${VERIF_TIER:-quick}}"
OVERLAY=()
if [ -n "${VERIF_OVERLAY:-}" ]; then OVERLAY=(-overlay "$VERIF_OVERLAY"); fi
BIN="$ROOT/bin/mc.$$"
trap 'rm -f "$BIN"' EXIT
if ! (cd "$ROOT/mc" && cp /repo/go.sum go.sum 2>/dev/null; go build -tags verif "${OVERLAY[@]}" -o "$BIN" ./cmd/mc) >"$ROOT/.scratch/build.$$.log" 2>&1; then
  cat "$ROOT/.scratch/build.$$.log"; rm -f "$ROOT/.scratch/build.$$.log"
  echo "BUILD-FAILED property=$ID (the harness or /repo does not compile)"
  exit 2
fi
rm -f "$ROOT/.scratch/build.$$.log"
# generous hard limits; the checks stop by themselves at their soft deadline (exit 0, exhaustive:false)
if [ "$TIER" = "thorough" ]; then ulimit -v 41943040 2>/dev/null || true; else ulimit -v 12582912 2>/dev/null || true; fi
LOG="$ROOT/.scratch/run.$$.log"
# Hard limit, far above the soft deadline at which a check stops by itself (quick 5 min, thorough 40 min):
# a check that is still running then is blocked. SIGQUIT makes the Go runtime print every goroutine.
HARD=1500; [ "$TIER" = "thorough" ] && HARD=6000
HARD="${VERIF_HARD_TIMEOUT_S:-$HARD}"
if [ "$TIER" = "--replay" ]; then
  timeout -s QUIT -k 20 "$HARD" "$BIN" "$ID" --replay "${2:?replay file}" </dev/null 2>&1 | tee "$LOG"; rc=${PIPESTATUS[0]}
else
  # standard input is closed off: a library that starts reading it (a "-" path convention) must not block the check
  timeout -s QUIT -k 20 "$HARD" "$BIN" "$ID" "$TIER" </dev/null 2>&1 | tee "$LOG"; rc=${PIPESTATUS[0]}
fi
# Stopped by the hard limit: if some goroutine is parked on a lock taken INSIDE biostuff code (the harness
# shares no lock with the library), library calls block each other forever: a violation, with the goroutine
# dump as its replay artefact. Anything else that hangs is a harness failure (exit 2).
if grep -q '^SIGQUIT: quit' "$LOG" 2>/dev/null; then
  blocked=$(awk '/^goroutine [0-9]+ \[(sync\.Mutex\.Lock|sync\.RWMutex\.(R)?Lock|semacquire|sync\.WaitGroup\.Wait|chan (send|receive)|select)/{g=$0; inlib=0; next} /^$/{if(g!="" && inlib){print g; exit} g=""} g!="" && /\/repo\//{inlib=1}' "$LOG")
  if [ -n "$blocked" ]; then
    RDIR="${VERIF_EVIDENCE_DIR:+$VERIF_EVIDENCE_DIR/replays}"; RDIR="${RDIR:-$ROOT/replays}"; mkdir -p "$RDIR"
    CR="$RDIR/$ID-blocked-$(date +%s).log"; cp "$LOG" "$CR"
    echo "VIOLATION property=$ID replay=$CR"
    echo "  the check was still running after ${HARD}s with a goroutine parked inside biostuff code: $blocked"
    rc=1
  else
    echo "HARNESS-ERROR property=$ID: the check did not finish within ${HARD}s and no goroutine is blocked inside biostuff code"
    rc=2
  fi
fi
# A fatal Go runtime error (stack overflow, out of memory, concurrent map access) cannot be recovered
# inside the process. If the goroutine that died was executing biostuff code (a /repo/ frame in the first
# stack printed), the library brought the process down on an input of the bounded space: that is a
# violation, and the crash log is its replay artefact. Any other crash is a harness failure (exit 2).
if [ $rc -ne 0 ] && [ $rc -ne 1 ] && grep -q '^fatal error:' "$LOG"; then
  first=$(awk '/^goroutine [0-9]+ /{n++} n==1{print} n>=2{exit}' "$LOG")
  if echo "$first" | grep -q '/repo/'; then
    RDIR="${VERIF_EVIDENCE_DIR:+$VERIF_EVIDENCE_DIR/replays}"; RDIR="${RDIR:-$ROOT/replays}"; mkdir -p "$RDIR"
    CR="$RDIR/$ID-crash-$(date +%s).log"; cp "$LOG" "$CR"
    echo "VIOLATION property=$ID replay=$CR"
    echo "  the checker process died with a fatal runtime error inside biostuff code: $(grep -m1 '^fatal error:' "$LOG")"
    echo "  $(echo "$first" | grep -m1 '/repo/' | sed 's/^[ \t]*//')"
    rc=1
  fi
fi
# A crash that cannot be pinned on a biostuff frame (typically memory corrupted by state that the library
# shares between independent calls, found by the garbage collector of some other goroutine) gets one
# more run with a single worker: without parallel calls the same clauses decide deterministically.
if [ $rc -ne 0 ] && [ $rc -ne 1 ] && grep -q '^fatal error:' "$LOG" && [ "$TIER" != "--replay" ] && [ -z "${VERIF_SERIAL_RERUN:-}" ]; then
  echo "RERUN property=$ID: the checker died with $(grep -m1 '^fatal error:' "$LOG") outside biostuff frames; running again with one worker"
  rm -f "$LOG"
  VERIF_SERIAL_RERUN=1 GOMAXPROCS=1 "$BIN" "$ID" "$TIER" </dev/null 2>&1 | tee "$LOG"; rc=${PIPESTATUS[0]}
fi
rm -f "$LOG"
exit $rc
