package props

import (
	"bytes"
	"fmt"
	"io"

	"github.com/fluhus/biostuff/formats/newick"

	"verif/mc/engine/core"
	"verif/mc/engine/enum"
)

func init() { register("C05", "exploration", runC05) }

// nwTree is a JSON-serialisable tree: shape as pre-order child counts, attributes per node in
// pre-order. Dists are strings understood by parseF.
type nwTree struct {
	Code  []int    `json:"preorder_child_counts"`
	Names []core.S `json:"names"`
	Dists []string `json:"distances"`
	// Memory: how the Children slices are laid out: "" (nil for leaves, exact slices), "empty-leaves"
	// (leaves hold []*Node{}), "empty-leaves-with-capacity" (make([]*Node, 0, 4), what pruning with
	// kids[:0] leaves behind), "spare-capacity" (every Children slice has 3 unused slots holding stale nodes)
	Memory string `json:"children_slices,omitempty"`
}

func (t nwTree) build() *newick.Node {
	root, nodes := buildTree(t.Code)
	for i, n := range nodes {
		n.Name = string(t.Names[i])
		n.Distance = parseF(t.Dists[i])
		switch t.Memory {
		case "empty-leaves":
			if len(n.Children) == 0 {
				n.Children = []*newick.Node{}
			}
		case "empty-leaves-with-capacity":
			if len(n.Children) == 0 {
				n.Children = append(make([]*newick.Node, 0, 4), &newick.Node{Name: "pruned"})[:0]
			}
		case "spare-capacity":
			k := len(n.Children)
			c := append(make([]*newick.Node, 0, k+3), n.Children...)
			c = append(c, &newick.Node{Name: "stale1"}, &newick.Node{Name: "stale2", Children: []*newick.Node{{Name: "stale3"}}})
			n.Children = c[:k]
		}
	}
	return root
}

func defaultNwTree(code []int) nwTree {
	t := nwTree{Code: append([]int(nil), code...), Names: make([]core.S, len(code)), Dists: make([]string, len(code))}
	for i := range code {
		t.Names[i] = core.S(fmt.Sprint("n", i))
		t.Dists[i] = "0"
	}
	return t
}

var nwNames = []string{"", "a", " ", "_", "'", "''", "'a'", "a'b", "(", ")", ",", ":", ";", "\t", "\n", "\r", "a b", "a_b", "a b_c", "[x]", "1.5", "\n\n", "a\nb", "\x00", "\x80", "é", "\xc5\x81", "日本", "\xe2\x80\xa8", "\xc2\x85", "\xef\xbb\xbfx", "a\xc2\xa0b", "[&&NHX:x=1]", "1e5", "-", "+Inf", "NaN", "0", "#H1", "x#H1", "#", "%s", "%d%%", "\\N", "=", "*", "."}
var nwDists = []string{"-0", "1", "-1.5", "1e-05", "1e+21", "5e-324", "1.7976931348623157e+308", "NaN", "+Inf", "-Inf", "0.1"}

// nwWholeDists: whole numbers at the boundaries of the integer types and of float64's exact
// integer range (a writer that special-cases whole numbers must get all of them right).
var nwWholeDists = []string{"255", "256", "32767", "32768", "65535", "65536", "999999", "1e+06", "2147483647", "2147483648", "-2147483648", "-2147483649", "4294967295", "4294967296",
	"9007199254740991", "9007199254740992", "9007199254740994", "9223372036854774784", "9223372036854775808", "-9223372036854775808", "9223372036854777856", "-9223372036854777856",
	"18446744073709551616", "1e+15", "1e+20", "1e+22", "123456789012345680", "-1e+19"}

// newickShape checks the written form: ends with ';', and no whitespace byte outside quotes.
func newickShape(out []byte) string {
	if len(out) == 0 || out[len(out)-1] != ';' {
		return "output does not end with ';'"
	}
	inq := false
	for i := 0; i < len(out); i++ {
		b := out[i]
		if b == '\'' {
			if inq && i+1 < len(out) && out[i+1] == '\'' {
				i++ // doubled quote inside a quoted name
				continue
			}
			inq = !inq
			continue
		}
		if !inq && (b == ' ' || b == '\t' || b == '\n' || b == '\r') {
			return fmt.Sprintf("whitespace byte %q outside a quoted name at offset %d (output is not condensed)", b, i)
		}
	}
	if inq {
		return "unbalanced quote"
	}
	return ""
}

func writeNewickChecked(n *newick.Node) ([]byte, string) {
	var w bytes.Buffer
	var werr, merr error
	var mt []byte
	if p := catch(func() { werr = n.Write(&w); mt, merr = n.MarshalText() }); p != "" {
		return nil, "Write/MarshalText panicked: " + p
	}
	if werr != nil || merr != nil {
		return nil, fmt.Sprintf("Write/MarshalText returned an error: %v %v", werr, merr)
	}
	if !bytes.Equal(w.Bytes(), mt) {
		return nil, fmt.Sprintf("MarshalText %q differs from Write %q", trunc(string(mt), 200), trunc(w.String(), 200))
	}
	if f := newickShape(w.Bytes()); f != "" {
		return nil, fmt.Sprintf("%s: %q", f, trunc(w.String(), 300))
	}
	return w.Bytes(), ""
}

func readNewickAll(data []byte) ([]obsItem, string) {
	items, p, over := collect2(newick.Reader(bytes.NewReader(data)), renderNewick, 1<<16)
	if over {
		p = "iterator did not end"
	}
	return items, p
}

func checkNewickRoundTrip(t nwTree) core.Outcome {
	root := t.build()
	want := renderNewick(root)
	data, fail := writeNewickChecked(root)
	if fail != "" {
		return core.Failf("%s (tree %s)", fail, trunc(want, 300))
	}
	if renderNewick(root) != want {
		return core.Failf("Write modified the tree")
	}
	got, p := readNewickAll(data)
	if p != "" {
		return core.Failf("Reader panicked/hung on %q: %s", trunc(string(data), 300), p)
	}
	if len(got) != 1 || got[0].IsErr() || got[0].Rec != want {
		return core.Failf("tree %s is written as %q and read back as %s", trunc(want, 300), trunc(string(data), 300), trunc(renderObs(got), 300))
	}
	return core.Outcome{}
}

type c05Seq struct {
	Trees []int    `json:"tree_indices"`
	Seps  []core.S `json:"separators"` // one per tree (written after it); a single element applies to all
}

type c05Big struct {
	Kind string `json:"kind"`
	N    int    `json:"n"`
}

func nwTreePool() []nwTree {
	mk := func(code []int, names []string, d []string) nwTree {
		t := defaultNwTree(code)
		for i := range names {
			t.Names[i] = core.S(names[i])
		}
		for i := range d {
			t.Dists[i] = d[i]
		}
		return t
	}
	return []nwTree{
		mk([]int{0}, []string{""}, nil),
		mk([]int{0}, []string{"a"}, []string{"1"}),
		mk([]int{2, 0, 0}, []string{"", "", ""}, nil),
		mk([]int{2, 0, 0}, []string{"r", "x y", "z;"}, []string{"0", "0.5", "2"}),
		mk([]int{1, 1, 0}, []string{"'", "", "q"}, []string{"0", "3", "0"}),
		mk([]int{3, 0, 1, 0, 0}, []string{"", "a", "", "b", "c"}, []string{"0", "1", "2", "3", "4"}),
		mk([]int{0}, []string{"x\ty"}, nil),
		mk([]int{1, 0}, []string{"", ""}, []string{"0", "NaN"}),
	}
}

func runC05(r *core.Run) {
	defer everyLength(r)
	racePass(r, "race-format-newick", "the newick codec: readers each on their own stream (whole and in 7-byte reads, every corpus file), Write on shared records into separate destinations, File on one shared path; every result is compared with what the same call returned when it ran alone")
	firstCallClause(r, "newick.Reader", "newick.Write")
	N := core.Pick(r, 6, 8)
	dev := 2
	r.Bound("shapes", fmt.Sprintf("every ordered tree with 1..%d nodes; default attributes name n<i>, distance 0; <= %d deviating attributes (name or distance of one node) over %d names %q and %d distances %v", N, dev, len(nwNames), nwNames, len(nwDists), nwDists))
	core.Clause(r, "shapes-deviations", core.Opts{Rule: "every tree shape up to the node bound x every choice of <= 2 deviating attributes over the name and distance menus; written (== MarshalText, condensed, ends with ';') and read back structurally equal; non-trivial = at least one deviating attribute"},
		func(emit func(nwTree) bool) {
			enum.TreesUpTo(N, func(code []int) bool {
				n := len(code)
				menus := make([]int, 2*n)
				for i := 0; i < n; i++ {
					menus[2*i] = len(nwNames)
					menus[2*i+1] = len(nwDists)
				}
				return enum.Deviations(menus, dev, func(t []int) bool {
					tr := defaultNwTree(code)
					for i, a := range t {
						if a < 0 {
							continue
						}
						if i%2 == 0 {
							tr.Names[i/2] = core.S(nwNames[a])
						} else {
							tr.Dists[i/2] = nwDists[a]
						}
					}
					return emit(tr)
				})
			})
		},
		func(t nwTree) core.Outcome {
			if out := checkNewickRoundTrip(t); out.Fail != "" {
				return out
			}
			nd := 0
			for i := range t.Code {
				if string(t.Names[i]) != fmt.Sprint("n", i) {
					nd++
				}
				if t.Dists[i] != "0" {
					nd++
				}
			}
			return core.Outcome{Class: fmt.Sprint("nodes=", len(t.Code), " dev=", nd), Nontrivial: nd > 0, Evals: 3}
		})

	r.Bound("memory-shapes", fmt.Sprintf("every ordered tree with 1..%d nodes x 3 layouts of the Children slices (leaves holding an empty non-nil slice; leaves holding an emptied slice with capacity and a stale node behind it; every slice with spare capacity holding stale nodes) x {default names, one quoted name, one distance}", N))
	core.Clause(r, "memory-shapes-of-the-tree", core.Opts{Rule: "a node is a leaf iff it has no children, however its Children slice is laid out in memory (nil, empty, emptied with capacity), and only the first len(Children) entries are children: the tree is written and read back exactly like the same tree built with nil leaves and exact slices; non-trivial = all"},
		func(emit func(nwTree) bool) {
			enum.TreesUpTo(N, func(code []int) bool {
				for _, mem := range []string{"empty-leaves", "empty-leaves-with-capacity", "spare-capacity"} {
					for v := 0; v < 3; v++ {
						tr := defaultNwTree(code)
						tr.Memory = mem
						last := len(code) - 1
						if v == 1 {
							tr.Names[last] = "a b"
						}
						if v == 2 {
							tr.Dists[last] = "0.5"
						}
						if !emit(tr) {
							return false
						}
					}
				}
				return true
			})
		},
		func(t nwTree) core.Outcome {
			plain := t
			plain.Memory = ""
			if renderNewick(plain.build()) != renderNewick(t.build()) {
				return core.Failf("HARNESS: the memory layout %q changed the tree itself", t.Memory)
			}
			if out := checkNewickRoundTrip(t); out.Fail != "" {
				out.Fail = "Children slices laid out as " + t.Memory + ": " + out.Fail
				return out
			}
			d1, _ := writeNewickChecked(plain.build())
			d2, _ := writeNewickChecked(t.build())
			if !bytes.Equal(d1, d2) {
				return core.Failf("Children slices laid out as %s: written as %q, the same tree with nil leaves and exact slices as %q", t.Memory, trunc(string(d2), 200), trunc(string(d1), 200))
			}
			return core.Outcome{Class: t.Memory, Nontrivial: true, Evals: 4}
		})

	core.Clause(r, "all-names-small", core.Opts{Rule: "every assignment of menu names to every node of every tree with <= 3 nodes (distance 0 and one non-zero distance variant); non-trivial = all"},
		func(emit func(nwTree) bool) {
			enum.TreesUpTo(3, func(code []int) bool {
				sizes := make([]int, len(code))
				for i := range sizes {
					sizes[i] = len(nwNames)
				}
				return enum.Tuples(sizes, func(t []int) bool {
					for _, d := range []string{"0", "2.5"} {
						tr := defaultNwTree(code)
						for i, a := range t {
							tr.Names[i] = core.S(nwNames[a])
							tr.Dists[i] = d
						}
						if !emit(tr) {
							return false
						}
					}
					return true
				})
			})
		},
		func(t nwTree) core.Outcome {
			if out := checkNewickRoundTrip(t); out.Fail != "" {
				return out
			}
			return core.Outcome{Class: fmt.Sprint("nodes=", len(t.Code)), Nontrivial: true, Evals: 3}
		})

	core.Clause(r, "all-bytes-names", core.Opts{Rule: "every byte value 0..255 as a node name: alone, at the start, in the middle and at the end of a name, on a leaf, on an inner node and on the root of a 3-node tree; non-trivial = all"},
		func(emit func(nwTree) bool) {
			for b := 0; b < 256; b++ {
				for _, nm := range []string{string([]byte{byte(b)}), string([]byte{byte(b), 'a'}), string([]byte{'a', byte(b), 'c'}), string([]byte{'a', byte(b)}), string([]byte{byte(b), byte(b)})} {
					for pos := 0; pos < 3; pos++ {
						t := defaultNwTree([]int{1, 1, 0})
						t.Names[pos] = core.S(nm)
						t.Dists[2] = "1.5"
						if !emit(t) {
							return
						}
					}
				}
			}
		},
		func(t nwTree) core.Outcome {
			if out := checkNewickRoundTrip(t); out.Fail != "" {
				return out
			}
			return core.Outcome{Class: "ok", Nontrivial: true, Evals: 3}
		})

	core.Clause(r, "whole-number-distances", core.Opts{Rule: "every listed whole-number distance (integer-type and 2^53 boundaries, both signs) and 40 sharp fractional ones (exactly-float32 values such as float64(float32(0.1)) and MaxFloat32, neighbours of 1, smallest normal, 1e21/1e22, notation-switch magnitudes) on the leaf, inner node and root of a 3-node tree; non-trivial = all"},
		func(emit func(nwTree) bool) {
			for _, d := range append(append([]string{}, nwWholeDists...), sharpFloats()...) {
				for pos := 0; pos < 3; pos++ {
					t := defaultNwTree([]int{1, 1, 0})
					t.Dists[pos] = d
					if !emit(t) {
						return
					}
				}
			}
		},
		func(t nwTree) core.Outcome {
			if out := checkNewickRoundTrip(t); out.Fail != "" {
				return out
			}
			return core.Outcome{Class: "ok", Nontrivial: true, Evals: 3}
		})

	var nlens []int
	for l := 0; l <= 130; l++ {
		nlens = append(nlens, l)
	}
	for _, c := range []int{4096, 8192, 65536} {
		for l := c - 24; l <= c+8; l++ {
			nlens = append(nlens, l)
		}
	}
	nlens = append(nlens, 131072, core.Pick(r, 300000, 2000000))
	r.Bound("long-names", "a 3-node tree followed by a second tree, one name of every length 0..130, every length in [c-24, c+8] for c in {4096, 8192, 65536} (so that the whole text crosses the 4 KiB and 64 KiB buffer boundaries at every offset), 131072 and one larger; plain and needing quotes")
	core.Clause(r, "long-names", core.Opts{Rule: "names of every listed length (position-dependent content), unquoted and quoted variants; the following tree must still be read; non-trivial = length >= 2"},
		func(emit func(c05Big) bool) {
			for _, l := range nlens {
				if !emit(c05Big{"name", l}) || !emit(c05Big{"quoted-name", l}) || !emit(c05Big{"quoted-name-without-inner-quotes", l}) {
					return
				}
			}
		},
		func(c c05Big) core.Outcome {
			name := make([]byte, c.N)
			for i := range name {
				name[i] = "abcdefghijklmnopqrstuvwxyzABCDEFGHIJKLMNOPQRSTUVWXYZ0123456789"[(i+i/62)%62]
				if c.Kind == "quoted-name" && i%37 == 5 {
					name[i] = " '(_"[(i/37)%4]
				}
				if c.Kind == "quoted-name-without-inner-quotes" && (i == 0 || i%1500 == 7) {
					name[i] = "(,:"[(i/1500)%3] // needs quoting, but no quote character for thousands of bytes
				}
			}
			t := defaultNwTree([]int{2, 0, 0})
			t.Names[1] = core.S(name)
			t.Dists[1] = "0.25"
			root := t.build()
			second := defaultNwTree([]int{1, 0}).build()
			d1, f1 := writeNewickChecked(root)
			d2, f2 := writeNewickChecked(second)
			if f1 != "" || f2 != "" {
				return core.Failf("%s %s", f1, f2)
			}
			got, p := readNewickAll(append(append(append([]byte{}, d1...), '\n'), d2...))
			if p != "" {
				return core.Failf("Reader panicked/hung with a name of %d bytes: %s", c.N, p)
			}
			if len(got) != 2 || got[0].IsErr() || got[1].IsErr() || got[0].Rec != renderNewick(root) || got[1].Rec != renderNewick(second) {
				return core.Failf("a tree with a %s of %d bytes followed by a second tree reads back as %s", c.Kind, c.N, trunc(renderObs(got), 300))
			}
			return core.Outcome{Class: c.Kind, Nontrivial: c.N >= 2, Evals: 3}
		})

	firstBytes(r, "newick", func(prefix string) ([]byte, []obsItem, bool, string) {
		t := defaultNwTree([]int{0})
		t.Names[0] = core.S(prefix + "n")
		root := t.build()
		second := defaultNwTree([]int{1, 0}).build()
		d1, f1 := writeNewickChecked(root)
		d2, f2 := writeNewickChecked(second)
		if f1 != "" || f2 != "" {
			return nil, nil, true, f1 + f2
		}
		return append(append(d1, '\n'), d2...), []obsItem{{Rec: renderNewick(root)}, {Rec: renderNewick(second)}}, true, ""
	})
	nwFieldNames := []string{"root-name", "inner-name", "leaf-name", "leaf-name-with-distance", "only-node", "sibling-leaves"}
	nwFields := func(field string, vals []string) ([]byte, []obsItem, bool, string) {
		var data []byte
		var want []obsItem
		add := func(t nwTree) string {
			root := t.build()
			d, f := writeNewickChecked(root)
			data = append(append(data, d...), '\n')
			want = append(want, obsItem{Rec: renderNewick(root)})
			return f
		}
		if field == "sibling-leaves" { // the values are the names of the leaves of ONE tree
			code := []int{len(vals)}
			for range vals {
				code = append(code, 0)
			}
			t := defaultNwTree(code)
			for i, v := range vals {
				t.Names[i+1] = core.S(v)
			}
			if f := add(t); f != "" {
				return nil, nil, true, f
			}
		}
		for _, v := range vals {
			if field == "sibling-leaves" {
				break
			}
			t := defaultNwTree([]int{2, 1, 0, 0})
			switch field {
			case "root-name":
				t.Names[0] = core.S(v)
			case "inner-name":
				t.Names[1] = core.S(v)
			case "leaf-name":
				t.Names[3] = core.S(v)
			case "leaf-name-with-distance":
				t.Names[2], t.Dists[2] = core.S(v), "0.5"
			default:
				t = defaultNwTree([]int{0})
				t.Names[0], t.Dists[0] = core.S(v), "2"
			}
			if f := add(t); f != "" {
				return nil, nil, true, f
			}
		}
		if f := add(defaultNwTree([]int{1, 0})); f != "" {
			return nil, nil, true, f
		}
		return data, want, true, ""
	}
	escapeSpellingsClause(r, "newick", nwFieldNames, nwFields)
	relativesClause(r, "newick", nwFieldNames, nwFields)
	interleavedReadersFor(r, []string{"newick"})
	consumerMutatesRecords(r, []string{"newick"})
	bigFiles(r, "newick", []int{0})

	r.Bound("marked-offsets", markBounds+" (here: the name of one leaf of a 3-node tree followed by a second tree); bytes ' ( _"+core.Pick(r, "", " and ) , : ; space TAB LF [ 0x00 0xFF"))
	core.Clause(r, "marked-offsets", core.Opts{Rule: "a byte of the Newick vocabulary at EVERY offset of a long name (the one byte that forces quoting / must be escaped meets every internal buffer boundary of reader and writer); written, read back, the following tree must still be read; non-trivial = all"},
		genMarks([]string{"leaf-name", "root-name"}, core.Pick(r, []int{'\'', '(', '_'}, []int{'\'', '(', ')', ',', ':', ';', '_', ' ', '\t', '\n', '[', 0x00, 0xFF}), nil),
		func(c markCase) core.Outcome {
			t := defaultNwTree([]int{2, 0, 0})
			idx := 1
			if c.Field == "root-name" {
				idx = 0
			}
			t.Names[idx] = core.S(markedField(c, 'n'))
			t.Dists[1] = "0.25"
			root := t.build()
			second := defaultNwTree([]int{1, 0}).build()
			d1, f1 := writeNewickChecked(root)
			d2, f2 := writeNewickChecked(second)
			if f1 != "" || f2 != "" {
				return core.Failf("%s %s", f1, f2)
			}
			got, p := readNewickAll(append(append(append([]byte{}, d1...), '\n'), d2...))
			if p != "" {
				return core.Failf("Reader panicked/hung: %s of %d bytes with %q at offset %d: %s", c.Field, c.Len, byte(c.Byte), c.Offset, p)
			}
			if len(got) != 2 || got[0].IsErr() || got[1].IsErr() || got[0].Rec != renderNewick(root) || got[1].Rec != renderNewick(second) {
				return core.Failf("a tree with a %s of %d bytes with %q at offset %d, followed by a second tree, reads back as %s", c.Field, c.Len, byte(c.Byte), c.Offset, trunc(renderObs(got), 300))
			}
			return core.Outcome{Class: c.Field, Nontrivial: true, Evals: 3}
		})

	pool := nwTreePool()
	seps := []string{"", " ", "\n", "\r\n", "\t "}
	r.Bound("sequences", fmt.Sprintf("every list of 0..3 trees from a pool of %d, written one after another with each separator of %q after every tree (thorough: every per-gap assignment)", len(pool), seps))
	core.Clause(r, "tree-sequences", core.Opts{Rule: "every list of up to 3 pool trees x separator written after each tree; the reader returns the same sequence of trees; non-trivial = at least 2 trees"},
		func(emit func(c05Seq) bool) {
			enum.Sequences(len(pool), 3, func(sq []int) bool {
				idx := append([]int(nil), sq...)
				if r.Thorough() && len(sq) > 0 {
					sizes := make([]int, len(sq))
					for i := range sizes {
						sizes[i] = len(seps)
					}
					return enum.Tuples(sizes, func(t []int) bool {
						ss := make([]core.S, len(t))
						for i, a := range t {
							ss[i] = core.S(seps[a])
						}
						return emit(c05Seq{idx, ss})
					})
				}
				for _, s := range seps {
					if !emit(c05Seq{idx, []core.S{core.S(s)}}) {
						return false
					}
				}
				return true
			})
		},
		func(c c05Seq) core.Outcome {
			var file bytes.Buffer
			var want []obsItem
			for i, ti := range c.Trees {
				root := pool[ti].build()
				data, fail := writeNewickChecked(root)
				if fail != "" {
					return core.Failf("%s", fail)
				}
				file.Write(data)
				sep := c.Seps[0]
				if len(c.Seps) > 1 {
					sep = c.Seps[i]
				}
				file.WriteString(string(sep))
				want = append(want, obsItem{Rec: renderNewick(root)})
			}
			if len(c.Trees) == 0 {
				file.WriteString(string(c.Seps[0]))
			}
			got, p := readNewickAll(file.Bytes())
			if p != "" {
				return core.Failf("Reader panicked/hung on %q: %s", file.Bytes(), p)
			}
			if !sameShape(got, want) {
				return core.Failf("text %q reads back as %s, want %s", file.Bytes(), renderObs(got), renderObs(want))
			}
			return core.Outcome{Class: fmt.Sprint("trees=", len(c.Trees)), Nontrivial: len(c.Trees) >= 2, Evals: len(c.Trees) + 1}
		})

	marshalHistories(r, "newick", func() []marshaller {
		var out []marshaller
		for i, t := range nwTreePool()[:6] {
			n := t.build()
			out = append(out, marshaller{fmt.Sprint("pool tree ", i), n.MarshalText, func(w *bytes.Buffer) error { return n.Write(w) }, func(w io.Writer) error { return n.Write(w) }})
		}
		return out
	})

	core.Clause(r, "degenerate", core.Opts{Serial: true, Rule: "chain of n nodes and star with n children (names n<i>, distances i); non-trivial = all"},
		func(emit func(c05Big) bool) {
			emit(c05Big{"chain", 1000})
			emit(c05Big{"star", 10000})
			emit(c05Big{"chain", core.Pick(r, 20000, 100000)})
			if r.Thorough() {
				emit(c05Big{"star", 200000})
			}
		},
		func(c c05Big) core.Outcome {
			var code []int
			if c.Kind == "chain" {
				code = make([]int, c.N)
				for i := 0; i < c.N-1; i++ {
					code[i] = 1
				}
			} else {
				code = make([]int, c.N+1)
				code[0] = c.N
			}
			t := defaultNwTree(code)
			for i := range t.Dists {
				t.Dists[i] = fmt.Sprint(i % 1000)
			}
			if out := checkNewickRoundTrip(t); out.Fail != "" {
				return out
			}
			return core.Outcome{Class: c.Kind, Nontrivial: true, Evals: 3}
		})
}
