package props

import (
	"fmt"
	"iter"

	"verif/mc/engine/core"
)

// Re-runnable iterator values (tree traversals, File iterators, CanonicalSubsequences) may be ranged
// inside their own loop body: the all-pairs / triangular loop. Stopping the inner run is an ordinary
// early stop and must be clean: the outer run, still in progress, goes on exactly like an
// uninterrupted one. nestedStops enumerates every (outer position, inner stop position) pair.

func asStrings1[T any](seq iter.Seq[T], render func(T) string) iter.Seq[string] {
	return func(yield func(string) bool) {
		seq(func(v T) bool { return yield(render(v)) })
	}
}

func asStrings2[T any](seq iter.Seq2[T, error], render func(T) string) iter.Seq[string] {
	return func(yield func(string) bool) {
		seq(func(v T, err error) bool {
			if err != nil {
				return yield("ERR")
			}
			return yield(render(v))
		})
	}
}

// nestedStops: seq is ONE iterator value. unordered: items of a stopped run need only be distinct
// members of the full run (trie ForEach promises no order) and the outer run must cover it exactly.
func nestedStops(what string, seq iter.Seq[string], unordered bool) core.Outcome {
	var full []string
	if p := catch(func() {
		for v := range seq {
			full = append(full, v)
			if len(full) > 1<<16 {
				break
			}
		}
	}); p != "" {
		return core.Failf("%s: uninterrupted run panicked: %s", what, p)
	}
	n := len(full)
	count := func(xs []string) map[string]int {
		m := map[string]int{}
		for _, x := range xs {
			m[x]++
		}
		return m
	}
	fullCount := count(full)
	isRun := func(got []string, complete bool) bool {
		if complete && len(got) != n {
			return false
		}
		if len(got) > n {
			return false
		}
		if unordered {
			c := count(got)
			for k, v := range c {
				if v > fullCount[k] {
					return false
				}
			}
			return true
		}
		for i := range got {
			if got[i] != full[i] {
				return false
			}
		}
		return true
	}
	evals := 1
	var fail string
	p := catch(func() {
		for at := 1; at <= n; at++ {
			for s := 1; s <= n+1; s++ { // s == n+1: the inner run is not stopped
				for outerStop := 0; outerStop <= 1; outerStop++ {
					stopOuterAt := 0
					if outerStop == 1 {
						stopOuterAt = at + 1
						if stopOuterAt > n {
							continue
						}
					}
					var outer, inner []string
					innerCalls := 0
					for v := range seq {
						outer = append(outer, v)
						if len(outer) == at {
							for w := range seq {
								inner = append(inner, w)
								innerCalls++
								if innerCalls == s || innerCalls > n+3 {
									break
								}
							}
						}
						if len(outer) == stopOuterAt || len(outer) > n+3 {
							break
						}
					}
					evals += 2
					if innerCalls != min(s, n) || !isRun(inner, s > n) {
						fail = fmt.Sprintf("a run nested at item %d of the outer run and stopped at its item %d saw %d items %s, want the first %d of %s", at, s, innerCalls, trunc(fmt.Sprint(inner), 200), min(s, n), trunc(fmt.Sprint(full), 200))
						return
					}
					wantOuter := n
					if stopOuterAt > 0 {
						wantOuter = stopOuterAt
					}
					if len(outer) != wantOuter || !isRun(outer, stopOuterAt == 0) {
						fail = fmt.Sprintf("the outer run, after a nested run (started at its item %d) was stopped at item %d, saw %s; an uninterrupted run yields %s (outer stopped at %d, 0 = never)", at, s, trunc(fmt.Sprint(outer), 200), trunc(fmt.Sprint(full), 200), stopOuterAt)
						return
					}
				}
			}
		}
	})
	if p != "" {
		return core.Failf("%s: nested runs of one iterator value: panic: %s", what, p)
	}
	if fail != "" {
		return core.Failf("%s: %s", what, fail)
	}
	return core.Outcome{Class: fmt.Sprint("items=", min(n, 3)), Nontrivial: n >= 2, Evals: evals}
}
