// Package choice is engine E1: a stateless, deviation-bounded depth-first explorer over the
// choice points of a driver body. The body is an ordinary function that calls Exec.Choose
// whenever the ENVIRONMENT has to answer (how many bytes a Read delivers, whether EOF comes with
// the data, ...). Choice 0 is the default answer; every other answer is a deviation.
package choice

import "fmt"

// Point is one recorded choice point.
type Point struct {
	Arity int
	Label string
}

// Exec is one execution: it replays Prefix, then answers 0 at every later point.
type Exec struct {
	Prefix  []int
	Choices []int
	Points  []Point
	labels  []string // labels of the prefix as recorded when it was first run ("" = unchecked)
}

// Divergence is the panic value raised when a replayed prefix does not fit the execution:
// nondeterminism leaked into the harness. It is a harness error, never a property violation.
type Divergence struct{ Msg string }

func (d Divergence) Error() string { return "replay divergence: " + d.Msg }

// Choose returns the environment's answer at this point: the replayed one inside the prefix,
// otherwise the default 0.
func (e *Exec) Choose(arity int, label string) int {
	i := len(e.Choices)
	c := 0
	if i < len(e.Prefix) {
		c = e.Prefix[i]
		if c >= arity || c < 0 {
			panic(Divergence{fmt.Sprintf("point %d (%s): replayed choice %d out of range (arity %d)", i, label, c, arity)})
		}
		if i < len(e.labels) && e.labels[i] != "" && e.labels[i] != label {
			panic(Divergence{fmt.Sprintf("point %d: label %q while replaying, %q when recorded", i, label, e.labels[i])})
		}
	}
	e.Choices = append(e.Choices, c)
	e.Points = append(e.Points, Point{arity, label})
	return c
}

// Deviations counts the non-default answers of the execution.
func (e *Exec) Deviations() int {
	n := 0
	for _, c := range e.Choices {
		if c != 0 {
			n++
		}
	}
	return n
}

// Stats of an exploration.
type Stats struct {
	Executions int
	MaxPoints  int
	MaxDev     int
}

// Explore runs body for every choice sequence with at most bound deviations (bound < 0: all).
// visit is called after every execution; returning false stops the exploration.
func Explore(bound int, body func(e *Exec), visit func(e *Exec) bool) Stats {
	var st Stats
	var rec func(prefix []int, labels []string) bool
	rec = func(prefix []int, labels []string) bool {
		e := &Exec{Prefix: prefix, labels: labels}
		body(e)
		if len(e.Choices) < len(prefix) {
			panic(Divergence{fmt.Sprintf("execution ended after %d points but the prefix has %d", len(e.Choices), len(prefix))})
		}
		st.Executions++
		st.MaxPoints = max(st.MaxPoints, len(e.Points))
		st.MaxDev = max(st.MaxDev, e.Deviations())
		if !visit(e) {
			return false
		}
		dev := 0
		for _, c := range prefix {
			if c != 0 {
				dev++
			}
		}
		lab := make([]string, len(e.Points))
		for i, p := range e.Points {
			lab[i] = p.Label
		}
		for i := len(prefix); i < len(e.Points); i++ {
			if bound >= 0 && dev+1 > bound {
				break
			}
			for alt := 1; alt < e.Points[i].Arity; alt++ {
				np := append(append(make([]int, 0, i+1), e.Choices[:i]...), alt)
				if !rec(np, lab[:i+1]) {
					return false
				}
			}
		}
		return true
	}
	rec(nil, nil)
	return st
}

// Replay runs body once with the given choice sequence.
func Replay(choices []int, body func(e *Exec)) *Exec {
	e := &Exec{Prefix: choices}
	body(e)
	return e
}
