package props

import (
	"fmt"

	"verif/mc/engine/core"
	"verif/mc/ref"
)

func init() { register("C08", "exploration", runC08) }

func checkC08(r *core.Run) func(c alnCase) core.Outcome {
	return func(c alnCase) core.Outcome {
		res, changed := runAlign(c, matrixByName(c.Matrix))
		return judgeC08(c, res, changed)
	}
}

// judgeC08 judges the result of one finished call against the matrix NAMED in the case (the
// reference values), whatever map object the call was actually given.
func judgeC08(c alnCase, res alnResult, changed bool) core.Outcome {
	rm := toRefMat(matrixByName(c.Matrix))
	a, b := c.A.B(), c.B.B()
	if res.panicS != "" {
		return core.Failf("%s(%q,%q,%s) panicked: %s", c.Fn, a, b, c.Matrix, res.panicS)
	}
	if changed {
		return core.Failf("%s(%q,%q,%s) modified its inputs", c.Fn, a, b, c.Matrix)
	}
	if c.Fn == "Global" {
		sc, na, nb, ok := ref.Rescore(a, b, 0, 0, res.steps, rm)
		if !ok || na != len(a) || nb != len(b) {
			return core.Failf("Global(%q,%q,%s): steps %v do not consume exactly a and b (consumed %d of %d, %d of %d, valid=%v)", a, b, c.Matrix, res.steps, na, len(a), nb, len(b), ok)
		}
		if sc != res.score {
			return core.Failf("Global(%q,%q,%s): returned score %v but the returned steps %v score %v", a, b, c.Matrix, res.score, res.steps, sc)
		}
		return core.Outcome{Class: fmt.Sprint("global steps=", min(len(res.steps), 3)), Nontrivial: len(a) > 0 && len(b) > 0}
	}
	opt := ref.GotohLocal(a, b, rm)
	if opt == 0 {
		if len(res.steps) != 0 || res.score != 0 {
			return core.Failf("Local(%q,%q,%s): no positive-scoring local alignment exists but got steps %v score %v", a, b, c.Matrix, res.steps, res.score)
		}
		return core.Outcome{Class: "local none", Nontrivial: len(a) > 0 && len(b) > 0}
	}
	if len(res.steps) == 0 {
		if res.score != 0 {
			return core.Failf("Local(%q,%q,%s): no steps but score %v", a, b, c.Matrix, res.score)
		}
		return core.Outcome{Class: "local none-but-positive-exists", Nontrivial: true} // optimality is C09/C10's business
	}
	sc, _, _, ok := ref.Rescore(a, b, res.ai, res.bi, res.steps, rm)
	if !ok {
		return core.Failf("Local(%q,%q,%s): steps %v from offsets (%d,%d) leave the sequences", a, b, c.Matrix, res.steps, res.ai, res.bi)
	}
	if sc != res.score {
		return core.Failf("Local(%q,%q,%s): returned score %v but steps %v from (%d,%d) score %v", a, b, c.Matrix, res.score, res.steps, res.ai, res.bi, sc)
	}
	return core.Outcome{Class: "local found", Nontrivial: true}
}

func genAlign(r *core.Run, which string, sigma string, L int, fns []string) func(emit func(alnCase) bool) {
	return func(emit func(alnCase) bool) {
		for _, fn := range fns {
			mats := matrixFamily(r, which, fn == "Local")
			for _, mn := range mats {
				stop := false
				pairsOver(sigma, L, func(a, b string) bool {
					if !emit(alnCase{fn, core.S(a), core.S(b), mn}) {
						stop = true
						return false
					}
					return true
				})
				if stop {
					return
				}
			}
		}
	}
}

func genShipped(L int, fns []string) func(emit func(alnCase) bool) {
	return func(emit func(alnCase) bool) {
		for _, fn := range fns {
			for _, mn := range shippedNames {
				pairsOver("ARWX", L, func(a, b string) bool { return emit(alnCase{fn, core.S(a), core.S(b), mn}) })
			}
			pairsOver("ab\x00\xfe", L, func(a, b string) bool { return emit(alnCase{fn, core.S(a), core.S(b), "Levenshtein"}) })
		}
	}
}

var bothFns = []string{"Global", "Local"}

func runC08(r *core.Run) {
	firstCallClause(r, "align.Global", "align.Local")
	racePass(r, "race-align", "Global and Local on shared sequences and a shared matrix")

	L2 := core.Pick(r, 5, 8)
	r.Bound("pairs", fmt.Sprintf("all ordered pairs over {A,B}^<=%d; {A,B,C}^<=3 (thorough <=5); shipped matrices over {A,R,W,X}^<=%d and Levenshtein over {a,b,0x00,0xFE}", L2, core.Pick(r, 3, 4)))
	r.Bound("matrices", fmt.Sprintf("%d matrices for Global, %d for Local (Local: only non-positive gap and gap-open scores)", len(matrixFamily(r, "all", false)), len(matrixFamily(r, "all", true))))
	r.Assume("all scores are small integers, so float sums are exact and scores are compared with ==")
	rule := "every ordered pair of sequences up to the bound (empty included) x every matrix of the family x {Global, Local}; re-scored by an independent scorer; non-trivial = both sequences non-empty"
	core.Clause(r, "family-AB", core.Opts{Rule: rule}, genAlign(r, "all", "AB", L2, bothFns), checkC08(r))
	if r.Thorough() {
		core.Clause(r, "family-ABC", core.Opts{Rule: rule}, genAlign(r, "all", "ABC", 5, bothFns), checkC08(r))
	} else {
		core.Clause(r, "family-ABC", core.Opts{Rule: rule}, genAlign(r, "all", "ABC", 3, bothFns), checkC08(r))
	}
	alignHistories(r, []string{"sym:1:-1:-1:0", "sym:3:-3:-1:-2", "sym:2:-3:0:-1", "asym:0:-1"}, judgeC08)
	matrixMutationHistories(r, false, judgeC08)
	matrixMutationHistories2(r)
	alignWideAlphabets(r, judgeC08)
	alignAllLengthPairs(r, "sym:2:-1:-1:0", judgeC08)
	alignBufferReuse(r, []string{"sym:1:-1:-1:0", "sym:3:-3:-1:-2"})
	alignAllBytes(r, true, []string{"2:-1:-1:0", "1:-2:-1:-1"}, judgeC08)
	alignAllBytePairs(r, judgeC08)
	alignAliasing(r, "AB", core.Pick(r, 4, 5), []string{"sym:1:-1:-1:0", "sym:3:-3:-1:-2", "sym:0:-1:-1:0", "sym:-1:-2:-1:-1", "asym:0:-1", "Levenshtein"}, judgeC08)
	core.Clause(r, "shipped", core.Opts{Rule: "every pair over {A,R,W,X} with each shipped PAM/BLOSUM matrix and over {a,b,0x00,0xFE} with Levenshtein; non-trivial = both non-empty"},
		genShipped(core.Pick(r, 3, 4), bothFns), checkC08(r))
}
