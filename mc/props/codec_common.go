package props

import (
	"fmt"
	"iter"
	"math"
	"sort"
	"strconv"
	"strings"

	"github.com/fluhus/biostuff/formats/bed"
	"github.com/fluhus/biostuff/formats/fasta"
	"github.com/fluhus/biostuff/formats/fastq"
	"github.com/fluhus/biostuff/formats/newick"
	"github.com/fluhus/biostuff/formats/sam"
)

// An obsItem is one callback of an iterator, rendered canonically: either a record or an error.
type obsItem struct {
	Rec string // canonical rendering of the record ("" for an error item)
	Err string // error text ("" for a record item)
}

func (o obsItem) IsErr() bool { return o.Err != "" }

// collect2 drains an iter.Seq2[T, error] up to horizon callbacks, rendering each item.
// overflow=true means the iterator was still going at the horizon (treated as non-terminating).
func collect2[T any](seq iter.Seq2[T, error], render func(T) string, horizon int) (items []obsItem, panicS string, overflow bool) {
	var vals []T
	var isRec []bool
	panicS = catch(func() {
		seq(func(v T, err error) bool {
			if err != nil {
				e := err.Error()
				if e == "" {
					e = "(empty error text)"
				}
				items = append(items, obsItem{Err: e})
				isRec = append(isRec, false)
			} else {
				items = append(items, obsItem{Rec: render(v)})
				isRec = append(isRec, true)
			}
			vals = append(vals, v)
			if len(items) >= horizon {
				overflow = true
				return false
			}
			return true
		})
	})
	// A consumer may keep the records it was handed: render every retained record again after the
	// iteration is over. A reader that reuses a buffer for the next record shows here.
	if len(vals) <= 1<<16 {
		for i, v := range vals {
			if !isRec[i] {
				continue
			}
			var again string
			if p := catch(func() { again = render(v) }); p != "" {
				again = "panic: " + p
			}
			if again != items[i].Rec {
				items[i].Rec = fmt.Sprintf(recordChanged+": item %d was %s when yielded and is %s after the iteration", i, items[i].Rec, again)
			}
		}
	}
	return
}

const recordChanged = "RECORD CHANGED AFTER IT WAS YIELDED"

func renderObs(items []obsItem) string {
	var sb strings.Builder
	for i, it := range items {
		if i > 0 {
			sb.WriteString(" ; ")
		}
		if it.IsErr() {
			sb.WriteString("ERR(" + it.Err + ")")
		} else {
			sb.WriteString(it.Rec)
		}
	}
	return "[" + sb.String() + "]"
}

// sameShape compares two observations: same number of items, records equal position-wise,
// errors in the same positions (error texts are not compared).
// strictErrTexts: error items are equal only if their texts are. Set by C06, where both sides of every
// comparison are real decodes of the same bytes (the pinned tree's error texts are a function of the bytes
// alone); left off where one side is built from a model that knows positions of errors but not their wording.
var strictErrTexts bool

func sameShape(a, b []obsItem) bool {
	if len(a) != len(b) {
		return false
	}
	// a record that changed after it was yielded equals nothing, not even the same defect seen
	// through another delivery of the same input
	for _, l := range [][]obsItem{a, b} {
		for _, it := range l {
			if strings.HasPrefix(it.Rec, recordChanged) {
				return false
			}
		}
	}
	for i := range a {
		if a[i].IsErr() != b[i].IsErr() {
			return false
		}
		if strictErrTexts && a[i].IsErr() && a[i].Err != b[i].Err {
			return false
		}
		if !a[i].IsErr() && a[i].Rec != b[i].Rec {
			return false
		}
	}
	return true
}

func fnum(f float64) string {
	switch {
	case math.IsNaN(f):
		return "NaN"
	case f == 0:
		return "0" // -0 and 0 are the same value
	}
	return strconv.FormatFloat(f, 'g', -1, 64)
}

func renderFasta(f *fasta.Fasta) string {
	if f == nil {
		return "<nil record>"
	}
	return fmt.Sprintf("fasta{%q %q}", f.Name, f.Sequence)
}

func renderFastq(f *fastq.Fastq) string {
	if f == nil {
		return "<nil record>"
	}
	return fmt.Sprintf("fastq{%q %q %q}", f.Name, f.Sequence, f.Quals)
}

func renderSAM(s *sam.SAM) string {
	if s == nil {
		return "<nil record>"
	}
	var sb strings.Builder
	fmt.Fprintf(&sb, "sam{%q %d %q %d %d %q %q %d %d %q %q", s.Qname, int(s.Flag), s.Rname, s.Pos, s.Mapq, s.Cigar, s.Rnext, s.Pnext, s.Tlen, s.Seq, s.Qual)
	keys := make([]string, 0, len(s.Tags))
	for k := range s.Tags {
		keys = append(keys, k)
	}
	sort.Strings(keys)
	for _, k := range keys {
		switch v := s.Tags[k].(type) {
		case byte:
			fmt.Fprintf(&sb, " %q:A:%d", k, v)
		case int:
			fmt.Fprintf(&sb, " %q:i:%d", k, v)
		case float64:
			fmt.Fprintf(&sb, " %q:f:%s", k, fnum(v))
		case string:
			fmt.Fprintf(&sb, " %q:Z:%q", k, v)
		case []byte:
			fmt.Fprintf(&sb, " %q:H:%x", k, v)
		default:
			fmt.Fprintf(&sb, " %q:?%T:%v", k, v, v)
		}
	}
	sb.WriteString("}")
	return sb.String()
}

func renderSAMOrHeader(sh sam.SAMOrHeader) string {
	switch {
	case sh.H != nil && sh.S != nil:
		return "BOTH{" + *sh.H + " " + renderSAM(sh.S) + "}"
	case sh.H != nil:
		return fmt.Sprintf("header{%q}", *sh.H)
	case sh.S != nil:
		return renderSAM(sh.S)
	}
	return "<neither header nor record>"
}

func renderBED(b *bed.BED) string {
	if b == nil {
		return "<nil record>"
	}
	return fmt.Sprintf("bed{N=%d %q %d %d %q %d %q %d %d rgb=%v bc=%d sizes=%v starts=%v}", b.N, b.Chrom, b.ChromStart, b.ChromEnd, b.Name,
		b.Score, b.Strand, b.ThickStart, b.ThickEnd, b.ItemRGB, b.BlockCount, append([]int{}, b.BlockSizes...), append([]int{}, b.BlockStarts...))
}

func renderNewick(n *newick.Node) string {
	if n == nil {
		return "<nil tree>"
	}
	var sb strings.Builder
	// iterative to survive very deep trees
	type frame struct {
		n *newick.Node
		i int
	}
	stack := []frame{{n, 0}}
	for len(stack) > 0 {
		f := &stack[len(stack)-1]
		if f.i == 0 {
			fmt.Fprintf(&sb, "(%q:%s", f.n.Name, fnum(f.n.Distance))
		}
		if f.i < len(f.n.Children) {
			c := f.n.Children[f.i]
			f.i++
			if c == nil {
				sb.WriteString("(<nil child>)")
				continue
			}
			stack = append(stack, frame{c, 0})
			continue
		}
		sb.WriteString(")")
		stack = stack[:len(stack)-1]
	}
	return sb.String()
}
