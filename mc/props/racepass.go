package props

import (
	"bytes"
	"fmt"
	"os"
	"slices"
	"strings"
	"sync"

	"github.com/fluhus/biostuff/align"
	"github.com/fluhus/biostuff/formats/newick"
	"github.com/fluhus/biostuff/mash"
	"github.com/fluhus/biostuff/sequtil"
	"github.com/fluhus/biostuff/trie"

	"verif/mc/engine/core"
	"verif/mc/ref"
)

// Free-running -race passes for operations that must not write to what they are given: several
// goroutines run the same read-only calls on SHARED inputs and compare every result with the
// sequential reference. A temporary in-place modification (reverse and restore, scratch state in
// the receiver, a package-level buffer) is invisible to a sequential caller; here it shows as a
// data race or as a wrong answer. These passes are detectors, not enumerations, and are reported
// as such.

func init() {
	Hidden["race-C19"] = raceBodyC19
	Hidden["race-sequtil"] = raceBodySequtil
	Hidden["race-C15"] = raceBodyC15
	Hidden["race-align"] = raceBodyAlign
	Hidden["race-align-affine"] = raceBodyAlignAffine
	Hidden["race-C17"] = raceBodyC17
	Hidden["race-C20"] = raceBodyC20
}

type racePassCase struct {
	Kind string `json:"kind"`
}

// racePass adds the clause that builds mc with -race and runs the hidden body.
func racePass(r *core.Run, body, what string) {
	core.Clause(r, "race-detector-pass", core.Opts{Serial: true, Rule: "NOT an enumeration: " + what + ", run free-running by 8 goroutines on shared inputs in a separate -race build; every result is compared with the sequential reference; a detector pass, reported as such"},
		func(emit func(racePassCase) bool) { emit(racePassCase{"free-running -race build: " + body}) },
		func(c racePassCase) core.Outcome {
			out, code, err := runHidden(r, body, true)
			if err != nil {
				r.HarnessError("race pass could not be built or run: %v\n%s", err, out)
				return core.OK("harness-error", false)
			}
			if code != 0 {
				// said at once as well: should a later clause bring the process down, this explanation is in the log
				fmt.Fprintf(os.Stderr, "race pass %s failed (exit %d):\n%s\n", body, code, headTail(out, 24, 12))
				r.OneWorkerFromNow()
				return core.Failf("free-running -race pass %s exited %d:\n%s", body, code, headTail(out, 24, 12))
			}
			return core.Outcome{Class: "clean", Nontrivial: true, Evals: 8}
		})
}

// headTail: the first report of a -race run names the racing accesses, the last lines say how it ended.
func headTail(s string, h, t int) string {
	l := strings.Split(strings.TrimRight(s, "\n"), "\n")
	if len(l) <= h+t {
		return strings.Join(l, "\n")
	}
	return strings.Join(l[:h], "\n") + fmt.Sprintf("\n... (%d lines) ...\n", len(l)-h-t) + strings.Join(l[len(l)-t:], "\n")
}

func runParallel(n int, f func(g int) string) int {
	var wg sync.WaitGroup
	var mu sync.Mutex
	bad := 0
	for g := 0; g < n; g++ {
		wg.Add(1)
		go func(g int) {
			defer wg.Done()
			if msg := f(g); msg != "" {
				mu.Lock()
				bad++
				if bad <= 5 {
					fmt.Println(msg)
				}
				mu.Unlock()
			}
		}(g)
	}
	wg.Wait()
	if bad > 0 {
		return 1
	}
	return 0
}

func raceBodyC19() int {
	// a tree with wide and deep parts, shared by all goroutines
	code := []int{3}
	for i := 0; i < 3; i++ {
		code = append(code, 40)
		for j := 0; j < 40; j++ {
			code = append(code, 2, 0, 0)
		}
	}
	root, nodes := buildTree(code)
	var wantPre, wantPost []*newick.Node
	refPre(root, &wantPre)
	refPost(root, &wantPost)
	before := snapTree(nodes)
	rc := runParallel(8, func(g int) string {
		for rep := 0; rep < 30; rep++ {
			want, it := wantPre, root.PreOrder()
			if (g+rep)%2 == 1 {
				want, it = wantPost, root.PostOrder()
			}
			i := 0
			for n := range it {
				if i >= len(want) || n != want[i] {
					return fmt.Sprintf("concurrent traversal %d deviates from the recursive order at position %d", (g+rep)%2, i)
				}
				i++
			}
			if i != len(want) {
				return fmt.Sprintf("concurrent traversal yielded %d nodes, want %d", i, len(want))
			}
		}
		return ""
	})
	if !sameSnap(before, snapTree(nodes)) {
		fmt.Println("the tree was modified by concurrent traversals")
		return 1
	}
	return rc
}

func raceBodySequtil() int {
	src := longSeq(3000)
	for i := range src {
		if i%7 == 0 {
			src[i] += 'a' - 'A'
		}
	}
	orig := bytes.Clone(src)
	wantRC, _ := ref.RevComp(src)
	wantPack, _ := ref.Pack2Bit(src)
	wantTr, _ := ref.Translate(src)
	rc := runParallel(8, func(g int) string {
		for rep := 0; rep < 20; rep++ {
			if got := sequtil.ReverseComplement(nil, src); !bytes.Equal(got, wantRC) {
				return "concurrent ReverseComplement on a shared src gives a wrong result"
			}
			if got := sequtil.ReverseComplementString(string(orig)); got != string(wantRC) {
				return "concurrent ReverseComplementString gives a wrong result"
			}
			if got := sequtil.DNATo2Bit(nil, src); !bytes.Equal(got, wantPack) {
				return "concurrent DNATo2Bit on a shared src gives a wrong result"
			}
			if got := sequtil.DNAFrom2Bit(nil, wantPack); !bytes.Equal(got, bytes.ToUpper(orig)) {
				return "concurrent DNAFrom2Bit gives a wrong result"
			}
			if got := sequtil.Translate(nil, src); !bytes.Equal(got, wantTr) {
				return "concurrent Translate on a shared src gives a wrong result"
			}
			fr := sequtil.TranslateReadingFrames(src[:300])
			w0, _ := ref.Translate(orig[:300])
			if !bytes.Equal(fr[0], w0) {
				return "concurrent TranslateReadingFrames gives a wrong result"
			}
			i := 0
			for km := range sequtil.CanonicalSubsequences(src[:500], 21) {
				w := orig[i : i+21]
				if r, _ := ref.RevComp(w); bytes.Compare(r, w) < 0 {
					w = r
				}
				if !bytes.Equal(km, w) {
					return fmt.Sprintf("concurrent CanonicalSubsequences item %d is wrong", i)
				}
				i++
			}
			sequtil.AminoName("ACDEFGHIKLMNPQRSTVWY*"[rep])
		}
		return ""
	})
	if !bytes.Equal(src, orig) {
		fmt.Println("the shared src was modified")
		return 1
	}
	return rc
}

func raceBodyC15() int {
	t := trie.New()
	m := ref.TrieSet{}
	words := []string{"a", "ab", "abc", "b", "ba", "bb", "aab", "abab", "bbbbbbbbb", "ca"}
	for _, w := range words {
		t.Add([]byte(w))
		m.Add(w)
	}
	want := m.Members()
	return runParallel(8, func(g int) string {
		for rep := 0; rep < 200; rep++ {
			for _, w := range append(words, "c", "abd", "") {
				if t.Has([]byte(w)) != m.Has(w) {
					return fmt.Sprintf("concurrent Has(%q) is wrong", w)
				}
			}
			var got []string
			t.ForEach(func(b []byte) bool { got = append(got, string(b)); return true })
			slices.Sort(got)
			if !slices.Equal(got, want) {
				return fmt.Sprintf("concurrent ForEach reports %q, want %q", got, want)
			}
			if rep%20 == 0 {
				if _, err := t.MarshalJSON(); err != nil {
					return "concurrent MarshalJSON failed: " + err.Error()
				}
			}
		}
		return ""
	})
}

func raceBodyAlign() int {
	m := symMatrix(2, -1, -1, 0)
	a, b := expandSeq("ABCAB*12"), expandSeq("ABCCB*11+A")
	a0, b0 := bytes.Clone(a), bytes.Clone(b)
	wantG := ref.GotohGlobal(a, b, ref.Mat(m))
	wantL := ref.GotohLocal(a, b, ref.Mat(m))
	rc := runParallel(8, func(g int) string {
		for rep := 0; rep < 30; rep++ {
			if _, sc := align.Global(a, b, m); sc != wantG {
				return fmt.Sprintf("concurrent Global on shared inputs returns %v, want %v", sc, wantG)
			}
			if _, _, _, sc := align.Local(a, b, m); sc != wantL {
				return fmt.Sprintf("concurrent Local on shared inputs returns %v, want %v", sc, wantL)
			}
			if _, sc := align.Global([]byte("kitten"), []byte("sitting"), align.Levenshtein); sc != -3 {
				return "concurrent Global with Levenshtein is wrong"
			}
			if _, sc := align.Global([]byte("HEAGAWGHEE"), []byte("PAWHEAE"), align.BLOSUM62); sc != ref.GotohGlobal([]byte("HEAGAWGHEE"), []byte("PAWHEAE"), ref.Mat(align.BLOSUM62)) {
				return "concurrent Global with BLOSUM62 is wrong"
			}
		}
		return ""
	})
	if !bytes.Equal(a, a0) || !bytes.Equal(b, b0) {
		fmt.Println("the shared sequences were modified")
		return 1
	}
	return rc
}

// raceBodyAlignAffine: matrices with a non-zero gap-open score. The oracle is differential: what each call
// returned when it ran alone, before the goroutines started (the library's own answer, whatever it is),
// must be what it returns next to 7 other callers working on different inputs of different sizes.
func raceBodyAlignAffine() int {
	ms := []align.SubstitutionMatrix{symMatrix(2, -1, -1, -1), symMatrix(1, -1, 0, -2), symMatrix(3, -2, -1, -0.5)}
	type job struct {
		a, b []byte
		m    align.SubstitutionMatrix
	}
	var jobs []job
	for i, pat := range []string{"ABCAB*12", "ABCCB*11+A", "AB*3", "CBA*20", "A", "", "ABBA*7+C", "CCAB*15"} {
		jobs = append(jobs, job{expandSeq(pat), expandSeq([]string{"ABCCB*11+A", "BAC*9", "ABCAB*12", "B", "CABAC*5", "AB*3", "", "ABBA*7+C"}[i]), ms[i%len(ms)]})
	}
	type res struct {
		gs, ls   string
		gsc, lsc float64
		lai, lbi int
	}
	run := func(j job) res {
		var r res
		var g, l []align.Step
		g, r.gsc = align.Global(j.a, j.b, j.m)
		l, r.lai, r.lbi, r.lsc = align.Local(j.a, j.b, j.m)
		r.gs, r.ls = fmt.Sprint(g), fmt.Sprint(l)
		return r
	}
	alone := make([]res, len(jobs))
	for i, j := range jobs {
		alone[i] = run(j)
	}
	return runParallel(8, func(g int) string {
		for rep := 0; rep < 40; rep++ {
			i := (g + rep) % len(jobs)
			if got := run(jobs[i]); got != alone[i] {
				return fmt.Sprintf("Global/Local(%q,%q) with gap-open %v next to other callers: %+v, alone: %+v", jobs[i].a, jobs[i].b, jobs[i].m[[2]byte{align.Gap, align.Gap}], got, alone[i])
			}
		}
		return ""
	})
}

func raceBodyC17() int {
	seqs := [][]byte{longSeq(400), []byte("acgtnACGTTTGACCA"), longSeq(77)}
	want := ref.BottomN(ref.CanonicalKmerHashes(5, mash.Seed, seqs...), 50)
	return runParallel(8, func(g int) string {
		for rep := 0; rep < 30; rep++ {
			mh := mash.Sequences(50, 5, seqs...)
			if !slices.Equal(mh.View(), want) {
				return "concurrent Sequences on shared inputs gives a wrong sketch"
			}
			mh2 := mash.Sequences(50, 5, seqs[0])
			d := mash.Distance(mh, mh2, 5)
			if !(d >= 0 && d <= 1) {
				return "concurrent Distance out of range"
			}
		}
		return ""
	})
}

func raceBodyC20() int {
	m := align.SubstitutionMatrix{{'A', 'B'}: 1, {'B', 'A'}: 1, {'A', align.Gap}: -2, {align.Gap, 'A'}: -2, {'C', 'C'}: 0.5}
	wantGo := m.GoString()
	wantSym := m.Symmetrical()
	return runParallel(8, func(g int) string {
		for rep := 0; rep < 100; rep++ {
			if m.GoString() != wantGo {
				return "concurrent GoString differs"
			}
			s := m.Symmetrical()
			if len(s) != len(wantSym) {
				return "concurrent Symmetrical differs"
			}
			s[[2]byte{'Q', byte(g)}] = 1 // private copy: writing must be harmless
			if m.Get('A', 'B') != 1 {
				return "concurrent Get differs"
			}
		}
		return ""
	})
}
