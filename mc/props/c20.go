package props

import (
	"bytes"
	"fmt"
	"go/ast"
	"go/constant"
	"go/format"
	"go/parser"
	"go/token"
	"io"
	"sort"
	"strings"

	"github.com/fluhus/biostuff/align"
	"github.com/fluhus/biostuff/formats/smtext"

	"verif/mc/engine/core"
	"verif/mc/engine/enum"
)

func init() { register("C20", "exploration", runC20) }

var ncbiLabels = []string{"A", "C", "z", "*", "'", "\\", "\x80"}
var ncbiScores = []string{"0", "1", "-2", "3.5", "1e2", "-0.25"}
var ncbiScoreVals = []float64{0, 1, -2, 3.5, 100, -0.25}

// ncbiTable is a ground-truth table plus a layout.
type ncbiTable struct {
	Rows  []core.S `json:"row_labels"`
	Cols  []core.S `json:"col_labels"`
	Shift int      `json:"score_shift"` // score of cell (i,j) = menu[(i*ncols+j+shift) % 6]
	Dev   []string `json:"layout_deviations,omitempty"`
	Corr  string   `json:"corruption,omitempty"`
}

func (t ncbiTable) scoreIdx(i, j int) int { return (i*len(t.Cols) + j + t.Shift) % len(ncbiScores) }

func labelByte(l core.S) byte {
	if l == "*" {
		return align.Gap
	}
	return l[0]
}

func (t ncbiTable) truth() map[[2]byte]float64 {
	m := map[[2]byte]float64{}
	for i, r := range t.Rows {
		for j, c := range t.Cols {
			m[[2]byte{labelByte(r), labelByte(c)}] = ncbiScoreVals[t.scoreIdx(i, j)]
		}
	}
	return m
}

// tokens returns the canonical token lines: line 0 = column labels, line i+1 = row label + scores.
func (t ncbiTable) tokens() [][]string {
	lines := [][]string{{}}
	for _, c := range t.Cols {
		lines[0] = append(lines[0], string(c))
	}
	for i, r := range t.Rows {
		l := []string{string(r)}
		for j := range t.Cols {
			l = append(l, ncbiScores[t.scoreIdx(i, j)])
		}
		lines = append(lines, l)
	}
	return lines
}

// render produces the text. Deviations are strings of the form
// "sep:<line>:<gap>:<kind>", "lead:<line>:<kind>", "trail:<line>:<kind>", "before:<line>:<kind>", "after:<kind>", "crlf", "nofinal".
func (t ncbiTable) render(lines [][]string) string {
	seps := map[string]string{"t": "\t", "3": "   ", "st": " \t"}
	blanks := map[string]string{"s": " ", "t": "\t"}
	extra := map[string]string{"c": "# a comment", "e": ""}
	sepAt := map[[2]int]string{}
	lead, trail, before := map[int]string{}, map[int]string{}, map[int][]string{}
	var after []string
	crlf, nofinal := false, false
	for _, d := range t.Dev {
		p := strings.Split(d, ":")
		var a, b int
		switch p[0] {
		case "sep":
			fmt.Sscan(p[1], &a)
			fmt.Sscan(p[2], &b)
			sepAt[[2]int{a, b}] = seps[p[3]]
		case "lead":
			fmt.Sscan(p[1], &a)
			lead[a] = blanks[p[2]]
		case "trail":
			fmt.Sscan(p[1], &a)
			trail[a] = blanks[p[2]]
		case "before":
			fmt.Sscan(p[1], &a)
			before[a] = append(before[a], extra[p[2]])
		case "after":
			after = append(after, extra[p[1]])
		case "crlf":
			crlf = true
		case "nofinal":
			nofinal = true
		}
	}
	var out []string
	for li, toks := range lines {
		out = append(out, before[li]...)
		var sb strings.Builder
		sb.WriteString(lead[li])
		if li == 0 {
			sb.WriteString("  ") // NCBI tables indent the header line
		}
		for ti, tok := range toks {
			if ti > 0 {
				if s, ok := sepAt[[2]int{li, ti - 1}]; ok {
					sb.WriteString(s)
				} else {
					sb.WriteString(" ")
				}
			}
			sb.WriteString(tok)
		}
		sb.WriteString(trail[li])
		out = append(out, sb.String())
	}
	out = append(out, after...)
	nl := "\n"
	if crlf {
		nl = "\r\n"
	}
	text := strings.Join(out, nl)
	if !nofinal {
		text += nl
	}
	return text
}

func (t ncbiTable) deviationSites() []string {
	var sites []string
	lines := t.tokens()
	for li, toks := range lines {
		for g := 0; g+1 < len(toks); g++ {
			for _, k := range []string{"t", "3", "st"} {
				sites = append(sites, fmt.Sprintf("sep:%d:%d:%s", li, g, k))
			}
		}
		for _, k := range []string{"s", "t"} {
			sites = append(sites, fmt.Sprintf("lead:%d:%s", li, k), fmt.Sprintf("trail:%d:%s", li, k))
		}
		for _, k := range []string{"c", "e"} {
			sites = append(sites, fmt.Sprintf("before:%d:%s", li, k))
		}
	}
	sites = append(sites, "after:c", "after:e", "crlf", "nofinal")
	return sites
}

func conflicting(a, b string) bool {
	// two deviations on the same site (same prefix up to the kind) are not combined
	pa, pb := a[:strings.LastIndex(a+":", ":")], b[:strings.LastIndex(b+":", ":")]
	return pa == pb && strings.Contains(a, ":")
}

func sameMatrix(got align.SubstitutionMatrix, want map[[2]byte]float64) string {
	if len(got) != len(want) {
		return fmt.Sprintf("%d entries, want %d", len(got), len(want))
	}
	for k, v := range want {
		g, ok := got[k]
		if !ok || g != v {
			return fmt.Sprintf("entry (%q,%q) = %v (present %v), want %v", k[0], k[1], g, ok, v)
		}
	}
	return ""
}

func labelLists(maxLen int) [][]core.S { return labelListsFrom(ncbiLabels, maxLen) }

func labelListsFrom(labels []string, maxLen int) [][]core.S {
	var out [][]core.S
	var rec func(cur []core.S, used int)
	rec = func(cur []core.S, used int) {
		if len(cur) > 0 {
			out = append(out, append([]core.S(nil), cur...))
		}
		if len(cur) == maxLen {
			return
		}
		for i, l := range labels {
			if used>>i&1 == 1 {
				continue
			}
			rec(append(cur, core.S(l)), used|1<<i)
		}
	}
	rec(nil, 0)
	return out
}

// scoreSpellings: texts that are not a (finite) number, whatever a lenient or hand-rolled parser makes of
// them. (NaN, Inf and 1_0 are left out: strconv.ParseFloat accepts them - the last one as Go literal syntax -
// and the statement does not say which grammar of numbers it means beyond that.)
var scoreSpellings = map[string]string{"minus": "-", "plus": "+", "dot": ".", "minusdot": "-.", "e5": "e5", "1e": "1e", "1e+": "1e+", "0x": "0x", "0x1": "0x1",
	"arabic": "\u0661", "fullwidth": "\uff11", "plusminus": "+-1", "trailminus": "1-", "twodots": "1.2.3", "percent": "5%", "paren": "(1)", "nul": "1\x00", "f-suffix": "2f", "d-suffix": "1d", "quote": "'1'", "dquote": "\"1\"", "slash": "1/2", "h": "0h"}

type c20Sym struct {
	Cells []int `json:"cells"` // 9 cells over {A,B,Gap}^2 in row-major order: 0 absent, 1 or 2 = score
}

var symLetters = []byte{'A', 'B', align.Gap}

func (c c20Sym) matrix() align.SubstitutionMatrix {
	m := align.SubstitutionMatrix{}
	for i, v := range c.Cells {
		if v != 0 {
			m[[2]byte{symLetters[i/3], symLetters[i%3]}] = float64(v)
		}
	}
	return m
}

type c20Go struct {
	Keys   [][2]int `json:"keys"`
	Scores []string `json:"scores"`
}

func (c c20Go) matrix() align.SubstitutionMatrix {
	m := align.SubstitutionMatrix{}
	for i, k := range c.Keys {
		m[[2]byte{byte(k[0]), byte(k[1])}] = parseF(c.Scores[i])
	}
	return m
}

// evalGoString parses the GoString output the way a Go compiler would and returns the entries
// in source order.
func evalGoString(src string) (keys [][2]byte, vals []float64, err error) {
	expr, err := parser.ParseExpr(src)
	if err != nil {
		return nil, nil, fmt.Errorf("does not parse as a Go expression: %v", err)
	}
	cl, ok := expr.(*ast.CompositeLit)
	if !ok {
		return nil, nil, fmt.Errorf("not a composite literal")
	}
	if id, ok := cl.Type.(*ast.Ident); !ok || id.Name != "SubstitutionMatrix" {
		return nil, nil, fmt.Errorf("literal type is not SubstitutionMatrix")
	}
	evalByte := func(e ast.Expr) (byte, error) {
		switch x := e.(type) {
		case *ast.Ident:
			if x.Name == "Gap" {
				return 255, nil
			}
			return 0, fmt.Errorf("unknown identifier %s", x.Name)
		case *ast.BasicLit:
			v := constant.MakeFromLiteral(x.Value, x.Kind, 0)
			i, ok := constant.Int64Val(constant.ToInt(v))
			if !ok || i < 0 || i > 255 || v.Kind() == constant.Unknown {
				return 0, fmt.Errorf("key element %s is not a byte constant", x.Value)
			}
			return byte(i), nil
		}
		return 0, fmt.Errorf("unexpected key element %T", e)
	}
	var evalNum func(e ast.Expr) (float64, error)
	evalNum = func(e ast.Expr) (float64, error) {
		switch x := e.(type) {
		case *ast.BasicLit:
			v := constant.MakeFromLiteral(x.Value, x.Kind, 0)
			if v.Kind() != constant.Int && v.Kind() != constant.Float {
				return 0, fmt.Errorf("value %s is not numeric", x.Value)
			}
			f, _ := constant.Float64Val(constant.ToFloat(v))
			return f, nil
		case *ast.UnaryExpr:
			f, err := evalNum(x.X)
			if x.Op == token.SUB {
				return -f, err
			}
			if x.Op == token.ADD {
				return f, err
			}
		}
		return 0, fmt.Errorf("unexpected value expression %T", e)
	}
	for _, el := range cl.Elts {
		kv, ok := el.(*ast.KeyValueExpr)
		if !ok {
			return nil, nil, fmt.Errorf("element is not key:value")
		}
		kl, ok := kv.Key.(*ast.CompositeLit)
		if !ok || len(kl.Elts) != 2 {
			return nil, nil, fmt.Errorf("key is not a 2-element literal")
		}
		a, err := evalByte(kl.Elts[0])
		if err != nil {
			return nil, nil, err
		}
		b, err := evalByte(kl.Elts[1])
		if err != nil {
			return nil, nil, err
		}
		v, err := evalNum(kv.Value)
		if err != nil {
			return nil, nil, err
		}
		keys = append(keys, [2]byte{a, b})
		vals = append(vals, v)
	}
	return keys, vals, nil
}

func checkGoString(m align.SubstitutionMatrix) string {
	before := len(m)
	var src string
	if p := catch(func() { src = m.GoString() }); p != "" {
		return "GoString panicked: " + p
	}
	if fs := fmt.Sprintf("%#v", m); fs != src {
		return fmt.Sprintf("%%#v gives %q but GoString %q", fs, src)
	}
	keys, vals, err := evalGoString(src)
	if err != nil {
		return fmt.Sprintf("GoString output %q: %v", trunc(src, 300), err)
	}
	if len(keys) != len(m) || before != len(m) {
		return fmt.Sprintf("GoString lists %d pairs, the matrix has %d: %q", len(keys), len(m), trunc(src, 300))
	}
	for i, k := range keys {
		want, ok := m[k]
		if !ok {
			return fmt.Sprintf("GoString lists pair (%d,%d) which is not in the matrix", k[0], k[1])
		}
		if vals[i] != want {
			return fmt.Sprintf("GoString gives pair (%d,%d) the score %v, the matrix has %v", k[0], k[1], vals[i], want)
		}
		if i > 0 && bytes.Compare(keys[i-1][:], k[:]) >= 0 {
			return fmt.Sprintf("GoString keys not in strictly ascending order at entry %d: (%d,%d) after (%d,%d)", i, k[0], k[1], keys[i-1][0], keys[i-1][1])
		}
	}
	// the genncbi composition must be formattable Go source
	full := fmt.Sprintf("package align\n\nfunc init() {\n%s = %#v}", "X", m)
	if _, err := format.Source([]byte(full)); err != nil {
		return fmt.Sprintf("the source generated the genncbi way does not pass go/format: %v: %q", err, trunc(full, 300))
	}
	return ""
}

// chunkReader delivers at most n bytes per Read.
type chunkReader struct {
	data []byte
	n    int
}

func (c *chunkReader) Read(p []byte) (int, error) {
	if len(c.data) == 0 {
		return 0, io.EOF
	}
	k := min(len(p), c.n, len(c.data))
	copy(p, c.data[:k])
	c.data = c.data[k:]
	return k, nil
}

func runC20(r *core.Run) {
	firstCallClause(r, "smtext.", "align.Symmetrical", "align.GoString")
	racePass(r, "race-C20", "GoString, Symmetrical and Get on one shared matrix")

	lists := labelLists(3)
	r.Bound("tables", fmt.Sprintf("row and column label lists: every ordered list of 1..3 distinct labels from %q (%d lists each, so every order and rectangular shapes), scores cycling through %v with shift 0%s", ncbiLabels, len(lists), ncbiScores, core.Pick(r, "", "..5")))
	readNCBI := func(text string) (align.SubstitutionMatrix, error, string) {
		var m align.SubstitutionMatrix
		var err error
		p := catch(func() { m, err = smtext.ReadNCBI(strings.NewReader(text)) })
		return m, err, p
	}
	core.Clause(r, "readncbi-tables", core.Opts{Rule: "every (row list, column list) pair in canonical layout: the returned matrix equals the ground-truth map the text was generated from ('*' -> gap); non-trivial = at least 2 cells"},
		func(emit func(ncbiTable) bool) {
			shifts := core.Pick(r, 1, 6)
			for _, rows := range lists {
				for _, cols := range lists {
					for s := 0; s < shifts; s++ {
						if !emit(ncbiTable{Rows: rows, Cols: cols, Shift: s}) {
							return
						}
					}
				}
			}
		},
		func(t ncbiTable) core.Outcome {
			text := t.render(t.tokens())
			m, err, p := readNCBI(text)
			if p != "" {
				return core.Failf("ReadNCBI panicked on %q: %s", text, p)
			}
			if err != nil {
				return core.Failf("ReadNCBI(%q) failed: %v", text, err)
			}
			if f := sameMatrix(m, t.truth()); f != "" {
				return core.Failf("ReadNCBI(%q): %s", text, f)
			}
			return core.Outcome{Class: fmt.Sprintf("%dx%d", len(t.Rows), len(t.Cols)), Nontrivial: len(t.Rows)*len(t.Cols) >= 2}
		})

	layoutTables := []ncbiTable{
		{Rows: core.SS("A", "C"), Cols: core.SS("A", "C"), Shift: 1},
		{Rows: core.SS("*", "A", "z"), Cols: core.SS("C", "*"), Shift: 2},
		{Rows: core.SS("'"), Cols: core.SS("\\", "A", "\x80"), Shift: 3},
		{Rows: core.SS("C", "A"), Cols: core.SS("z"), Shift: 0},
	}
	dev := core.Pick(r, 3, 4)
	r.Bound("layouts", fmt.Sprintf("%d tables x every combination of <= %d layout deviations, each at every position: separator of any gap in {TAB, 3 spaces, space+TAB}, leading/trailing blank on any line, comment or empty line before any line and after the last, CRLF, no final newline", len(layoutTables), dev))
	core.Clause(r, "readncbi-layouts", core.Opts{Rule: "deviation-bounded layouts of the same table all decode to the ground truth; non-trivial = at least one deviation"},
		func(emit func(ncbiTable) bool) {
			for _, base := range layoutTables {
				sites := base.deviationSites()
				ok := enum.Subsets(len(sites), dev, func(idx []int) bool {
					var d []string
					for _, i := range idx {
						d = append(d, sites[i])
					}
					for i := 0; i < len(d); i++ {
						for j := i + 1; j < len(d); j++ {
							if conflicting(d[i], d[j]) {
								return true
							}
						}
					}
					t := base
					t.Dev = d
					return emit(t)
				})
				if !ok {
					return
				}
			}
		},
		func(t ncbiTable) core.Outcome {
			text := t.render(t.tokens())
			m, err, p := readNCBI(text)
			if p != "" {
				return core.Failf("ReadNCBI panicked on %q: %s", text, p)
			}
			if err != nil {
				return core.Failf("ReadNCBI(%q) (layout %v) failed: %v", text, t.Dev, err)
			}
			if f := sameMatrix(m, t.truth()); f != "" {
				return core.Failf("ReadNCBI(%q) (layout %v): %s", text, t.Dev, f)
			}
			return core.Outcome{Class: fmt.Sprint("deviations=", len(t.Dev)), Nontrivial: len(t.Dev) > 0}
		})

	type longLine struct {
		Len  int    `json:"line_len"`
		Kind string `json:"kind"`
	}
	r.Bound("long-lines", "the 2x2 table with ONE line of every length 4090..4100, 8190..8194, 65530..65540, 131072 and 1 MiB: a comment line, a row with that much blank space after / between / before its tokens (spaces and tabs), a header with it before its labels")
	core.Clause(r, "readncbi-long-lines", core.Opts{Rule: "whatever the AMOUNT of whitespace and comment: one line longer than every internal buffer (4 KiB, 64 KiB) changes nothing about the decoded pairs; non-trivial = all"},
		func(emit func(longLine) bool) {
			var ls []int
			for _, c := range []int{4095, 8192, 65535} {
				for l := c - 5; l <= c+5; l++ {
					ls = append(ls, l)
				}
			}
			ls = append(ls, 131072, 1<<20)
			for _, l := range ls {
				for _, k := range []string{"comment", "comment-with-row-like-tail", "row-trailing-spaces", "row-trailing-tabs", "row-between", "row-leading", "header-leading", "header-trailing"} {
					if !emit(longLine{l, k}) {
						return
					}
				}
			}
		},
		func(c longLine) core.Outcome {
			pad := func(n int, ch string) string { return strings.Repeat(ch, max(n, 0)) }
			var text string
			switch c.Kind {
			case "comment":
				text = "#" + pad(c.Len-1, "-") + "\n  A B\nA 1 2\nB 3 4\n"
			case "comment-with-row-like-tail":
				text = "  A B\nA 1 2\n#" + pad(c.Len-7, "-") + " B 7 8\nB 3 4\n"
			case "row-trailing-spaces":
				text = "  A B\nA 1 2" + pad(c.Len-5, " ") + "\nB 3 4\n"
			case "row-trailing-tabs":
				text = "  A B\nA 1 2" + pad(c.Len-5, "\t") + "\nB 3 4\n"
			case "row-between":
				text = "  A B\nA 1" + pad(c.Len-4, " ") + "2\nB 3 4\n"
			case "row-leading":
				text = "  A B\n" + pad(c.Len-5, " ") + "A 1 2\nB 3 4\n"
			case "header-leading":
				text = pad(c.Len-3, " ") + "A B\nA 1 2\nB 3 4\n"
			case "header-trailing":
				text = "  A B" + pad(c.Len-5, "\t") + "\nA 1 2\nB 3 4\n"
			}
			m, err, p := readNCBI(text)
			if p != "" {
				return core.Failf("ReadNCBI panicked on a table with a %s line of %d bytes: %s", c.Kind, c.Len, p)
			}
			if err != nil {
				return core.Failf("ReadNCBI on a table with a %s line of %d bytes failed: %v", c.Kind, c.Len, err)
			}
			want := map[[2]byte]float64{{'A', 'A'}: 1, {'A', 'B'}: 2, {'B', 'A'}: 3, {'B', 'B'}: 4}
			if f := sameMatrix(m, want); f != "" {
				return core.Failf("ReadNCBI on a table with a %s line of %d bytes: %s", c.Kind, c.Len, f)
			}
			return core.Outcome{Class: c.Kind, Nontrivial: true}
		})

	core.Clause(r, "readncbi-hash-label", core.Opts{Rule: "'#' is a letter of the alphabet like any other as long as it is not the first byte of its line (a comment starts in column 0): every ordered list of 1..3 distinct row labels and column labels from {#, A, *} that uses '#', the header indented as usual and every row labelled '#' indented by a blank or a tab (also: all rows indented): the matrix equals the ground truth; non-trivial = all"},
		func(emit func(ncbiTable) bool) {
			var hl [][]core.S
			for _, l := range labelListsFrom([]string{"#", "A", "*"}, 3) {
				hl = append(hl, l)
			}
			for _, rows := range hl {
				for _, cols := range hl {
					uses := false
					for _, x := range append(append([]core.S{}, rows...), cols...) {
						uses = uses || x == "#"
					}
					if !uses {
						continue
					}
					for _, blank := range []string{"s", "t"} {
						for _, all := range []bool{false, true} {
							t := ncbiTable{Rows: rows, Cols: cols}
							for i, rl := range rows {
								if rl == "#" || all {
									t.Dev = append(t.Dev, fmt.Sprintf("lead:%d:%s", i+1, blank))
								}
							}
							if !emit(t) {
								return
							}
						}
					}
				}
			}
		},
		func(t ncbiTable) core.Outcome {
			text := t.render(t.tokens())
			m, err, p := readNCBI(text)
			if p != "" {
				return core.Failf("ReadNCBI panicked on %q: %s", text, p)
			}
			if err != nil {
				return core.Failf("ReadNCBI(%q) failed: %v", text, err)
			}
			if f := sameMatrix(m, t.truth()); f != "" {
				return core.Failf("ReadNCBI(%q): %s", text, f)
			}
			return core.Outcome{Class: "ok", Nontrivial: true}
		})

	core.Clause(r, "readncbi-corruptions", core.Opts{Rule: "every single-token corruption of the layout tables (with 0 or 1 layout deviation from {crlf, nofinal, a comment line}): a row value removed, an extra row value, one surplus token (#, #7, #x, ;, //, //x, *, !, %, a label, a number, 0.0, -) inserted at every place among the values of every row, a header column removed/added, each score replaced by x / 1..2 / --1 / 1,5 and by 23 more texts that are not a number (a bare '-' or '+', '.', '-.', e5, 1e, 1e+, 0x, 0x1, non-ASCII digits, +-1, 1-, 1.2.3, 5%, (1), 1 NUL, 2f, 1d, quoted, 1/2, 0h), each label (header and row) replaced by AB: the result is (nil, error); non-trivial = all"},
		func(emit func(ncbiTable) bool) {
			for _, base := range layoutTables {
				lines := base.tokens()
				for _, d := range [][]string{nil, {"crlf"}, {"nofinal"}, {"before:1:c"}} {
					t := base
					t.Dev = d
					for li, toks := range lines {
						for ti := range toks {
							kinds := []string{}
							if li == 0 || ti == 0 {
								kinds = append(kinds, "label-AB")
							} else {
								kinds = append(kinds, "score-x", "score-1..2", "score---1", "score-1,5")
								for name := range scoreSpellings {
									kinds = append(kinds, "scoretext="+name)
								}
							}
							for _, k := range kinds {
								t.Corr = fmt.Sprintf("%s:%d:%d", k, li, ti)
								if !emit(t) {
									return
								}
							}
						}
						if li > 0 {
							t.Corr = fmt.Sprintf("row-value-removed:%d:%d", li, len(toks)-1)
							emit(t)
							t.Corr = fmt.Sprintf("row-value-added:%d:0", li)
							emit(t)
							// one surplus token of any kind, at any place among the values: whatever a lenient reader might
							// take for a trailing comment, a terminator or an annotation is a surplus value here
							for tok := range surplusTokens {
								for at := 1; at <= len(toks); at++ {
									t.Corr = fmt.Sprintf("row-token-inserted=%s:%d:%d", tok, li, at)
									if !emit(t) {
										return
									}
								}
							}
						} else {
							if len(toks) >= 2 {
								t.Corr = "header-column-removed:0:0"
								emit(t)
							}
							t.Corr = "header-column-added:0:0"
							emit(t)
						}
					}
				}
			}
		},
		func(t ncbiTable) core.Outcome {
			lines := t.tokens()
			var kind string
			var li, ti int
			p := strings.Split(t.Corr, ":")
			kind = p[0]
			fmt.Sscan(p[1], &li)
			fmt.Sscan(p[2], &ti)
			l := append([]string(nil), lines[li]...)
			if name, ok := strings.CutPrefix(kind, "scoretext="); ok {
				l[ti] = scoreSpellings[name]
			}
			if name, ok := strings.CutPrefix(kind, "row-token-inserted="); ok {
				l = append(append(append([]string(nil), l[:ti]...), surplusTokens[name]), l[ti:]...)
			}
			switch kind {
			case "label-AB":
				l[ti] = "AB"
			case "score-x":
				l[ti] = "x"
			case "score-1..2":
				l[ti] = "1..2"
			case "score---1":
				l[ti] = "--1"
			case "score-1,5":
				l[ti] = "1,5"
			case "row-value-removed":
				l = l[:len(l)-1]
			case "row-value-added":
				l = append(l, "7")
			case "header-column-removed":
				l = l[1:]
			case "header-column-added":
				l = append(l, "Q")
			}
			lines[li] = l
			text := t.render(lines)
			m, err, pn := readNCBI(text)
			if pn != "" {
				return core.Failf("ReadNCBI panicked on %q: %s", text, pn)
			}
			if err == nil || m != nil {
				return core.Failf("ReadNCBI(%q) (corruption %s) returned matrix %v, error %v; want (nil, error)", text, t.Corr, m, err)
			}
			return core.Outcome{Class: kind, Nontrivial: true}
		})

	type labelCase struct {
		Where int    `json:"label_position"` // 0,1: header columns; 2,3: row labels
		Token core.S `json:"token"`
		Glue  string `json:"glued,omitempty"` // "": the token replaces the label; "before"/"after": it is glued to the label
	}
	r.Bound("multichar-labels", "the table ' A B / A 1 2 / B 3 4' (A, B also as the bytes 0xC3, 0xA9; the header indented and starting in column 0, i.e. its first label being the first bytes of the stream) with one label replaced by: every 2-byte token free of whitespace (65 536 minus those), the UTF-8 encoding of every code point U+0080..U+FFFF"+core.Pick(r, "", " and U+10000..U+10FFFF")+" alone (from U+0800), glued in front of the original label and glued behind it (byte order marks, zero-width and other invisible characters are among them); row labels, and a header label in column 0, never start with '#' (that would be a comment line)")
	core.Clause(r, "readncbi-multichar-labels", core.Opts{Rule: "a label token of more than one BYTE is a multi-character label whatever its bytes are and wherever it stands (one rune in UTF-8, two letters, a letter and '*', an invisible character glued to a letter, at the very beginning of the input): (nil, error), never a matrix; non-trivial = all"},
		func(emit func(labelCase) bool) {
			ws := func(b int) bool {
				return b == '\t' || b == '\n' || b == '\f' || b == '\r' || b == ' '
			}
			for where := 0; where < 4; where++ {
				for a := 0; a < 256; a++ {
					if ws(a) {
						continue
					}
					for b := 0; b < 256; b++ {
						if !ws(b) && !emit(labelCase{where, core.S([]byte{byte(a), byte(b)}), ""}) {
							return
						}
					}
				}
				hi := rune(0xFFFF)
				if r.Thorough() {
					hi = 0x10FFFF
				}
				if !enum.Runes(0x80, hi, func(cp rune) bool {
					if cp >= 0x800 && !emit(labelCase{where, core.S(string(cp)), ""}) {
						return false
					}
					return emit(labelCase{where, core.S(string(cp)), "before"}) && emit(labelCase{where, core.S(string(cp)), "after"})
				}) {
					return
				}
			}
		},
		func(c labelCase) core.Outcome {
			evals := 0
			for _, labels := range [][2]string{{"A", "B"}, {"\xc3", "\xa9"}} {
				for _, indent := range []string{" ", ""} {
					tok := [4]string{labels[0], labels[1], labels[0], labels[1]}
					switch c.Glue {
					case "before":
						tok[c.Where] = string(c.Token) + tok[c.Where]
					case "after":
						tok[c.Where] = tok[c.Where] + string(c.Token)
					default:
						tok[c.Where] = string(c.Token)
					}
					if tok[c.Where][0] == '#' && (c.Where >= 2 || (c.Where == 0 && indent == "")) {
						continue
					}
					text := indent + tok[0] + " " + tok[1] + "\n" + tok[2] + " 1 2\n" + tok[3] + " 3 4\n"
					m, err, pn := readNCBI(text)
					evals++
					if pn != "" {
						return core.Failf("ReadNCBI panicked on %q: %s", text, pn)
					}
					if err == nil || m != nil {
						return core.Failf("ReadNCBI(%q) with the %d-byte label %q returned matrix %v, error %v; want (nil, error)", text, len(tok[c.Where]), tok[c.Where], m, err)
					}
				}
			}
			if evals == 0 {
				return core.Outcome{Skip: true}
			}
			return core.Outcome{Class: fmt.Sprint("token bytes=", len(c.Token), " where=", c.Where, " ", c.Glue), Nontrivial: true, Evals: evals}
		})

	type bigCase struct {
		N     int    `json:"labels"`
		Chunk int    `json:"read_chunk"` // 0 = whole input in one Read
		Style string `json:"style"`      // "lf" | "crlf" | "nofinal" | "wide" (3-space separators, comments between rows)
	}
	r.Bound("big-tables", "square tables over the first N of 190 labels (bytes 0x21..0xFE without '#', '*' kept as gap) for N in {1,5,24,40,64,120,190} in every delivery, and EVERY N in 2..70 delivered whole and in reads of 7 bytes (text sizes 10 bytes .. 150 KiB, i.e. below and above the 4 KiB / 64 KiB buffer sizes), delivered whole and in reads of 1, 7, 512, 4096 and 4097 bytes, in LF / CRLF / no-final-newline / wide layouts")
	core.Clause(r, "readncbi-big-tables", core.Opts{Rule: "large tables generated from a ground-truth map, every listed read size and layout; the decoded matrix must equal the ground truth pair for pair; non-trivial = all"},
		func(emit func(bigCase) bool) {
			ns := []int{1, 5, 24, 40, 64, 120, 190}
			for n := 2; n <= 70; n++ { // every alphabet size: a table or bit set sized for some number of letters is met at its edge
				if n != 5 && n != 24 && n != 40 && n != 64 {
					ns = append(ns, n)
				}
			}
			for _, n := range ns {
				for _, ch := range []int{0, 1, 7, 512, 4096, 4097} {
					if n > 1 && n < 70 && n != 5 && n != 24 && n != 40 && n != 64 && ch != 0 && ch != 7 {
						continue
					}
					for _, st := range []string{"lf", "crlf", "nofinal", "wide"} {
						if n >= 120 && ch == 1 && st != "lf" {
							continue
						}
						if !emit(bigCase{n, ch, st}) {
							return
						}
					}
				}
			}
		},
		func(c bigCase) core.Outcome {
			var labels []byte
			for b := 0x21; b <= 0xfe && len(labels) < c.N; b++ {
				if b != '#' {
					labels = append(labels, byte(b))
				}
			}
			truth := map[[2]byte]float64{}
			sep, nl := " ", "\n"
			if c.Style == "wide" {
				sep = "   "
			}
			if c.Style == "crlf" {
				nl = "\r\n"
			}
			var sb strings.Builder
			sb.WriteString("# generated table" + nl + "  ")
			for _, l := range labels {
				sb.WriteString(sep + string([]byte{l}))
			}
			sb.WriteString(nl)
			lb := func(b byte) byte {
				if b == '*' {
					return align.Gap
				}
				return b
			}
			for i, rl := range labels {
				if c.Style == "wide" && i%7 == 3 {
					sb.WriteString("# comment between rows" + nl + nl)
				}
				sb.WriteString(string([]byte{rl}))
				for j, cl := range labels {
					v := float64((i*31+j*17)%23-11) + float64((i+j)%4)*0.25
					truth[[2]byte{lb(rl), lb(cl)}] = v
					fmt.Fprintf(&sb, "%s%v", sep, v)
				}
				sb.WriteString(nl)
			}
			text := sb.String()
			if c.Style == "nofinal" {
				text = strings.TrimSuffix(text, nl)
			}
			var rd io.Reader = strings.NewReader(text)
			if c.Chunk > 0 {
				rd = &chunkReader{data: []byte(text), n: c.Chunk}
			}
			var m align.SubstitutionMatrix
			var err error
			if p := catch(func() { m, err = smtext.ReadNCBI(rd) }); p != "" {
				return core.Failf("ReadNCBI panicked on a %dx%d table (%d bytes, reads of %d): %s", c.N, c.N, len(text), c.Chunk, p)
			}
			if err != nil {
				return core.Failf("ReadNCBI failed on a well-formed %dx%d table (%d bytes, reads of %d, %s): %v", c.N, c.N, len(text), c.Chunk, c.Style, err)
			}
			if f := sameMatrix(m, truth); f != "" {
				return core.Failf("ReadNCBI on a %dx%d table (%d bytes, reads of %d bytes, %s): %s", c.N, c.N, len(text), c.Chunk, c.Style, f)
			}
			return core.Outcome{Class: fmt.Sprint("n=", c.N), Nontrivial: true}
		})

	core.Clause(r, "symmetrical", core.Opts{Rule: "all 3^9 = 19683 partial matrices over {A,B,Gap}^2 (each pair absent / 1 / 2): panics iff a pair and its mirror are both present with different scores; otherwise result == pairs + mirrors and nothing else; receiver unchanged; writes to the result do not reach the receiver; non-trivial = at least 2 pairs present"},
		func(emit func(c20Sym) bool) {
			enum.Tuples([]int{3, 3, 3, 3, 3, 3, 3, 3, 3}, func(t []int) bool { return emit(c20Sym{append([]int(nil), t...)}) })
		},
		func(c c20Sym) core.Outcome {
			m := c.matrix()
			orig := c.matrix()
			conflict := false
			want := map[[2]byte]float64{}
			for k, v := range orig {
				flip := [2]byte{k[1], k[0]}
				if v2, ok := orig[flip]; ok && v2 != v {
					conflict = true
				}
				want[k] = v
				want[flip] = v
			}
			var res align.SubstitutionMatrix
			p := catch(func() { res = m.Symmetrical() })
			if f := sameMatrix(m, orig); f != "" {
				return core.Failf("Symmetrical changed its receiver %v: %s", orig, f)
			}
			if conflict {
				if p == "" {
					return core.Failf("Symmetrical of %v did not panic although mirrored pairs carry different scores (returned %v)", orig, res)
				}
				return core.OK("panics", len(orig) >= 2)
			}
			if p != "" {
				return core.Failf("Symmetrical of %v panicked without a conflict: %s", orig, p)
			}
			if f := sameMatrix(res, want); f != "" {
				return core.Failf("Symmetrical of %v = %v: %s", orig, res, f)
			}
			for k := range res {
				res[k] = 99
			}
			res[[2]byte{'Q', 'Q'}] = 1
			if f := sameMatrix(m, orig); f != "" {
				return core.Failf("writing to the result of Symmetrical reached the receiver: %s", f)
			}
			return core.OK("mirrored", len(orig) >= 2)
		})

	type symNear struct {
		Pairs [][2]int `json:"score_index_pairs"` // for the three mirrored pairs (A,B) (A,Gap) (B,Gap): indices into the score menu, -1 = absent
	}
	nearScores := []float64{0.3, 0.1 + 0.2, 0.3 + 5e-10, 0.3 - 1e-12, 1e300, 1e300 * (1 + 1e-15), -0.0, 5e-324}
	core.Clause(r, "symmetrical-near-equal", core.Opts{Rule: "mirrored pairs whose scores differ by one ulp, by 5e-10, by 1e-12, at 1e300, 0 vs the smallest subnormal: Symmetrical panics iff the two scores are different float64 values (==), every combination over 3 mirrored pairs of one conflicting pair plus consistent others; non-trivial = all"},
		func(emit func(symNear) bool) {
			for i := range nearScores {
				for j := range nearScores {
					for which := 0; which < 3; which++ {
						p := [][2]int{{0, 0}, {1, 1}, {-1, -1}}
						p[which] = [2]int{i, j}
						if !emit(symNear{p}) {
							return
						}
					}
				}
			}
		},
		func(c symNear) core.Outcome {
			keys := [][2]byte{{'A', 'B'}, {'A', align.Gap}, {'B', align.Gap}}
			m := align.SubstitutionMatrix{}
			conflict := false
			for k, p := range c.Pairs {
				if p[0] < 0 {
					continue
				}
				a, b := nearScores[p[0]], nearScores[p[1]]
				m[keys[k]] = a
				m[[2]byte{keys[k][1], keys[k][0]}] = b
				if a != b {
					conflict = true
				}
			}
			var res align.SubstitutionMatrix
			p := catch(func() { res = m.Symmetrical() })
			if conflict && p == "" {
				return core.Failf("Symmetrical of %v did not panic although mirrored pairs carry different scores (returned %v)", m, res)
			}
			if !conflict && p != "" {
				return core.Failf("Symmetrical of %v panicked although all mirrored pairs are equal: %s", m, p)
			}
			if !conflict {
				if f := sameMatrix(res, m); f != "" {
					return core.Failf("Symmetrical of the already symmetric %v changed it: %s", m, f)
				}
			}
			return core.OK(fmt.Sprint("conflict=", conflict), true)
		})

	core.Clause(r, "gostring-all-bytes", core.Opts{Rule: "for every byte value b one matrix with the pairs (b,b), (b,'A'), ('A',b), (b,b^0x20), (b^0x80,b): GoString evaluates back to the matrix, keys ascending; non-trivial = all"},
		func(emit func(c20Go) bool) {
			for b := 0; b < 256; b++ {
				keys := map[[2]int]bool{{b, b}: true, {b, 'A'}: true, {'A', b}: true, {b, b ^ 0x20}: true, {b ^ 0x80, b}: true}
				var ks [][2]int
				var sc []string
				for k := range keys {
					ks = append(ks, k)
				}
				sort.Slice(ks, func(i, j int) bool { return ks[i][0]*256+ks[i][1] > ks[j][0]*256+ks[j][1] })
				for i := range ks {
					sc = append(sc, []string{"0.1", "-2.5", "3", "1e-07", "-0"}[i%5])
				}
				if !emit(c20Go{ks, sc}) {
					return
				}
			}
		},
		func(c c20Go) core.Outcome {
			if f := checkGoString(c.matrix()); f != "" {
				return core.Failf("%s", f)
			}
			return core.Outcome{Class: "ok", Nontrivial: true}
		})

	gbytes := []int{0, '\'', '\\', 0x7f, 0x80, 0xfe, 255, 'A', '"', '\n'}
	gscores := []string{"0.1", "-2.5", "1e+21", "1e-07", "0", "-0", "3", "123456789.125"}
	core.Clause(r, "gostring", core.Opts{Rule: "every 1-pair and 2-pair matrix over the byte menu {0,',\\,0x7f,0x80,0xfe,Gap,A,\",LF} with every score of the menu, all 3^9 partial matrices, and one matrix with all 100 pairs: the output parsed with go/parser and evaluated with go/constant yields the same map, one entry per pair, keys strictly ascending bytewise, and the genncbi composition passes go/format; non-trivial = all non-empty"},
		func(emit func(c20Go) bool) {
			emit(c20Go{})
			var allKeys [][2]int
			for _, a := range gbytes {
				for _, b := range gbytes {
					allKeys = append(allKeys, [2]int{a, b})
				}
			}
			for _, k := range allKeys {
				for _, s := range gscores {
					if !emit(c20Go{[][2]int{k}, []string{s}}) {
						return
					}
				}
			}
			for i, k1 := range allKeys {
				for j, k2 := range allKeys {
					if i == j {
						continue
					}
					if !emit(c20Go{[][2]int{k1, k2}, []string{gscores[(i+j)%len(gscores)], gscores[(i*3+j)%len(gscores)]}}) {
						return
					}
				}
			}
			var sc []string
			for i := range allKeys {
				sc = append(sc, gscores[i%len(gscores)])
			}
			emit(c20Go{allKeys, sc})
			enum.Tuples([]int{3, 3, 3, 3, 3, 3, 3, 3, 3}, func(t []int) bool {
				var keys [][2]int
				var scs []string
				for i, v := range t {
					if v != 0 {
						keys = append(keys, [2]int{int(symLetters[i/3]), int(symLetters[i%3])})
						scs = append(scs, fmt.Sprint(v))
					}
				}
				return emit(c20Go{keys, scs})
			})
		},
		func(c c20Go) core.Outcome {
			m := c.matrix()
			if f := checkGoString(m); f != "" {
				return core.Failf("%s", f)
			}
			return core.Outcome{Class: fmt.Sprint("pairs=", min(len(m), 3)), Nontrivial: len(m) > 0}
		})
	_ = sort.Strings
}

// surplusTokens: one more token in a row than the header has columns, whatever it looks like.
var surplusTokens = map[string]string{"hash": "#", "hash-digit": "#7", "hash-word": "#x", "semicolon": ";", "slashes": "//", "slashes-word": "//x", "star": "*", "bang": "!", "percent": "%", "label": "A", "number": "7", "zero": "0.0", "minus": "-"}
