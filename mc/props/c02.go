package props

import (
	"bytes"
	"fmt"
	"io"
	"strings"

	"github.com/fluhus/biostuff/formats/fastq"

	"verif/mc/engine/core"
	"verif/mc/engine/enum"
)

func init() { register("C02", "exploration", runC02) }

type fqRec struct {
	Name core.S `json:"name"`
	Seq  core.S `json:"seq"`
	Qual core.S `json:"quals"`
}

type c02List struct {
	Recs []fqRec `json:"records"`
}

type c02Len struct {
	Len int `json:"read_len"`
}

// c02Look: the record at index 1 of three has lost its leading '@'; its header line now starts with Prefix.
type c02Look struct {
	Prefix core.S `json:"header_line_prefix"`
	Rest   core.S `json:"header_line_rest"`
}

type c02Corrupt struct {
	Recs []fqRec `json:"records"`
	R    int     `json:"record_index"`
	Kind string  `json:"kind"`                 // no-at | plus-replaced | plus-emptied | plus-deleted | quals-longer | quals-shorter | cut
	Cut  int     `json:"cut_offset,omitempty"` // for kind=cut: number of bytes of record R that are kept
}

func fastqText(r fqRec) []byte {
	return []byte("@" + string(r.Name) + "\n" + string(r.Seq) + "\n+\n" + string(r.Qual) + "\n")
}

func readFastqAll(data []byte) ([]obsItem, string) {
	items, p, over := collect2(fastq.Reader(bytes.NewReader(data)), renderFastq, 1<<20)
	if over {
		p = "iterator did not end"
	}
	return items, p
}

func wantFastq(recs []fqRec) []obsItem {
	out := make([]obsItem, len(recs))
	for i, r := range recs {
		out[i] = obsItem{Rec: renderFastq(&fastq.Fastq{Name: r.Name.B(), Sequence: r.Seq.B(), Quals: r.Qual.B()})}
	}
	return out
}

func writeFastqChecked(recs []fqRec) ([]byte, string) {
	var file bytes.Buffer
	for _, r := range recs {
		f := &fastq.Fastq{Name: r.Name.B(), Sequence: r.Seq.B(), Quals: r.Qual.B()}
		var w bytes.Buffer
		var werr, merr error
		var mt []byte
		if p := catch(func() { werr = f.Write(&w); mt, merr = f.MarshalText() }); p != "" {
			return nil, fmt.Sprintf("Write/MarshalText panicked (read length %d): %s", len(r.Seq), p)
		}
		if werr != nil || merr != nil {
			return nil, fmt.Sprintf("Write/MarshalText returned an error: %v %v", werr, merr)
		}
		if !bytes.Equal(w.Bytes(), mt) {
			return nil, fmt.Sprintf("MarshalText and Write differ: %q vs %q", trunc(string(mt), 200), trunc(w.String(), 200))
		}
		if want := fastqText(r); !bytes.Equal(w.Bytes(), want) {
			return nil, fmt.Sprintf("Write output is %q, want the four lines %q", trunc(w.String(), 300), trunc(string(want), 300))
		}
		file.Write(w.Bytes())
	}
	return file.Bytes(), ""
}

func fqPool(names, seqs []string, qalpha string) []fqRec {
	var out []fqRec
	for _, n := range names {
		for _, s := range seqs {
			enum.StringsLen(qalpha, len(s), func(q string) bool {
				out = append(out, fqRec{core.S(n), core.S(s), core.S(q)})
				return true
			})
		}
	}
	return out
}

func runC02(r *core.Run) {
	defer everyLength(r)
	racePass(r, "race-format-fastq", "the fastq codec: readers each on their own stream (whole and in 7-byte reads, every corpus file), Write on shared records into separate destinations, File on one shared path; every result is compared with what the same call returned when it ran alone")
	firstCallClause(r, "fastq.")
	pool := fqPool([]string{"", "a", "@", "+", "@+"}, enum.AllStrings("A@+", 2), "I@+")
	small := fqPool([]string{"a", "@"}, enum.AllStrings("A@+", 1), "I@+")
	r.Bound("content", fmt.Sprintf("names {'',a,@,+,@+}, sequences over {A,@,+}^<=2, qualities over {I,@,+} of equal length (%d records): every list of 0..2 records; thorough: every list of 3 records over a pool of %d", len(pool), len(small)))
	core.Clause(r, "content-roundtrip", core.Opts{Rule: "every list of records over the pool written with Write (== MarshalText == four-line text model) and read back; sequences/qualities starting with '@' or '+' included; non-trivial = at least one record"},
		func(emit func(c02List) bool) {
			ok := enum.Sequences(len(pool), 2, func(sq []int) bool {
				l := c02List{make([]fqRec, len(sq))}
				for i, x := range sq {
					l.Recs[i] = pool[x]
				}
				return emit(l)
			})
			if ok && r.Thorough() {
				enum.Sequences(len(small), 3, func(sq []int) bool {
					if len(sq) < 3 {
						return true
					}
					l := c02List{make([]fqRec, len(sq))}
					for i, x := range sq {
						l.Recs[i] = small[x]
					}
					return emit(l)
				})
			}
		},
		func(c c02List) core.Outcome {
			data, fail := writeFastqChecked(c.Recs)
			if fail != "" {
				return core.Failf("%s", fail)
			}
			got, p := readFastqAll(data)
			if p != "" {
				return core.Failf("Reader panicked/hung on %q: %s", data, p)
			}
			want := wantFastq(c.Recs)
			if !sameShape(got, want) {
				return core.Failf("text %q decodes to %s, want %s", data, renderObs(got), renderObs(want))
			}
			return core.Outcome{Class: fmt.Sprint("records=", len(c.Recs)), Nontrivial: len(c.Recs) > 0, Evals: 2*len(c.Recs) + 1}
		})

	core.Clause(r, "all-bytes", core.Opts{Rule: "every byte value except CR, LF in the name, the sequence and the qualities (alone, first, middle, last), as the middle record of three; non-trivial = all"},
		func(emit func(c02List) bool) {
			for _, v := range []string{"é", "\xc5\x81", "日本", "\xe2\x80\xa8", "\xc2\x85", "\xef\xbb\xbfx", "a\xc2\xa0b", "a@b", "read@lane1", "a@b@c", "x+y"} {
				emit(c02List{[]fqRec{{"first", "AC", "II"}, {core.S(v), core.S(v), core.S(v)}, {"last", "", ""}}})
			}
			for b := 0; b < 256; b++ {
				if b == '\r' || b == '\n' {
					continue
				}
				for _, v := range []string{string([]byte{byte(b)}), string([]byte{byte(b), 'a'}), string([]byte{'a', byte(b), 'c'}), string([]byte{'a', byte(b)})} {
					plain := strings.Repeat("I", len(v))
					for _, rc := range []fqRec{{core.S(v), "ACGT", "IIII"}, {"n", core.S(v), core.S(plain)}, {"n", core.S(strings.Repeat("A", len(v))), core.S(v)}, {core.S(v), core.S(v), core.S(v)}} {
						if !emit(c02List{[]fqRec{{"first", "AC", "II"}, rc, {"last", "", ""}}}) {
							return
						}
					}
				}
			}
		},
		func(c c02List) core.Outcome {
			data, fail := writeFastqChecked(c.Recs)
			if fail != "" {
				return core.Failf("%s", fail)
			}
			got, p := readFastqAll(data)
			if p != "" {
				return core.Failf("Reader panicked/hung on %q: %s", data, p)
			}
			if want := wantFastq(c.Recs); !sameShape(got, want) {
				return core.Failf("text %q decodes to %s, want %s", data, renderObs(got), renderObs(want))
			}
			return core.Outcome{Class: "ok", Nontrivial: true, Evals: 7}
		})

	var lens []int
	for l := 0; l <= 300; l++ {
		lens = append(lens, l)
	}
	lens = append(lens, 4094, 4095, 4096, 4097, 65534, 65535, 65536, 65537, 131072, 1<<20)
	if r.Thorough() {
		for l := 301; l <= 9000; l++ {
			lens = append(lens, l)
		}
		for l := 65500; l <= 65600; l++ {
			lens = append(lens, l)
		}
		lens = append(lens, 1<<20+1, 4<<20, 16<<20)
	}
	r.Bound("read-lengths", fmt.Sprintf("every length 0..300, 4094..4097, 65534..65537, 131072, 1 MiB%s; each as the middle record of three", core.Pick(r, "", ", every length 301..9000 and 65500..65600, 1 MiB+1, 4 MiB, 16 MiB")))
	core.Clause(r, "read-lengths", core.Opts{Rule: "a file of three records whose middle record has the listed read length (position-dependent content, name as long as the read for lengths <= 65537); non-trivial = length >= 2"},
		func(emit func(c02Len) bool) {
			for _, l := range lens {
				if !emit(c02Len{l}) {
					return
				}
			}
		},
		func(c c02Len) core.Outcome {
			seq := longSeq(c.Len)
			q := make([]byte, c.Len)
			for i := range q {
				q[i] = byte('!' + (i*7+i/64)%90)
				if i == 0 {
					q[i] = '@'
				}
			}
			name := "read/1"
			if c.Len <= 65537 {
				name = string(longSeq(c.Len)) // a long name line as well
			}
			recs := []fqRec{{"first", "ACGT", "IIII"}, {core.S(name), core.S(seq), core.S(q)}, {"last", "TT", "+@"}}
			data, fail := writeFastqChecked(recs)
			if fail != "" {
				return core.Failf("%s", fail)
			}
			got, p := readFastqAll(data)
			if p != "" {
				return core.Failf("Reader panicked/hung on a read of length %d: %s", c.Len, p)
			}
			want := wantFastq(recs)
			if !sameShape(got, want) {
				return core.Failf("a read of length %d is not read back: got %s, want 3 records (first, the long read, last)", c.Len, trunc(renderObs(got), 300))
			}
			return core.Outcome{Class: fmt.Sprint("len-bucket=", bucket(c.Len)), Nontrivial: c.Len >= 2, Evals: 4}
		})

	core.Clause(r, "lengths-by-content", core.Opts{Rule: "content class (2-byte UTF-8, mixed UTF-8, invalid high bytes, percent verbs, quotes/backslashes, UTF-8 cut mid-rune) x every length 0..300, 4095..4097, 65535..65537 for name, sequence and qualities of the middle record of three; written (== four-line model) and read back; non-trivial = length >= 2"},
		func(emit func(c01Len) bool) {
			var ls []int
			for l := 0; l <= 300; l++ {
				ls = append(ls, l)
			}
			ls = append(ls, 4095, 4096, 4097, 65535, 65536, 65537)
			for _, cl := range contentClassNames {
				for _, l := range ls {
					if !emit(c01Len{l, cl}) {
						return
					}
				}
			}
		},
		func(c c01Len) core.Outcome {
			body := contentOf(c.Layout, c.Len, "\r\n")
			recs := []fqRec{{"first", "ACGT", "IIII"}, {core.S(body), core.S(body), core.S(body)}, {"last", "TT", "+@"}}
			data, fail := writeFastqChecked(recs)
			if fail != "" {
				return core.Failf("content class %s: %s", c.Layout, fail)
			}
			got, p := readFastqAll(data)
			if p != "" {
				return core.Failf("Reader panicked/hung on content class %s, length %d: %s", c.Layout, c.Len, p)
			}
			if !sameShape(got, wantFastq(recs)) {
				return core.Failf("content class %s, length %d is not read back: got %s", c.Layout, c.Len, trunc(renderObs(got), 300))
			}
			return core.Outcome{Class: c.Layout, Nontrivial: c.Len >= 2, Evals: 4}
		})

	nilFieldsFastq(r)
	firstBytes(r, "fastq", func(prefix string) ([]byte, []obsItem, bool, string) {
		if hasDelim(prefix) {
			return nil, nil, false, ""
		}
		recs := []fqRec{{core.S(prefix + "r"), "AC", "II"}, {"b", "G", "I"}}
		data, fail := writeFastqChecked(recs)
		return data, wantFastq(recs), true, fail
	})
	fastqFields := func(field string, vals []string) ([]byte, []obsItem, bool, string) {
		recs := []fqRec{{"first", "AC", "II"}}
		for i, v := range vals {
			if hasDelim(v) {
				return nil, nil, false, ""
			}
			rec := fqRec{core.S(fmt.Sprint("n", i)), "ACGT", "IIII"}
			switch field {
			case "name":
				rec.Name = core.S(v)
			case "seq":
				rec.Seq, rec.Qual = core.S(v), core.S(strings.Repeat("I", len(v)))
			default:
				rec.Seq, rec.Qual = core.S(strings.Repeat("A", len(v))), core.S(v)
			}
			recs = append(recs, rec)
		}
		recs = append(recs, fqRec{"last", "G", "I"})
		data, fail := writeFastqChecked(recs)
		return data, wantFastq(recs), true, fail
	}
	escapeSpellingsClause(r, "fastq", []string{"name", "seq", "qual"}, fastqFields)
	relativesClause(r, "fastq", []string{"name", "seq", "qual"}, fastqFields)
	interleavedReadersFor(r, []string{"fastq"})
	consumerMutatesRecords(r, []string{"fastq"})
	bigFiles(r, "fastq", []int{0})

	r.Bound("marked-offsets", markBounds+"; fields name / sequence / qualities, bytes '@' and '+'"+core.Pick(r, "", " and ' ', TAB, 0x00, 0xFF"))
	core.Clause(r, "marked-offsets", core.Opts{Rule: "a format-vocabulary byte at EVERY offset of a long name, sequence or quality string (it meets every internal buffer boundary of the reader); written with Write, read back as the middle record of three; non-trivial = all"},
		genMarks([]string{"name", "seq", "qual"}, core.Pick(r, []int{'@', '+'}, []int{'@', '+', ' ', '\t', 0x00, 0xFF}), nil),
		func(c markCase) core.Outcome {
			mid := fqRec{"mid", "ACGT", "IIII"}
			switch c.Field {
			case "name":
				mid.Name = core.S(markedField(c, 'n'))
			case "seq":
				mid.Seq, mid.Qual = core.S(markedField(c, 'A')), core.S(bytes.Repeat([]byte{'I'}, c.Len))
			case "qual":
				mid.Seq, mid.Qual = core.S(bytes.Repeat([]byte{'A'}, c.Len)), core.S(markedField(c, 'I'))
			}
			recs := []fqRec{{"first", "ACGT", "IIII"}, mid, {"last", "TT", "+@"}}
			data, fail := writeFastqChecked(recs)
			if fail != "" {
				return core.Failf("%s", fail)
			}
			got, p := readFastqAll(data)
			if p != "" {
				return core.Failf("Reader panicked/hung: %s of %d bytes with %q at offset %d: %s", c.Field, c.Len, byte(c.Byte), c.Offset, p)
			}
			if !sameShape(got, wantFastq(recs)) {
				return core.Failf("%s of %d bytes with %q at offset %d is not read back: got %s, want 3 records (first, the long one, last)", c.Field, c.Len, byte(c.Byte), c.Offset, trunc(renderObs(got), 300))
			}
			return core.Outcome{Class: c.Field, Nontrivial: true, Evals: 4}
		})

	core.Clause(r, "caller-memory", core.Opts{Rule: "Name, Sequence and Quals as adjacent sub-slices of ONE backing buffer in every order, with and without spare capacity: Write/MarshalText leave the record's own bytes untouched and the round trip holds; lengths 0..3; non-trivial = all"},
		func(emit func(c02Len) bool) {
			for nl := 0; nl <= 3; nl++ {
				for sl := 0; sl <= 3; sl++ {
					for order := 0; order < 6; order++ {
						for spare := 0; spare < 2; spare++ {
							emit(c02Len{nl*1000 + sl*100 + order*10 + spare})
						}
					}
				}
			}
		},
		func(c c02Len) core.Outcome {
			nl, sl, order, spare := c.Len/1000, c.Len/100%10, c.Len/10%10, c.Len%10
			buf := []byte("abcdefghijklmnopqrstuvwxyz-spare-bytes")
			lens := [][3]int{{nl, sl, sl}}[0]
			perm := [][3]int{{0, 1, 2}, {0, 2, 1}, {1, 0, 2}, {1, 2, 0}, {2, 0, 1}, {2, 1, 0}}[order]
			var parts [3][]byte
			off := 0
			for _, which := range perm {
				parts[which] = buf[off : off+lens[which]]
				if spare == 0 {
					parts[which] = parts[which][:lens[which]:lens[which]]
				}
				off += lens[which]
			}
			before := bytes.Clone(buf)
			want := fqRec{core.S(parts[0]), core.S(parts[1]), core.S(parts[2])}
			f := &fastq.Fastq{Name: parts[0], Sequence: parts[1], Quals: parts[2]}
			var w bytes.Buffer
			if p := catch(func() { f.Write(&w); f.MarshalText() }); p != "" {
				return core.Failf("panic: %s", p)
			}
			_ = before
			if string(parts[0]) != string(want.Name) || string(parts[1]) != string(want.Seq) || string(parts[2]) != string(want.Qual) {
				return core.Failf("Write/MarshalText modified the record %v (fields share one buffer): now %q %q %q", want, parts[0], parts[1], parts[2])
			}
			got, p := readFastqAll(w.Bytes())
			if p != "" || !sameShape(got, wantFastq([]fqRec{want})) {
				return core.Failf("record %v with fields sharing one buffer is written as %q and read back as %s %s", want, w.Bytes(), renderObs(got), p)
			}
			return core.Outcome{Class: fmt.Sprint("order=", order, " spare=", spare), Nontrivial: true, Evals: 3}
		})

	marshalHistories(r, "fastq", func() []marshaller {
		var out []marshaller
		for _, rc := range []fqRec{{"a", "ACGT", "IIII"}, {"", "", ""}, {"longer name", core.S(longSeq(170)), core.S(longSeq(170))}, {"@", "+", "@"}, {"b", core.S(longSeq(33)), core.S(longSeq(33))}, {"c", "AC", "+I"}} {
			f := &fastq.Fastq{Name: rc.Name.B(), Sequence: rc.Seq.B(), Quals: rc.Qual.B()}
			out = append(out, marshaller{fmt.Sprintf("{%q, %d bases}", rc.Name, len(rc.Seq)), f.MarshalText, func(w *bytes.Buffer) error { return f.Write(w) }, func(w io.Writer) error { return f.Write(w) }})
		}
		return out
	})

	headerLookalikes(r)

	type longCut struct {
		Field string `json:"long_field"`
		Cut   int    `json:"bytes_kept_of_the_long_record"`
	}
	r.Bound("cuts-in-long-records", "a short record followed by a record whose name / sequence+qualities has 8300 bytes, the file cut at EVERY byte offset inside that record (and, for a 70 000-byte field, at the offsets around 4096 and 65536 multiples)")
	core.Clause(r, "cuts-in-long-records", core.Opts{Rule: "a file cut short anywhere inside a LONG record (every offset, so also exactly at the reader's buffer fills inside the header, sequence and quality lines): the first record intact, then exactly one error, then end; a cut right after the complete record yields it instead; non-trivial = all"},
		func(emit func(longCut) bool) {
			for _, f := range []string{"name", "read"} {
				n := 8300
				total := 1 + n + 1 + 4 + 3 + 4 + 1
				if f == "read" {
					total = 1 + 4 + 1 + n + 3 + n + 1
				}
				for cut := 0; cut <= total; cut++ {
					if !emit(longCut{f, cut}) {
						return
					}
				}
			}
			for _, f := range []string{"name70k", "read70k"} {
				for _, c := range []int{4096, 8192, 65536, 69632, 70000, 73728, 131072, 135168, 139264} {
					for d := -3; d <= 3; d++ {
						if !emit(longCut{f, c + d}) {
							return
						}
					}
				}
			}
		},
		func(c longCut) core.Outcome {
			n := 8300
			if strings.HasSuffix(c.Field, "70k") {
				n = 70000
			}
			long := fqRec{"long", "ACGT", "IIII"}
			if strings.HasPrefix(c.Field, "name") {
				long.Name = core.S(longSeq(n))
			} else {
				long.Seq, long.Qual = core.S(longSeq(n)), core.S(bytes.Repeat([]byte{'I'}, n))
			}
			first := fqRec{"first", "AC", "II"}
			full := fastqText(long)
			cut := min(c.Cut, len(full))
			data := append(fastqText(first), full[:cut]...)
			got, p := readFastqAll(data)
			if p != "" {
				return core.Failf("Reader panicked/hung on a long record cut after %d bytes: %s", cut, p)
			}
			want := wantFastq([]fqRec{first})
			switch {
			case cut == 0:
				// nothing of the second record: a complete file of one record
			case cut >= len(full)-1: // complete (with or without its final line break)
				want = wantFastq([]fqRec{first, long})
			default:
				want = append(want, obsItem{Err: "error"})
			}
			if !sameShape(got, want) {
				return core.Failf("a record with a %s of %d bytes cut after %d of its %d bytes: decodes to %d items %s; want the first record, then %s", c.Field, n, cut, len(full), len(got), trunc(renderObs(got), 200), map[bool]string{true: "exactly one error", false: "the end / the complete record"}[cut > 0 && cut < len(full)-1])
			}
			return core.Outcome{Class: c.Field, Nontrivial: true}
		})

	cpool := []fqRec{{"a", "A", "I"}, {"", "", ""}, {"@", "@", "@"}, {"r", "AC", "+I"}, {"+", "+A", "I+"}, {"x y", "ACG", "III"}}
	maxFile := core.Pick(r, 2, 3)
	r.Bound("corruptions", fmt.Sprintf("every file of 1..%d records over a pool of %d x every record index x {no-at, plus-replaced (by a line 'x'), plus-emptied, plus-deleted (only when the qualities do not start with '+'), quals-longer, quals-shorter, the sequence or the quality line longer by one byte of 12 kinds (blank, TAB, NUL, 0xFF, 0xA0, VT, FF, '@', '+', '.', '*', '!') at its end or start, cut at every offset strictly inside the record and up to the first byte of its 4th line}", maxFile, len(cpool)))
	core.Clause(r, "corruptions", core.Opts{Rule: "every structural corruption (which record, which line, which kind, every cut offset) of every valid small file: records before r intact, then exactly one error item, then end, never a record at position r; non-trivial = all"},
		func(emit func(c02Corrupt) bool) {
			enum.Sequences(len(cpool), maxFile, func(sq []int) bool {
				if len(sq) == 0 {
					return true
				}
				recs := make([]fqRec, len(sq))
				for i, x := range sq {
					recs[i] = cpool[x]
				}
				for ri := range recs {
					kinds := []string{"no-at", "plus-replaced", "plus-emptied", "quals-longer"}
					if len(recs[ri].Qual) == 0 || recs[ri].Qual[0] != '+' {
						kinds = append(kinds, "plus-deleted")
					}
					if len(recs[ri].Qual) > 0 {
						kinds = append(kinds, "quals-shorter")
					}
					// the sequence or the quality line longer than the other by ONE byte of every kind a lenient
					// reader might trim (blank, TAB, NUL, 0xFF, NBSP bytes, '@', '+', '.', '*'), at its end or start
					for _, line := range []string{"seq", "quals"} {
						for _, where := range []string{"end", "start"} {
							for _, b := range []int{' ', '\t', 0x00, 0xFF, 0xA0, 0x0B, 0x0C, '@', '+', '.', '*', '!'} {
								kinds = append(kinds, fmt.Sprintf("surplus:%s:%s:%d", line, where, b))
							}
						}
					}
					for _, k := range kinds {
						if !emit(c02Corrupt{recs, ri, k, 0}) {
							return false
						}
					}
					line4 := 1 + len(recs[ri].Name) + 1 + len(recs[ri].Seq) + 1 + 2
					for cut := 1; cut <= line4; cut++ {
						if !emit(c02Corrupt{recs, ri, "cut", cut}) {
							return false
						}
					}
				}
				return true
			})
		},
		func(c c02Corrupt) core.Outcome {
			var file bytes.Buffer
			for i, rc := range c.Recs {
				if i != c.R {
					if c.Kind == "cut" && i > c.R {
						break
					}
					file.Write(fastqText(rc))
					continue
				}
				n, s, q := string(rc.Name), string(rc.Seq), string(rc.Qual)
				if strings.HasPrefix(c.Kind, "surplus:") {
					p := strings.Split(c.Kind, ":")
					var b int
					fmt.Sscan(p[3], &b)
					extra := string([]byte{byte(b)})
					add := func(x string) string {
						if p[2] == "end" {
							return x + extra
						}
						return extra + x
					}
					if p[1] == "seq" {
						s = add(s)
					} else {
						q = add(q)
					}
					file.WriteString("@" + n + "\n" + s + "\n+\n" + q + "\n")
					continue
				}
				switch c.Kind {
				case "no-at":
					file.WriteString("x" + n + "\n" + s + "\n+\n" + q + "\n")
				case "plus-replaced":
					file.WriteString("@" + n + "\n" + s + "\nx\n" + q + "\n")
				case "plus-emptied":
					file.WriteString("@" + n + "\n" + s + "\n\n" + q + "\n")
				case "plus-deleted":
					file.WriteString("@" + n + "\n" + s + "\n" + q + "\n")
				case "quals-longer":
					file.WriteString("@" + n + "\n" + s + "\n+\n" + q + "I\n")
				case "quals-shorter":
					file.WriteString("@" + n + "\n" + s + "\n+\n" + q[:len(q)-1] + "\n")
				case "cut":
					file.Write(fastqText(rc)[:c.Cut])
				}
			}
			data := file.Bytes()
			got, p := readFastqAll(data)
			if p != "" {
				return core.Failf("Reader panicked/hung on %q: %s", data, p)
			}
			want := wantFastq(c.Recs[:c.R])
			okPrefix := len(got) >= c.R && sameShape(got[:c.R], want)
			if !okPrefix || len(got) != c.R+1 || !got[c.R].IsErr() {
				return core.Failf("corruption %s of record %d: text %q decodes to %s; want the %d preceding records intact, then exactly one error, then end", c.Kind, c.R, data, renderObs(got), c.R)
			}
			return core.Outcome{Class: c.Kind, Nontrivial: true}
		})
}

// headerLookalikes: "a record lacks the leading '@'" for every way the header line can start instead.
func headerLookalikes(r *core.Run) {
	r.Bound("header-lookalikes", "the middle record of three lacks its '@'; its header line starts with: nothing, every single byte except '@', CR, LF; every 2-byte string without CR/LF not starting with '@'; the UTF-8 encoding of every code point U+0800..U+FFFF (this includes the byte order mark); each followed by '@r1', 'r1' and nothing")
	core.Clause(r, "header-lookalikes", core.Opts{Rule: "a header line that does not START with the byte '@' is never accepted, whatever it starts with instead (also when an '@' follows right after): the first record is delivered intact, then exactly one error, then end; non-trivial = all"},
		func(emit func(c02Look) bool) {
			rests := []string{"@r1", "r1", ""}
			out := func(p string) bool {
				for _, rest := range rests {
					if !emit(c02Look{core.S(p), core.S(rest)}) {
						return false
					}
				}
				return true
			}
			if !emit(c02Look{"", "r1"}) || !emit(c02Look{"", ""}) {
				return
			}
			ok := func(b int) bool { return b != '\r' && b != '\n' }
			for a := 0; a < 256; a++ {
				if !ok(a) || a == '@' {
					continue
				}
				if !out(string([]byte{byte(a)})) {
					return
				}
				for b := 0; b < 256; b++ {
					if ok(b) && !out(string([]byte{byte(a), byte(b)})) {
						return
					}
				}
			}
			enum.Runes(0x800, 0xFFFF, func(cp rune) bool { return out(string(cp)) })
		},
		func(c c02Look) core.Outcome {
			first := fqRec{"first", "AC", "II"}
			data := append(fastqText(first), []byte(string(c.Prefix)+string(c.Rest)+"\nGGCC\n+\n!!##\n@last\nTT\n+\nJJ\n")...)
			got, p := readFastqAll(data)
			if p != "" {
				return core.Failf("Reader panicked/hung on %q: %s", data, p)
			}
			want := wantFastq([]fqRec{first})
			if len(got) != 2 || !sameShape(got[:1], want) || !got[1].IsErr() {
				return core.Failf("record 1 lacks its leading '@' (header line %q): text %q decodes to %s; want the first record intact, then exactly one error, then end", string(c.Prefix)+string(c.Rest), data, renderObs(got))
			}
			return core.Outcome{Class: fmt.Sprint("prefix bytes=", len(c.Prefix)), Nontrivial: true}
		})
}

func bucket(n int) string {
	switch {
	case n < 2:
		return "0-1"
	case n <= 300:
		return "2-300"
	case n < 65536:
		return "<64K"
	}
	return ">=64K"
}
