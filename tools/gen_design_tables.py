#!/usr/bin/env python3
"""Regenerates DESIGN.md sections 8.6 (mutants) and 8.7 (seeded changes) from mutants/LIST and seeded/*/meta.json."""
import json, os
R='/verif'
s=open(R+'/DESIGN.md').read()
marker="### 8.6 My own mutants (mutants/LIST, run by mutants/selftest.sh)"
tail=s[s.index("### 8.8 "):] if "### 8.8 " in s else ""
s=s[:s.index(marker)]
rows=[]
for l in open(R+'/mutants/LIST'):
    l=l.strip()
    if not l or l.startswith('#'): continue
    p=l.split(); rows.append((p[0].replace('.patch',''), p[1], p[2], p[3] if len(p)>3 else 'quick'))
last=open(R+'/mutants/last_selftest.txt').read().strip().splitlines()[-1] if os.path.exists(R+'/mutants/last_selftest.txt') else 'not run'
out=marker+'''

Every patch is applied to a scratch copy (never to /repo), biostuff's own tests must pass with it, then the
designated check runs through a `-overlay` build (evidence goes to a scratch directory). Patches that
biostuff's own tests kill were dropped (they are not "changes the existing tests accept"). SILENT rows are
negative controls: behaviour-preserving or still-property-satisfying edits on which the check must stay quiet.

| mutant | check | expected | tier |
|---|---|---|---|
'''+"\n".join("| %s | %s | %s | %s |"%r for r in rows)+"\n\nLast full run of mutants/selftest.sh: %s (mutants/last_selftest.txt).\n"%last
metas=[]
for d in sorted(os.listdir(R+'/seeded')):
    p=R+'/seeded/%s/meta.json'%d
    if os.path.exists(p): metas.append((d,json.load(open(p))))
missed=sum(1 for _,m in metas if m['detection_status'].lower().startswith('missed'))
res=open(R+'/seeded/RESULTS.txt', errors='replace').read().strip().splitlines()[-1] if os.path.exists(R+'/seeded/RESULTS.txt') else 'not run'
out+='''
### 8.7 Independently seeded changes (seeded/<id>[-b|-c|-d|...]/, rounds of 20)

Each was written by a fresh sub-agent that saw only the property text (from round 2 on: plus one line per
earlier change for that property, taken from the earlier sub-agents' own descriptions, to force a different kind;
rounds 4-7 also named the kinds of sweep that exist, later rounds did not) and its own scratch worktree of /repo — nothing
from /verif. I kept a change only after confirming in a fresh worktree that it applies, that biostuff's own
tests pass with it and that its demonstration fails with it and passes without it (tools/seedcheck.sh).
`tools/seedrun.sh` performs the literal procedure for all of them (git -C /repo apply <patch>; ./run.sh <ID>
quick; git -C /repo checkout -- .); last result: **%s** (seeded/RESULTS.txt).
%d of the %d changes were MISSED by the version of the check that existed when the change arrived; every
miss led to a general strengthening (a new clause or a wider menu, described in the last column and in 8.5),
never to a special case for that patch, and no check was loosened. Three changes (C14-d: `Translate(src[:0], src)` breaks because dst is zero-filled before src is read; C13-h:
`DNATo2Bit(seq[:0], seq)` breaks because the output byte is appended before the group is read; C13-t is the same case once more, with dst's spare capacity being src) are deliberately NOT
detected: overlapping dst and src is outside the statements, other append-style functions of the package do not support it on the pinned tree
either, and demanding it would raise an alarm on a correct implementation that pre-grows dst.

| id | change | needs to manifest | caught by clause | history |
|---|---|---|---|---|
''' % (res, missed, len(metas))
for d,m in metas:
    out+="| %s | %s | %s | %s | %s |\n"%(d, m['change'].replace('|','/'), m['needs_to_manifest'].replace('|','/'), m['detected_by_clause'].replace('|','/'), m['detection_status'].replace('|','/'))
out+='''
Lessons that generalised beyond the individual patch (all now in the quick tier):

* **Sizes of internal machinery are part of the input space.** bufio's 4096-byte buffers, the Scanner's 64 KiB
  limit, preallocated stacks of 8 / 64 entries, windows of 65536 items, pooled tables from 4096 cells, the
  goroutine stack: every check sweeps lengths/depths across [c-k, c+8] for these c, and C19 runs a 10^6-deep
  chain under a 16 MiB stack cap.
* **Byte classes.** Every text field of every codec, trie keys and NCBI labels are exercised with all 256
  byte values (minus the format's own delimiters): `b & 0x5f` case folding, `unicode.IsSpace`, JSON string
  keys and `%q` ordering misbehave only on a handful of bytes >= 0x80 or control bytes.
* **Histories on "stateless" functions.** MarshalText results retained across calls, aligner calls back to
  back, one matrix map rewritten in place between calls, one iter.Seq value run twice / after a break /
  nested, DNATo2Bit into a buffer with stale spare capacity, records kept after the iteration went on: a pooled,
  cached or hoisted buffer is invisible to any single call.
* **The caller's memory.** Byte-slice fields handed in as adjacent sub-slices of one buffer with spare
  capacity; the whole buffer must be unchanged afterwards.
* **Every entry point, every consumer behaviour, and their combinations.** Reader and ReaderHeader, File on
  files with an error in the middle, consumers that stop on the error item, stops on streams that fail.
* **Numeric domain.** Matrices whose sums are exact in float64 but not in float32; gap scores of -Inf and
  -MaxFloat64; whole-number distances at the int32/int64/2^53 boundaries; mirrored scores one ulp apart.
'''
open(R+'/DESIGN.md','w').write(s+out+('\n\n'+tail if tail else ''))
print("DESIGN.md tables regenerated: %d mutants, %d seeded changes (%d missed at arrival)"%(len(rows),len(metas),missed))
