// Package instr rewrites the source of one library package so that a cooperative scheduler (engine
// sched) owns every interleaving of goroutines running inside it: a call verifPoint(site) is put in
// front of EVERY statement of every function body and function literal, and sync.Mutex / sync.RWMutex
// / sync.Once / sync.Pool are replaced by shims whose blocking (or reuse) is owned by the scheduler. The rewritten files
// and one added hook file are handed to `go build -overlay`, so the instrumented package is always
// made from the source the build would have used (the working tree of /repo, or what VERIF_OVERLAY
// maps it to) and nothing in /repo is touched.
//
// The rewrite is textual at AST positions: every byte of the original that is not a replaced
// selector stays where it was, on the same line.
package instr

import (
	"fmt"
	"go/ast"
	"go/parser"
	"go/token"
	"os"
	"path/filepath"
	"sort"
	"strconv"
	"strings"
)

// Site is one scheduling point.
type Site struct {
	File string `json:"file"`
	Line int    `json:"line"`
}

// Result of instrumenting one package.
type Result struct {
	Overlay     map[string]string // build path -> file holding the instrumented text
	Sites       []Site
	Unsupported []string // constructs the scheduler does not own (go statements, channels, sync.Cond, ...)
	SyncShims   int      // selectors replaced by shims
	Package     string
}

type edit struct {
	off  int
	end  int // == off for an insertion
	text string
}

// Package instruments every non-test Go file of pkgDir. resolve maps a build path to the file whose
// contents the build would read (overlay lookup); extra lists build paths that exist only in the overlay.
func Package(pkgDir string, resolve func(string) string, extra []string, outDir string) (*Result, error) {
	ents, err := os.ReadDir(pkgDir)
	if err != nil {
		return nil, err
	}
	var files []string
	for _, e := range ents {
		n := e.Name()
		if e.IsDir() || !strings.HasSuffix(n, ".go") || strings.HasSuffix(n, "_test.go") {
			continue
		}
		files = append(files, filepath.Join(pkgDir, n))
	}
	for _, x := range extra {
		if filepath.Dir(x) == pkgDir && strings.HasSuffix(x, ".go") && !strings.HasSuffix(x, "_test.go") {
			dup := false
			for _, f := range files {
				dup = dup || f == x
			}
			if !dup {
				files = append(files, x)
			}
		}
	}
	sort.Strings(files)
	if err := os.MkdirAll(outDir, 0o755); err != nil {
		return nil, err
	}
	res := &Result{Overlay: map[string]string{}}
	for _, path := range files {
		real := resolve(path)
		if real == "" {
			continue // deleted by the overlay
		}
		src, err := os.ReadFile(real)
		if err != nil {
			return nil, err
		}
		fset := token.NewFileSet()
		f, err := parser.ParseFile(fset, path, src, parser.ParseComments|parser.SkipObjectResolution)
		if err != nil {
			return nil, fmt.Errorf("parse %s: %v", path, err)
		}
		if res.Package == "" {
			res.Package = f.Name.Name
		} else if res.Package != f.Name.Name {
			continue // a file of another package (ignored by build constraints, e.g. package main with go:build ignore)
		}
		syncName := ""
		for _, im := range f.Imports {
			if p, _ := strconv.Unquote(im.Path.Value); p == "sync" {
				syncName = "sync"
				if im.Name != nil {
					syncName = im.Name.Name
				}
			}
		}
		var edits []edit
		off := func(p token.Pos) int { return fset.Position(p).Offset }
		point := func(s ast.Stmt) {
			if _, isDecl := s.(*ast.DeclStmt); isDecl {
				// still a fine place for a switch; declarations stay in scope because nothing is wrapped
			}
			res.Sites = append(res.Sites, Site{filepath.Base(path), fset.Position(s.Pos()).Line})
			edits = append(edits, edit{off(s.Pos()), off(s.Pos()), fmt.Sprintf("verifPoint(%d); ", len(res.Sites)-1)})
		}
		ast.Inspect(f, func(n ast.Node) bool {
			switch x := n.(type) {
			case *ast.BlockStmt:
				for _, s := range x.List {
					point(s)
				}
			case *ast.CaseClause:
				for _, s := range x.Body {
					point(s)
				}
			case *ast.CommClause:
				for _, s := range x.Body {
					point(s)
				}
			case *ast.GoStmt:
				res.Unsupported = append(res.Unsupported, fmt.Sprintf("%s:%d go statement", filepath.Base(path), fset.Position(x.Pos()).Line))
			case *ast.SelectStmt:
				res.Unsupported = append(res.Unsupported, fmt.Sprintf("%s:%d select", filepath.Base(path), fset.Position(x.Pos()).Line))
			case *ast.SendStmt:
				res.Unsupported = append(res.Unsupported, fmt.Sprintf("%s:%d channel send", filepath.Base(path), fset.Position(x.Pos()).Line))
			case *ast.ChanType:
				res.Unsupported = append(res.Unsupported, fmt.Sprintf("%s:%d channel type", filepath.Base(path), fset.Position(x.Pos()).Line))
			case *ast.UnaryExpr:
				if x.Op == token.ARROW {
					res.Unsupported = append(res.Unsupported, fmt.Sprintf("%s:%d channel receive", filepath.Base(path), fset.Position(x.Pos()).Line))
				}
			case *ast.SelectorExpr:
				if id, ok := x.X.(*ast.Ident); ok && syncName != "" && id.Name == syncName {
					switch x.Sel.Name {
					case "Mutex":
						edits = append(edits, edit{off(x.Pos()), off(x.End()), "verifMutex"})
						res.SyncShims++
					case "RWMutex":
						edits = append(edits, edit{off(x.Pos()), off(x.End()), "verifRWMutex"})
						res.SyncShims++
					case "Once":
						edits = append(edits, edit{off(x.Pos()), off(x.End()), "verifOnce"})
						res.SyncShims++
					case "Pool":
						edits = append(edits, edit{off(x.Pos()), off(x.End()), "verifPool"})
						res.SyncShims++
					case "Cond", "NewCond", "WaitGroup":
						res.Unsupported = append(res.Unsupported, fmt.Sprintf("%s:%d sync.%s", filepath.Base(path), fset.Position(x.Pos()).Line, x.Sel.Name))
					}
				}
			}
			return true
		})
		sort.SliceStable(edits, func(i, j int) bool { return edits[i].off > edits[j].off })
		out := append([]byte(nil), src...)
		for _, e := range edits {
			out = append(out[:e.off], append([]byte(e.text), out[e.end:]...)...)
		}
		if syncName != "" {
			out = append(out, []byte("\nvar _ "+syncName+".Locker // keeps the import used after the shims replaced its types\n")...)
		}
		dst := filepath.Join(outDir, "instr_"+filepath.Base(path))
		if err := os.WriteFile(dst, out, 0o644); err != nil {
			return nil, err
		}
		res.Overlay[path] = dst
	}
	if res.Package == "" {
		return nil, fmt.Errorf("no Go files in %s", pkgDir)
	}
	hook := filepath.Join(outDir, "zz_verif_sched_hooks.go")
	if err := os.WriteFile(hook, []byte(strings.ReplaceAll(hookFile, "PKGNAME", res.Package)), 0o644); err != nil {
		return nil, err
	}
	res.Overlay[filepath.Join(pkgDir, "zz_verif_sched_hooks.go")] = hook
	return res, nil
}

// hookFile is added to the instrumented package. With the hooks unset the shims behave like their
// originals for a single goroutine, so code outside the scheduled phase runs unchanged.
const hookFile = `package PKGNAME

// VerifHooks is set by the schedule explorer for the duration of one controlled execution.
var VerifHooks struct {
	Point func(site int) // before every statement
	Block func()         // the running goroutine cannot go on; returns when it has been rescheduled
	Wake  func()         // something a blocked goroutine waits for may have changed
}

func verifPoint(site int) {
	if h := VerifHooks.Point; h != nil {
		h(site)
	}
}

func verifBlock(what string) {
	if h := VerifHooks.Block; h != nil {
		h()
		return
	}
	panic("verif shim: " + what + " would block forever (no scheduler installed)")
}

func verifWake() {
	if h := VerifHooks.Wake; h != nil {
		h()
	}
}

type verifMutex struct{ locked bool }

func (m *verifMutex) Lock() {
	for m.locked {
		verifBlock("Mutex.Lock")
	}
	m.locked = true
}

func (m *verifMutex) TryLock() bool {
	if m.locked {
		return false
	}
	m.locked = true
	return true
}

func (m *verifMutex) Unlock() {
	if !m.locked {
		panic("sync: unlock of unlocked mutex")
	}
	m.locked = false
	verifWake()
}

type verifRWMutex struct {
	writer  bool
	readers int
}

func (m *verifRWMutex) Lock() {
	for m.writer || m.readers > 0 {
		verifBlock("RWMutex.Lock")
	}
	m.writer = true
}

func (m *verifRWMutex) TryLock() bool {
	if m.writer || m.readers > 0 {
		return false
	}
	m.writer = true
	return true
}

func (m *verifRWMutex) Unlock() {
	if !m.writer {
		panic("sync: Unlock of unlocked RWMutex")
	}
	m.writer = false
	verifWake()
}

func (m *verifRWMutex) RLock() {
	for m.writer {
		verifBlock("RWMutex.RLock")
	}
	m.readers++
}

func (m *verifRWMutex) TryRLock() bool {
	if m.writer {
		return false
	}
	m.readers++
	return true
}

func (m *verifRWMutex) RUnlock() {
	if m.readers <= 0 {
		panic("sync: RUnlock of unlocked RWMutex")
	}
	m.readers--
	verifWake()
}

type verifRLocker verifRWMutex

func (r *verifRLocker) Lock()   { (*verifRWMutex)(r).RLock() }
func (r *verifRLocker) Unlock() { (*verifRWMutex)(r).RUnlock() }

func (m *verifRWMutex) RLocker() interface {
	Lock()
	Unlock()
} {
	return (*verifRLocker)(m)
}

// verifPool stands in for sync.Pool: never blocks, hands back the most recently Put object (the reuse a
// pool exists for, made certain instead of likely), is emptied before every controlled execution
// (VerifResetPools) so that executions do not depend on their predecessors, and is never emptied by the
// garbage collector in the middle of one.
type verifPool struct {
	New        func() any
	items      []any
	registered bool
}

var verifPools []*verifPool

func (p *verifPool) register() {
	if !p.registered {
		p.registered = true
		verifPools = append(verifPools, p)
	}
}

func (p *verifPool) Get() any {
	p.register()
	if n := len(p.items); n > 0 {
		x := p.items[n-1]
		p.items = p.items[:n-1]
		return x
	}
	if p.New != nil {
		return p.New()
	}
	return nil
}

func (p *verifPool) Put(x any) {
	p.register()
	if x != nil {
		p.items = append(p.items, x)
	}
}

// VerifResetPools empties every pool that has been used so far.
func VerifResetPools() {
	for _, p := range verifPools {
		p.items = nil
	}
}

type verifOnce struct{ done, running bool }

func (o *verifOnce) Do(f func()) {
	if o.done {
		return
	}
	for o.running {
		verifBlock("Once.Do")
		if o.done {
			return
		}
	}
	o.running = true
	defer func() {
		o.running = false
		o.done = true
		verifWake()
	}()
	f()
}
`
