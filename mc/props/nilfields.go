package props

import (
	"bytes"
	"fmt"

	"github.com/fluhus/biostuff/formats/fasta"
	"github.com/fluhus/biostuff/formats/fastq"

	"verif/mc/engine/core"
	"verif/mc/engine/enum"
)

// nil versus empty: a byte-slice field that is nil and one that is empty but non-nil are the same field
// content (the reader itself hands out nil for empty lines). A writer or reader that tells them apart
// (a "bare record" mode for a nil name, a "qualities not stored" mode for nil qualities) breaks the round
// trip of records the statement covers: every field "free of CR/LF" includes the empty one in both forms.

// fieldOf: kind 0 = nil, 1 = empty non-nil, 2 = empty with spare capacity, 3.. = content
func fieldOf(kind int, content string) []byte {
	switch kind {
	case 0:
		return nil
	case 1:
		return []byte{}
	case 2:
		return make([]byte, 0, 8)
	}
	return []byte(content)
}

type nilRecs struct {
	Kinds [][]int `json:"field_kinds_per_record"` // per record: kind of each field (0 nil, 1 empty, 2 empty+capacity, 3 content)
}

func nilFieldsFasta(r *core.Run) {
	core.Clause(r, "nil-and-empty-fields", core.Opts{Rule: "every list of 1..3 records whose Name and Sequence are each nil / empty non-nil / empty with spare capacity / non-empty: Write == MarshalText, one '>' line per record, and the file reads back as the same names and sequences (nil and empty are the same content); non-trivial = at least 2 records"},
		func(emit func(nilRecs) bool) {
			enum.Sequences(16, 3, func(sq []int) bool {
				if len(sq) == 0 {
					return true
				}
				k := make([][]int, len(sq))
				for i, x := range sq {
					k[i] = []int{x / 4, x % 4}
				}
				return emit(nilRecs{k})
			})
		},
		func(c nilRecs) core.Outcome {
			var file bytes.Buffer
			var want []obsItem
			for i, k := range c.Kinds {
				f := &fasta.Fasta{Name: fieldOf(k[0], fmt.Sprint("n", i)), Sequence: fieldOf(k[1], "ACGT"[:1+i])}
				var w bytes.Buffer
				var mt []byte
				var werr, merr error
				if p := catch(func() { werr = f.Write(&w); mt, merr = f.MarshalText() }); p != "" {
					return core.Failf("record %d of kinds %v: Write/MarshalText panicked: %s", i, c.Kinds, p)
				}
				if werr != nil || merr != nil || !bytes.Equal(w.Bytes(), mt) {
					return core.Failf("record %d of kinds %v: Write gives %q (%v), MarshalText %q (%v)", i, c.Kinds, w.Bytes(), werr, mt, merr)
				}
				if fail := fastaShape(w.Bytes(), f.Name, f.Sequence); fail != "" {
					return core.Failf("record %d of kinds %v (0 nil, 1 empty, 2 empty with capacity, 3 content): %s; output %q", i, c.Kinds, fail, w.Bytes())
				}
				file.Write(w.Bytes())
				want = append(want, obsItem{Rec: renderFasta(&fasta.Fasta{Name: f.Name, Sequence: f.Sequence})})
			}
			got, p := readFastaAll(file.Bytes())
			if p != "" {
				return core.Failf("Reader panicked on %q: %s", file.Bytes(), p)
			}
			if !sameShape(got, want) {
				return core.Failf("records of field kinds %v (name, sequence; 0 nil, 1 empty, 2 empty with capacity, 3 content) are written as %q and read back as %s, want %s", c.Kinds, file.Bytes(), renderObs(got), renderObs(want))
			}
			return core.Outcome{Class: fmt.Sprint("records=", len(c.Kinds)), Nontrivial: len(c.Kinds) >= 2, Evals: 3}
		})
}

func nilFieldsFastq(r *core.Run) {
	core.Clause(r, "nil-and-empty-fields", core.Opts{Rule: "every list of 1..2 records whose Name is nil / empty / empty with capacity / non-empty and whose Sequence and Quals are (independently in representation, equal in length) nil / empty / empty with capacity / non-empty: Write == MarshalText == the four-line form, and the file reads back as the same records; non-trivial = at least 2 records"},
		func(emit func(nilRecs) bool) {
			var kinds [][]int
			for n := 0; n < 4; n++ {
				for s := 0; s < 4; s++ {
					for q := 0; q < 4; q++ {
						if (s == 3) == (q == 3) { // equal lengths: both empty (any representation) or both content
							kinds = append(kinds, []int{n, s, q})
						}
					}
				}
			}
			enum.Sequences(len(kinds), 2, func(sq []int) bool {
				if len(sq) == 0 {
					return true
				}
				k := make([][]int, len(sq))
				for i, x := range sq {
					k[i] = kinds[x]
				}
				return emit(nilRecs{k})
			})
		},
		func(c nilRecs) core.Outcome {
			var file bytes.Buffer
			var want []obsItem
			for i, k := range c.Kinds {
				f := &fastq.Fastq{Name: fieldOf(k[0], fmt.Sprint("r", i)), Sequence: fieldOf(k[1], "AC"), Quals: fieldOf(k[2], "*I")}
				var w bytes.Buffer
				var mt []byte
				var werr, merr error
				if p := catch(func() { werr = f.Write(&w); mt, merr = f.MarshalText() }); p != "" {
					return core.Failf("record %d of kinds %v: Write/MarshalText panicked: %s", i, c.Kinds, p)
				}
				model := "@" + string(f.Name) + "\n" + string(f.Sequence) + "\n+\n" + string(f.Quals) + "\n"
				if werr != nil || merr != nil || !bytes.Equal(w.Bytes(), mt) || w.String() != model {
					return core.Failf("record %d of kinds %v (name, sequence, qualities; 0 nil, 1 empty, 2 empty with capacity, 3 content): Write gives %q (%v), MarshalText %q (%v), want the four lines %q", i, c.Kinds, w.Bytes(), werr, mt, merr, model)
				}
				file.Write(w.Bytes())
				want = append(want, obsItem{Rec: renderFastq(&fastq.Fastq{Name: f.Name, Sequence: f.Sequence, Quals: f.Quals})})
			}
			got, p := readFastqAll(file.Bytes())
			if p != "" {
				return core.Failf("Reader panicked on %q: %s", file.Bytes(), p)
			}
			if !sameShape(got, want) {
				return core.Failf("records of field kinds %v are written as %q and read back as %s, want %s", c.Kinds, file.Bytes(), renderObs(got), renderObs(want))
			}
			return core.Outcome{Class: fmt.Sprint("records=", len(c.Kinds)), Nontrivial: len(c.Kinds) >= 2, Evals: 3}
		})
}
