package props

import (
	"fmt"

	"github.com/fluhus/biostuff/formats/newick"

	"verif/mc/engine/core"
	"verif/mc/engine/enum"
)

func init() { register("C19", "exploration", runC19) }

// buildTree builds a tree from a pre-order child-count code and returns the nodes in pre-order.
func buildTree(code []int) (*newick.Node, []*newick.Node) {
	nodes := make([]*newick.Node, len(code))
	for i := range nodes {
		nodes[i] = &newick.Node{Name: fmt.Sprint("n", i), Distance: float64(i)}
	}
	pos := 0
	var rec func() *newick.Node
	rec = func() *newick.Node {
		i := pos
		pos++
		n := nodes[i]
		for k := 0; k < code[i]; k++ {
			n.Children = append(n.Children, rec())
		}
		return n
	}
	root := rec()
	return root, nodes
}

func refPre(n *newick.Node, out *[]*newick.Node) {
	*out = append(*out, n)
	for _, c := range n.Children {
		refPre(c, out)
	}
}

func refPost(n *newick.Node, out *[]*newick.Node) {
	for _, c := range n.Children {
		refPost(c, out)
	}
	*out = append(*out, n)
}

type nodeSnap struct {
	name string
	dist float64
	kids []*newick.Node
}

func snapTree(nodes []*newick.Node) []nodeSnap {
	out := make([]nodeSnap, len(nodes))
	for i, n := range nodes {
		out[i] = nodeSnap{n.Name, n.Distance, append([]*newick.Node(nil), n.Children...)}
	}
	return out
}

func sameSnap(a, b []nodeSnap) bool {
	if len(a) != len(b) {
		return false
	}
	for i := range a {
		if a[i].name != b[i].name || a[i].dist != b[i].dist || len(a[i].kids) != len(b[i].kids) {
			return false
		}
		for j := range a[i].kids {
			if a[i].kids[j] != b[i].kids[j] {
				return false
			}
		}
	}
	return true
}

type c19Tree struct {
	Code []int `json:"preorder_child_counts"`
}

type c19Big struct {
	Kind string `json:"kind"`
	N    int    `json:"n"`
}

func checkTraversal(root *newick.Node, nodes []*newick.Node, what string) core.Outcome {
	before := snapTree(nodes)
	var wantPre, wantPost []*newick.Node
	refPre(root, &wantPre)
	refPost(root, &wantPost)
	index := make(map[*newick.Node]int, len(nodes))
	for i, n := range nodes {
		index[n] = i
	}
	render := func(s []*newick.Node) string {
		if len(s) > 24 {
			return fmt.Sprintf("(%d nodes)", len(s))
		}
		out := ""
		for _, n := range s {
			out += fmt.Sprint(index[n], " ")
		}
		return out
	}
	for pass, want := range [][]*newick.Node{wantPre, wantPost} {
		var got []*newick.Node
		name := []string{"PreOrder", "PostOrder"}[pass]
		p := catch(func() {
			it := root.PreOrder()
			if pass == 1 {
				it = root.PostOrder()
			}
			for n := range it {
				got = append(got, n)
				if len(got) > 2*len(nodes)+2 {
					panic("traversal yields more than twice the number of nodes")
				}
			}
		})
		if p != "" {
			return core.Failf("%s on %s panicked: %s", name, what, p)
		}
		if len(got) != len(want) {
			return core.Failf("%s on %s yielded %d nodes, want %d: got %s want %s", name, what, len(got), len(want), render(got), render(want))
		}
		for i := range got {
			if got[i] != want[i] {
				return core.Failf("%s on %s differs from the recursive order at position %d: got %s want %s", name, what, i, render(got), render(want))
			}
		}
	}
	if !sameSnap(before, snapTree(nodes)) {
		return core.Failf("traversal modified the tree %s", what)
	}
	return core.Outcome{Class: fmt.Sprint("nodes", min(len(nodes), 12)), Nontrivial: len(nodes) >= 3, Evals: 2}
}

func runC19(r *core.Run) {
	N := core.Pick(r, 9, 14)
	r.Bound("trees", fmt.Sprintf("every ordered tree with 1..%d nodes", N))
	core.Clause(r, "all-trees", core.Opts{Rule: "every ordered rooted tree (Łukasiewicz code) up to the node bound, PreOrder and PostOrder each vs the recursive reference; non-trivial = at least 3 nodes"},
		func(emit func(c19Tree) bool) {
			enum.TreesUpTo(N, func(c []int) bool { return emit(c19Tree{append([]int(nil), c...)}) })
		},
		func(c c19Tree) core.Outcome {
			root, nodes := buildTree(c.Code)
			return checkTraversal(root, nodes, fmt.Sprint("tree ", c.Code))
		})

	core.Clause(r, "degenerate", core.Opts{Serial: true, Rule: "chain of depth n, star with n children, comb (chain with a leaf at every level), for the listed n; non-trivial = all"},
		func(emit func(c19Big) bool) {
			for _, n := range []int{1000, 100000, 1000000} {
				emit(c19Big{"chain", n})
			}
			for _, n := range []int{1000, 100000} {
				emit(c19Big{"star", n})
			}
			for _, n := range []int{1000, 200000} {
				emit(c19Big{"comb", n})
			}
		},
		func(c c19Big) core.Outcome {
			var code []int
			switch c.Kind {
			case "chain":
				code = make([]int, c.N)
				for i := 0; i < c.N-1; i++ {
					code[i] = 1
				}
			case "star":
				code = make([]int, c.N+1)
				code[0] = c.N
			case "comb": // each spine node has a leaf child and the next spine node
				code = make([]int, 0, 2*c.N+1)
				for i := 0; i < c.N; i++ {
					code = append(code, 2, 0)
				}
				code = append(code, 0)
			}
			root, nodes := buildTree(code)
			return checkTraversal(root, nodes, fmt.Sprintf("%s(%d)", c.Kind, c.N))
		})
}
