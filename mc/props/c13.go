package props

import (
	"bytes"
	"fmt"

	"github.com/fluhus/biostuff/sequtil"

	"verif/mc/engine/core"
	"verif/mc/engine/enum"
	"verif/mc/ref"
)

func init() { register("C13", "exploration", runC13) }

type c13Pack struct {
	Seq core.S `json:"seq"`
	Dst int    `json:"dst_variant"`
}

type c13Packed struct {
	Bytes []int `json:"packed_bytes"`
}

type c13Byte struct {
	Byte int `json:"byte"`
	Pos  int `json:"pos"`
}

func runC13(r *core.Run) {
	defer pairsInLongSequences(r, "ACGTTGCAacgtACGTGGCCAATTacgtTGCA", []pairLongFn{
		{"DNATo2Bit(nil, seq)", func(in []byte) []byte { return sequtil.DNATo2Bit(nil, in) }, func(in []byte) ([]byte, bool) { return ref.Pack2Bit(in) }},
	})
	defer srcWindows(r, "ACGTacgt", 5, []string{"ACGTTGCAACGTACGTacgtACGTTGCAACGTAAACGT", string(longSeq(301))}, []srcWindowFn{
		{"DNATo2Bit(nil, seq)", func(in []byte) { sequtil.DNATo2Bit(nil, in) }},
		{"DNATo2Bit(dst with spare capacity, seq)", func(in []byte) { sequtil.DNATo2Bit(make([]byte, 2, 64), in) }},
		{"DNAFrom2Bit(nil, packed)", func(in []byte) { sequtil.DNAFrom2Bit(nil, in) }},
		{"DNAFrom2Bit(dst with spare capacity, packed)", func(in []byte) { sequtil.DNAFrom2Bit(make([]byte, 2, 64), in) }},
	})
	firstCallClause(r, "sequtil.DNA", "sequtil.Ntoi", "sequtil.Iton")
	askedAgain(r, []againFunc{
		{"DNATo2Bit", func(in []byte) string { return fmt.Sprintf("%x", sequtil.DNATo2Bit([]byte("x"), in)) }},
		{"DNAFrom2Bit", func(in []byte) string { return string(sequtil.DNAFrom2Bit([]byte("x"), in)) }},
		{"Ntoi", func(in []byte) string {
			if len(in) != 1 {
				panic("not one byte")
			}
			return fmt.Sprint(sequtil.Ntoi(in[0]))
		}},
		{"Iton", func(in []byte) string {
			if len(in) != 1 {
				panic("not one byte")
			}
			return string([]byte{sequtil.Iton(int(in[0]))}) + string([]byte{sequtil.Iton(int(in[0]) - 128)})
		}},
	}, againInputs([]string{"ACG", "acgtTTTT"}, "", "ACGT", "acgtACGTa", "TTTTTTTTN"))
	racePass(r, "race-sequtil", "ReverseComplement(String), DNATo2Bit/From2Bit, Translate(ReadingFrames), CanonicalSubsequences, AminoName on one shared src")

	L := core.Pick(r, 5, 8)
	r.Bound("pack", fmt.Sprintf("all strings over aAcCgGtT of length 0..%d x 3 dst variants", L))
	core.Clause(r, "pack-unpack", core.Opts{Rule: "every DNA string over aAcCgGtT up to the bound x 3 dst variants (nil / full capacity / spare capacity pre-filled with 0xEE); non-trivial = length >= 2"},
		func(emit func(c13Pack) bool) {
			enum.Strings("aAcCgGtT", L, func(s string) bool {
				for d := 0; d < 3; d++ {
					if !emit(c13Pack{core.S(s), d}) {
						return false
					}
				}
				return true
			})
		},
		checkPack)

	core.Clause(r, "pack-unpack-long", core.Opts{Rule: "position-dependent DNA strings (mixed case) of EVERY length 0..1100 (thorough 0..9000) and 4095..4098, 65535..65538 x 3 dst variants; non-trivial = all"},
		func(emit func(c13Pack) bool) {
			var lens []int
			for l := 6; l <= core.Pick(r, 1100, 9000); l++ {
				lens = append(lens, l)
			}
			lens = append(lens, 4095, 4096, 4097, 4098, 65535, 65536, 65537, 65538)
			for _, l := range lens {
				b := make([]byte, l)
				for i := range b {
					b[i] = "aAcCgGtT"[(i*3+i/8+l)%8]
				}
				for d := 0; d < 3; d++ {
					if !emit(c13Pack{core.S(b), d}) {
						return
					}
				}
			}
		}, checkPack)

	bufferReuse(r, append(enum.AllStrings("ACGT", 3), "GATTACCA", "GATTGCCA", "acgtACGTa", "TTTTTTTT", "\x1b\xe4", "\x00\xff\x1b"), []string{"DNATo2Bit", "DNAFrom2Bit", "DNATo2Bit then DNAFrom2Bit"},
		func(fn string, in []byte) string {
			switch fn {
			case "DNATo2Bit":
				return string(sequtil.DNATo2Bit(nil, in))
			case "DNAFrom2Bit":
				return string(sequtil.DNAFrom2Bit(nil, in))
			}
			return string(sequtil.DNAFrom2Bit(nil, sequtil.DNATo2Bit(nil, in)))
		})

	core.Clause(r, "dst-shares-memory-with-src-pack", core.Opts{Rule: dstAliasRule},
		genDstAlias([]string{"", "A", "t", "ACG", "ACGT", "acgtTGCAg", "ACGTACGTACGTACGTACGTACGTACGTACGTACGTA", "ACNG", "N"}),
		checkDstAlias("DNATo2Bit", sequtil.DNATo2Bit, ref.Pack2Bit))
	core.Clause(r, "dst-shares-memory-with-src-unpack", core.Opts{Rule: dstAliasRule},
		genDstAlias([]string{"", "\x00", "\x1b", "\xff\x00", "\xe4\x1b\x00\xff\x80\x01\x7f"}),
		checkDstAlias("DNAFrom2Bit", sequtil.DNAFrom2Bit, func(p []byte) ([]byte, bool) { return ref.Unpack2Bit(p), true }))

	core.Clause(r, "dst-contents-pack", core.Opts{Rule: dstRule},
		genDstCases([]string{"", "A", "t", "ACG", "ACGT", "acgtTGCAg", "ACGTACGTACGTACGTACGTACGTACGTACGTACGTA", "ACNG", "\x00", "AC\x00", "ACGT\xff", "N"}),
		checkDstContract("DNATo2Bit", sequtil.DNATo2Bit, ref.Pack2Bit))
	core.Clause(r, "dst-contents-unpack", core.Opts{Rule: dstRule},
		genDstCases([]string{"", "\x00", "\x1b", "\xff\x00", "\xe4\x1b\x00\xff\x80\x01\x7f"}),
		checkDstContract("DNAFrom2Bit", sequtil.DNAFrom2Bit, func(p []byte) ([]byte, bool) { return ref.Unpack2Bit(p), true }))

	core.Clause(r, "packed-roundtrip", core.Opts{Rule: "the empty string, all 256 packed bytes and all 65536 byte pairs: DNATo2Bit(DNAFrom2Bit(p)) == p and DNAFrom2Bit(p) == reference expansion; non-trivial = all non-empty"},
		func(emit func(c13Packed) bool) {
			emit(c13Packed{[]int{}})
			for a := 0; a < 256; a++ {
				emit(c13Packed{[]int{a}})
			}
			for a := 0; a < 256; a++ {
				for b := 0; b < 256; b++ {
					if !emit(c13Packed{[]int{a, b}}) {
						return
					}
				}
			}
		},
		func(c c13Packed) core.Outcome {
			p := make([]byte, len(c.Bytes))
			for i, b := range c.Bytes {
				p[i] = byte(b)
			}
			orig := bytes.Clone(p)
			var un, back []byte
			if pn := catch(func() { un = sequtil.DNAFrom2Bit(nil, p); back = sequtil.DNATo2Bit(nil, un) }); pn != "" {
				return core.Failf("round trip of %x panicked: %s", p, pn)
			}
			if !bytes.Equal(un, ref.Unpack2Bit(orig)) {
				return core.Failf("DNAFrom2Bit(%x) = %q, want %q", orig, un, ref.Unpack2Bit(orig))
			}
			if !bytes.Equal(back, orig) {
				return core.Failf("DNATo2Bit(DNAFrom2Bit(%x)) = %x", orig, back)
			}
			return core.Outcome{Class: fmt.Sprint("len", len(p)), Nontrivial: len(p) > 0, Evals: 2}
		})

	core.Clause(r, "from2bit-result-is-private", core.Opts{Rule: "call histories for every packed byte b and every ordered pair (b, c) over 16 bytes: r := DNAFrom2Bit(nil, [b]); overwrite and append to r (also via DNAFrom2Bit(r[:0], [c])); then DNAFrom2Bit(nil, [b]) and the round trip of [b] must still be right; non-trivial = all"},
		func(emit func(c13Packed) bool) {
			for b := 0; b < 256; b++ {
				emit(c13Packed{[]int{b}})
			}
			sel := []int{0x00, 0x1b, 0xe4, 0xff, 0x55, 0xaa, 0x01, 0x80, 0x7f, 0xfe, 0x10, 0x0f, 0xf0, 0x33, 0xcc, 0x99}
			for _, b := range sel {
				for _, c := range sel {
					emit(c13Packed{[]int{b, c}})
				}
			}
		},
		func(c c13Packed) core.Outcome {
			b := byte(c.Bytes[0])
			want := ref.Unpack2Bit([]byte{b})
			var fail string
			p := catch(func() {
				r1 := sequtil.DNAFrom2Bit(nil, []byte{b})
				if !bytes.Equal(r1, want) {
					fail = fmt.Sprintf("DNAFrom2Bit(nil, %x) = %q, want %q", b, r1, want)
					return
				}
				if len(c.Bytes) > 1 {
					sequtil.DNAFrom2Bit(r1[:0], []byte{byte(c.Bytes[1])}) // reuse the result as a buffer
				}
				for i := range r1 {
					r1[i] = 'X'
				}
				_ = append(r1[:cap(r1)], 'Y')
				r2 := sequtil.DNAFrom2Bit(nil, []byte{b})
				if !bytes.Equal(r2, want) {
					fail = fmt.Sprintf("after the caller modified an earlier result, DNAFrom2Bit(nil, %x) = %q, want %q: the result aliases internal state", b, r2, want)
					return
				}
				if back := sequtil.DNATo2Bit(nil, r2); len(back) != 1 || back[0] != b {
					fail = fmt.Sprintf("round trip of %x gives %x", b, back)
				}
			})
			if p != "" {
				return core.Failf("panic: %s", p)
			}
			if fail != "" {
				return core.Failf("%s", fail)
			}
			return core.Outcome{Class: "ok", Nontrivial: true, Evals: 4}
		})

	core.Clause(r, "panic-boundary-pairs", core.Opts{Rule: "all 65536 two-byte strings, alone and between A and C (a pair of bad bytes must not hide each other), and the UTF-8 encoding of EVERY code point U+0080..U+10FFFF (surrogates excluded) between AC and GT (bytes are judged, not runes): DNATo2Bit panics iff some BYTE is outside aAcCgGtT; non-trivial = all"},
		func(emit func(c13Pack) bool) {
			for a := 0; a < 256; a++ {
				for b := 0; b < 256; b++ {
					if !emit(c13Pack{core.S([]byte{byte(a), byte(b)}), 0}) || !emit(c13Pack{core.S([]byte{'A', byte(a), byte(b), 'C'}), 0}) {
						return
					}
				}
			}
			enum.Runes(0x80, 0x10FFFF, func(cp rune) bool { return emit(c13Pack{core.S("AC" + string(cp) + "GT"), 0}) })
		}, checkPackPanics)

	core.Clause(r, "ntoi-iton-panic", core.Opts{Rule: "Ntoi on all 256 bytes (pos=-2), Iton on -3..6 (pos=-3, byte=value+3), and every byte at each position mod 4 of ACGTA: panics iff outside aAcCgGtT"},
		func(emit func(c13Byte) bool) {
			for b := 0; b < 256; b++ {
				emit(c13Byte{b, -2})
			}
			for v := 0; v < 10; v++ {
				emit(c13Byte{v, -3})
			}
			for pos := 0; pos <= 4; pos++ {
				for b := 0; b < 256; b++ {
					emit(c13Byte{b, pos})
				}
			}
		},
		func(c c13Byte) core.Outcome {
			switch c.Pos {
			case -2:
				got := sequtil.Ntoi(byte(c.Byte))
				want := ref.BaseCode(byte(c.Byte))
				if got != want {
					return core.Failf("Ntoi(%#x) = %d, want %d", c.Byte, got, want)
				}
				if want >= 0 {
					if up := sequtil.Iton(got); up != bytes.ToUpper([]byte{byte(c.Byte)})[0] {
						return core.Failf("Iton(Ntoi(%q)) = %q", byte(c.Byte), up)
					}
				}
				return core.OK(fmt.Sprint("ntoi", want), true)
			case -3:
				v := c.Byte - 3
				got := sequtil.Iton(v)
				want := byte('N')
				if v >= 0 && v <= 3 {
					want = "ACGT"[v]
				}
				if got != want {
					return core.Failf("Iton(%d) = %q, want %q", v, got, want)
				}
				if v >= 0 && v <= 3 && sequtil.Ntoi(got) != v {
					return core.Failf("Ntoi(Iton(%d)) = %d", v, sequtil.Ntoi(got))
				}
				return core.OK("iton", true)
			}
			base := "ACGTA"
			src := append(append(append([]byte{}, base[:c.Pos]...), byte(c.Byte)), base[c.Pos:]...)
			want, ok := ref.Pack2Bit(src)
			var got []byte
			p := catch(func() { got = sequtil.DNATo2Bit(nil, src) })
			if ok {
				if p != "" {
					return core.Failf("DNATo2Bit(%q) panicked: %s", src, p)
				}
				if !bytes.Equal(got, want) {
					return core.Failf("DNATo2Bit(%q) = %x, want %x", src, got, want)
				}
				return core.OK("accepted", true)
			}
			if p == "" {
				return core.Failf("DNATo2Bit(%q) did not panic on byte %#x (returned %x)", src, c.Byte, got)
			}
			return core.OK("panics", true)
		})
}

func checkPackPanics(c c13Pack) core.Outcome {
	src := c.Seq.B()
	want, ok := ref.Pack2Bit(src)
	var got []byte
	p := catch(func() { got = sequtil.DNATo2Bit(nil, src) })
	if ok {
		if p != "" || !bytes.Equal(got, want) {
			return core.Failf("DNATo2Bit(%q) = %x (panic %q), want %x", src, got, p, want)
		}
		return core.OK("accepted", true)
	}
	if p == "" {
		return core.Failf("DNATo2Bit(%q) did not panic although it holds bytes outside aAcCgGtT (returned %x)", src, got)
	}
	return core.OK("panics", true)
}

func checkPack(c c13Pack) core.Outcome {
	src := c.Seq.B()
	orig := bytes.Clone(src)
	dst := dstVariants()[c.Dst]
	dstCopy := bytes.Clone(dst)
	want, _ := ref.Pack2Bit(src)
	var got []byte
	if p := catch(func() { got = sequtil.DNATo2Bit(dst, src) }); p != "" {
		return core.Failf("DNATo2Bit(%q) panicked: %s", src, p)
	}
	if len(got) != len(dstCopy)+(len(src)+3)/4 {
		return core.Failf("DNATo2Bit(dst len %d, %q) returned %d bytes, want %d", len(dstCopy), src, len(got), len(dstCopy)+(len(src)+3)/4)
	}
	if !bytes.Equal(got[:len(dstCopy)], dstCopy) || !bytes.Equal(dst, dstCopy) {
		return core.Failf("DNATo2Bit(%q) changed existing dst content: %x -> %x", src, dstCopy, got[:len(dstCopy)])
	}
	if !bytes.Equal(got[len(dstCopy):], want) {
		return core.Failf("DNATo2Bit(dst=%x, %q) appended %x, want %x", dstCopy, trunc(string(src), 80), trunc(string(got[len(dstCopy):]), 80), trunc(string(want), 80))
	}
	if !bytes.Equal(src, orig) {
		return core.Failf("src modified")
	}
	// unpack: upper-case s + 'A' padding, appended to a dst
	dst2 := dstVariants()[(c.Dst+1)%3]
	dst2Copy := bytes.Clone(dst2)
	var un []byte
	if p := catch(func() { un = sequtil.DNAFrom2Bit(dst2, want) }); p != "" {
		return core.Failf("DNAFrom2Bit(%x) panicked: %s", want, p)
	}
	exp := bytes.ToUpper(orig)
	for len(exp)%4 != 0 {
		exp = append(exp, 'A')
	}
	if !bytes.Equal(un, append(bytes.Clone(dst2Copy), exp...)) {
		return core.Failf("DNAFrom2Bit(dst=%q, %x) = %q, want %q", dst2Copy, want, un, append(dst2Copy, exp...))
	}
	return core.Outcome{Class: fmt.Sprint("len%4=", len(src)%4), Nontrivial: len(src) >= 2, Evals: 2}
}
