package props

import (
	"fmt"

	"verif/mc/engine/core"
)

// The first bytes of a stream are where a reader may sniff: byte order marks, compression magic numbers,
// shebangs. In a record format those bytes are the first field of the first record, and the field may
// hold any bytes. Every 2-byte beginning (and the usual longer magic numbers) as the start of the first
// record's first field, written by the real writer and read back, with a second record behind it.

type firstBytesCase struct {
	Prefix core.S `json:"first_field_starts_with"`
}

var magicNumbers = []string{"\xef\xbb\xbf", "\xff\xfe\x00\x00", "\x1f\x8b\x08", "\x28\xb5\x2f\xfd", "BZh9", "\xfd7zXZ\x00", "PK\x03\x04", "\x04\x22\x4d\x18", "\x1f\x9d", "\x1f\xa0", "#!", "%PDF", "\x89PNG", "BAM\x01", "CRAM", "##fileformat", "track ", "browser ", "\x00\x00\x00\x00"}

// firstBytes: build returns the written file and the expected items, or ok=false when the prefix is
// outside the field's domain (delimiters; '#' first in a BED Chrom; '@' first in a SAM Qname).
func firstBytes(r *core.Run, format string, build func(prefix string) (data []byte, want []obsItem, ok bool, fail string)) {
	core.Clause(r, "first-bytes-of-the-stream", core.Opts{Rule: "the first field of the first record starts with every 2-byte string inside the field's domain, and with " + fmt.Sprint(len(magicNumbers)) + " longer magic numbers (byte order marks, gzip, zstd, bzip2, xz, zip, lz4, compress, shebang, PDF, PNG, BAM, CRAM, VCF header, UCSC track/browser): written with the real writer and read back together with a second record; non-trivial = all",
		Bounds: "65 536 two-byte prefixes minus those outside the field's domain, plus the magic numbers"},
		func(emit func(firstBytesCase) bool) {
			for a := 0; a < 256; a++ {
				for b := 0; b < 256; b++ {
					if !emit(firstBytesCase{core.S([]byte{byte(a), byte(b)})}) {
						return
					}
				}
			}
			for _, m := range magicNumbers {
				if !emit(firstBytesCase{core.S(m)}) {
					return
				}
			}
		},
		func(c firstBytesCase) core.Outcome {
			data, want, ok, fail := build(string(c.Prefix))
			if !ok {
				return core.Outcome{Skip: true}
			}
			if fail != "" {
				return core.Failf("first field starting with %q: %s", c.Prefix, fail)
			}
			got, p, over := formatByName(format).Read(&sliceReader{data: data}, len(want)+8)
			if p != "" || over {
				return core.Failf("%s: a file whose first field starts with %q: panic %q / does not end %v", format, c.Prefix, p, over)
			}
			if !sameShape(got, want) {
				return core.Failf("%s: a file whose first record's first field starts with %q (text %q) reads back as %s, written %s", format, c.Prefix, trunc(string(data), 80), trunc(renderObs(got), 300), trunc(renderObs(want), 300))
			}
			return core.Outcome{Class: fmt.Sprint("prefix bytes=", min(len(c.Prefix), 3)), Nontrivial: true, Evals: 2}
		})
}

func hasDelim(s string) bool {
	for i := 0; i < len(s); i++ {
		if s[i] == '\t' || s[i] == '\n' || s[i] == '\r' {
			return true
		}
	}
	return false
}
