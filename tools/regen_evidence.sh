#!/bin/bash
# Re-runs every quick check on the current (unchanged) tree so that /verif/evidence is fresh.
cd "$(dirname "$0")/.."
fail=0
for i in $(seq -w 1 20); do
  out=$(./run.sh C$i quick 2>&1); rc=$?
  echo "C$i rc=$rc $(echo "$out" | grep '^property' | cut -c1-150)"
  [ $rc -eq 0 ] || { fail=1; echo "$out" | tail -5; }
done
python3-vt tools/validate_evidence.py | grep -v '^ok'
exit $fail
