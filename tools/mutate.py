#!/usr/bin/env python3
"""Systematic single-site mutation of biostuff's source (operators, constants, conditions, statements).
For every mutant: biostuff's own tests must still pass (otherwise it is not a change the suite accepts),
then the mapped quick checks are run through an -overlay build until one reports a VIOLATION.
usage: mutate.py [file-substring] [--limit N]      results -> mutants/systematic/results.tsv"""
import re, os, sys, json, subprocess, tempfile, shutil, hashlib, time
ROOT=os.path.dirname(os.path.dirname(os.path.abspath(__file__))); REPO='/repo'
ENV=dict(os.environ, GOFLAGS='-mod=mod', GOPROXY='off', GOSUMDB='off', GOTOOLCHAIN='local', GOCACHE=ROOT+'/.cache/go-build')
MAP={
 'formats/fasta/fasta.go':['C01','C11','C06','C07','C18'], 'formats/fasta/iter.go':['C18','C07','C06','C01'],
 'formats/fastq/fastq.go':['C02','C11','C06','C07','C18'], 'formats/fastq/iter.go':['C18','C07','C06','C02'],
 'formats/sam/sam.go':['C03','C11','C07'], 'formats/sam/iter.go':['C03','C18','C11','C07','C06'], 'formats/sam/tags.go':['C03','C11'], 'formats/sam/flag.go':['C03'],
 'formats/bed/bed.go':['C04','C11','C07','C06','C18'], 'formats/bed/iter.go':['C18','C06','C07','C04'],
 'formats/newick/newick.go':['C05','C11','C18','C06','C07'], 'formats/newick/traverse.go':['C19','C18'],
 'formats/smtext/smtext.go':['C20','C11'],
 'align/align.go':['C20','C08','C09'], 'align/global.go':['C08','C09','C10'], 'align/local.go':['C08','C09','C10'], 'align/levenshtein.go':['C09'],
 'regions/regions.go':['C16'], 'mash/mash.go':['C17'], 'sequtil/sequtil.go':['C12','C13','C17','C18'], 'sequtil/amino.go':['C14'], 'trie/trie.go':['C15','C18'],
}
SWAPS=[(r'<=','<'),(r'>=','>'),(r'(?<![<>=!:])==','!='),(r'!=','=='),(r'(?<![<\-])<(?![=<\-])','<='),(r'(?<![>\-=])>(?![=>])','>='),
       (r'&&','||'),(r'\|\|','&&'),(r'(?<![+\w"\']) ?\+ ?(?![+=])',' - '),(r'(?<=[\w)\]]) - (?=[\w(])',' + '),(r'\btrue\b','false'),(r'\bfalse\b','true'),
       (r'\+\+','--'),(r'\+=','-='),(r'-=','+='),(r'\bbreak\b','continue'),(r'\bcontinue\b','break'),(r'!(?=[\w(])','')]
def strip_strings(line):
    # blank out string/rune literals and comments so that operators inside them are not mutated
    out=[]; i=0; n=len(line)
    while i<n:
        c=line[i]
        if line.startswith('//',i): out.append(' '*(n-i)); break
        if c in '"`\'':
            q=c; j=i+1
            while j<n and line[j]!=q:
                if line[j]=='\\' and q!='`': j+=1
                j+=1
            out.append(' '*(min(j,n-1)-i+1)); i=j+1; continue
        out.append(c); i+=1
    return ''.join(out)
def mutants_of(path):
    src=open(os.path.join(REPO,path)).read().split('\n')
    res=[]; in_import=False
    for ln,line in enumerate(src):
        s=line.strip()
        if s.startswith('import ('): in_import=True
        if in_import:
            if s==')': in_import=False
            continue
        if not s or s.startswith('//') or s.startswith('package ') or s.startswith('import '): continue
        masked=strip_strings(line)
        for pat,rep in SWAPS:
            for m in re.finditer(pat,masked):
                new=line[:m.start()]+rep+line[m.end():]
                if new!=line: res.append((ln,'%s->%s@%d'%(pat,rep,m.start()),new))
        for m in re.finditer(r'(?<![\w.])(\d+)(?![\w.])',masked):
            v=int(m.group(1))
            for nv in ({v+1,max(v-1,0)}-{v}):
                res.append((ln,'const %d->%d@%d'%(v,nv,m.start()),line[:m.start()]+str(nv)+line[m.end():]))
        # statement deletion for simple assignment / call statements
        if re.match(r'^\s*[\w.\[\]]+(\.\w+)*\s*(=|\+=|-=|\|=|&=)\s*[^=].*$',masked) and not s.endswith('{') and ':=' not in masked:
            res.append((ln,'delete-stmt',re.match(r'^\s*',line).group(0)+'_ = 0'))
        if re.match(r'^\s*(delete|copy)\(.*\)\s*$',masked) or re.match(r'^\s*[\w.]+\.(Sort|Reset|UnreadByte|Close)\(\)\s*$',masked):
            res.append((ln,'delete-call',re.match(r'^\s*',line).group(0)+'_ = 0'))
    return src,res
def run(cmd,cwd=None,env=ENV,timeout=900):
    try:
        p=subprocess.run(cmd,cwd=cwd,env=env,capture_output=True,text=True,timeout=timeout,errors='replace')
        return p.returncode,p.stdout+p.stderr
    except subprocess.TimeoutExpired as e:
        return 124,'timeout'
def main():
    pat=sys.argv[1] if len(sys.argv)>1 and not sys.argv[1].startswith('--') else ''
    limit=int(sys.argv[sys.argv.index('--limit')+1]) if '--limit' in sys.argv else 10**9
    outdir=ROOT+'/mutants/systematic'; os.makedirs(outdir,exist_ok=True)
    done=set()
    resf=outdir+'/results.tsv'
    if os.path.exists(resf):
        for l in open(resf):
            done.add(l.split('\t')[0])
    out=open(resf,'a')
    n=0
    for path in sorted(MAP):
        if pat not in path: continue
        src,muts=mutants_of(path)
        for ln,kind,newline in muts:
            mid='%s:%d:%s'%(path,ln+1,kind)
            if mid in done: continue
            if n>=limit: return
            n+=1
            S=tempfile.mkdtemp(prefix='verif-sysmut.',dir='/tmp')
            try:
                mf=os.path.join(S,os.path.basename(path))
                m=list(src); m[ln]=newline
                open(mf,'w').write('\n'.join(m))
                ov=os.path.join(S,'overlay.json'); json.dump({'Replace':{os.path.join(REPO,path):mf}},open(ov,'w'))
                rc,o=run(['go','test','-overlay',ov,'-vet=off','-count=1','./...'],cwd=REPO,timeout=300)
                if rc!=0:
                    status='killed-by-own-tests' if 'FAIL' in o and 'build failed' not in o and 'cannot use' not in o and 'undefined' not in o and 'declared and not used' not in o and 'syntax error' not in o else 'does-not-compile'
                    if 'panic: test timed out' in o or rc==124: status='killed-by-own-tests(timeout)'
                    out.write('%s\t%s\t\t%s\n'%(mid,status,newline.strip())); out.flush(); continue
                status='SURVIVED'; by=''
                for chk in MAP[path]:
                    env=dict(ENV,VERIF_OVERLAY=ov,VERIF_EVIDENCE_DIR=os.path.join(S,'ev'))
                    rc,o=run([ROOT+'/run.sh',chk,'quick'],env=env,timeout=1200)
                    if rc==1 and 'VIOLATION' in o:
                        status='detected'; by=chk; break
                    if rc not in (0,1):
                        status='check-error(rc=%d)'%rc; by=chk; break
                out.write('%s\t%s\t%s\t%s\n'%(mid,status,by,newline.strip())); out.flush()
                print(mid,status,by,flush=True)
            finally:
                shutil.rmtree(S,ignore_errors=True)
main()
