package props

import (
	"bytes"
	"fmt"
	"io"
	"strings"

	"github.com/fluhus/biostuff/formats/fasta"

	"verif/mc/engine/core"
	"verif/mc/engine/enum"
)

func init() { register("C01", "exploration", runC01) }

type faRec struct {
	Name core.S `json:"name"`
	Seq  core.S `json:"seq"`
}

type c01List struct {
	Recs []faRec `json:"records"`
}

// c01Mark: one long field (all 'n' / a repeating ACGT pattern) with ONE marked byte at one offset.
type c01Mark struct {
	Field  string `json:"field"` // "name" | "seq" (sequence on one line) | "seq-written" (as Write wraps it)
	Len    int    `json:"field_len"`
	Offset int    `json:"offset"`
	Byte   int    `json:"byte"`
}

type c01Len struct {
	Len    int    `json:"seq_len"`
	Layout string `json:"layout"` // "written" (as produced by Write) or "w<width>" (re-wrapped at that width) each optionally +crlf, +nofinal
}

// c01Layout describes one re-layout of a record list: for each record the line lengths of its
// sequence, whether a blank line follows each line (except the last line of the file), the
// terminator, and whether the final newline is kept.
type c01Layout struct {
	Recs   []faRec `json:"records"`
	Parts  [][]int `json:"line_lengths"` // per record
	Blank  []bool  `json:"blank_after"`  // per line of the file except the last
	Term   []int   `json:"terminators"`  // per line: 0 = LF, 1 = CRLF (a single element applies to every line)
	NoTail bool    `json:"omit_final_newline"`
}

// fastaText is the literal text model of the writer.
func fastaText(name, seq []byte) []byte {
	var sb bytes.Buffer
	sb.WriteString(">")
	sb.Write(name)
	sb.WriteString("\n")
	for i := 0; i < len(seq); i += 80 {
		sb.Write(seq[i:min(i+80, len(seq))])
		sb.WriteString("\n")
	}
	return sb.Bytes()
}

// fastaShape checks what the statement says about the written form and nothing more: a '>'+name
// line, then sequence lines of at most 80 characters whose concatenation is the sequence, every
// line terminated by LF.
func fastaShape(out, name, seq []byte) string {
	if len(out) == 0 || out[len(out)-1] != '\n' {
		return "output does not end with a line break"
	}
	lines := bytes.Split(out[:len(out)-1], []byte("\n"))
	if !bytes.Equal(lines[0], append([]byte(">"), name...)) {
		return fmt.Sprintf("first line is %q, want '>' followed by the name", trunc(string(lines[0]), 60))
	}
	var cat []byte
	for i, l := range lines[1:] {
		if len(l) > 80 {
			return fmt.Sprintf("sequence line %d has %d characters (more than 80)", i+1, len(l))
		}
		cat = append(cat, l...)
	}
	if !bytes.Equal(cat, seq) {
		return "the sequence lines do not concatenate to the sequence"
	}
	return ""
}

func longSeq(n int) []byte {
	s := make([]byte, n)
	for i := range s {
		s[i] = "ACGT"[(i+i/80)%4]
	}
	return s
}

func readFastaAll(data []byte) ([]obsItem, string) {
	items, p, over := collect2(fasta.Reader(bytes.NewReader(data)), renderFasta, 1<<20)
	if over {
		p = "iterator did not end"
	}
	return items, p
}

func wantFasta(recs []faRec) []obsItem {
	out := make([]obsItem, len(recs))
	for i, r := range recs {
		out[i] = obsItem{Rec: renderFasta(&fasta.Fasta{Name: r.Name.B(), Sequence: r.Seq.B()})}
	}
	return out
}

// writeFastaChecked writes the records with Write, checks MarshalText == Write == text model.
func writeFastaChecked(recs []faRec) ([]byte, string) {
	var file bytes.Buffer
	for _, r := range recs {
		f := &fasta.Fasta{Name: r.Name.B(), Sequence: r.Seq.B()}
		var w bytes.Buffer
		var werr error
		var mt []byte
		var merr error
		if p := catch(func() { werr = f.Write(&w); mt, merr = f.MarshalText() }); p != "" {
			return nil, fmt.Sprintf("Write/MarshalText panicked for a record with name %q and a sequence of %d bytes: %s", trunc(string(r.Name), 40), len(r.Seq), p)
		}
		if werr != nil || merr != nil {
			return nil, fmt.Sprintf("Write/MarshalText returned an error: %v %v", werr, merr)
		}
		if !bytes.Equal(w.Bytes(), mt) {
			return nil, fmt.Sprintf("MarshalText and Write differ for a sequence of %d bytes: %q vs %q", len(r.Seq), trunc(string(mt), 200), trunc(w.String(), 200))
		}
		if fail := fastaShape(w.Bytes(), r.Name.B(), r.Seq.B()); fail != "" {
			return nil, fmt.Sprintf("Write output for name %q, sequence of %d bytes: %s; output %q", trunc(string(r.Name), 40), len(r.Seq), fail, trunc(w.String(), 300))
		}
		if string(f.Name) != string(r.Name) || string(f.Sequence) != string(r.Seq) {
			return nil, "Write modified the record"
		}
		file.Write(w.Bytes())
	}
	return file.Bytes(), ""
}

func trunc(s string, n int) string {
	if len(s) <= n {
		return s
	}
	return s[:n] + fmt.Sprintf("…(+%d)", len(s)-n)
}

func checkFastaRead(data []byte, recs []faRec, what string) core.Outcome {
	got, p := readFastaAll(data)
	if p != "" {
		return core.Failf("%s: Reader panicked/hung on %q: %s", what, trunc(string(data), 200), p)
	}
	want := wantFasta(recs)
	if !sameShape(got, want) || len(got) != len(want) {
		return core.Failf("%s: text %q decodes to %s, want %s", what, trunc(string(data), 300), trunc(renderObs(got), 400), trunc(renderObs(want), 400))
	}
	for _, g := range got {
		if g.IsErr() {
			return core.Failf("%s: error item %s", what, g.Err)
		}
	}
	return core.Outcome{}
}

func faPool(names, seqs []string) []faRec {
	var out []faRec
	for _, n := range names {
		for _, s := range seqs {
			out = append(out, faRec{core.S(n), core.S(s)})
		}
	}
	return out
}

func runC01(r *core.Run) {
	defer everyLength(r)
	racePass(r, "race-format-fasta", "the fasta codec: readers each on their own stream (whole and in 7-byte reads, every corpus file), Write on shared records into separate destinations, File on one shared path; every result is compared with what the same call returned when it ran alone")
	firstCallClause(r, "fasta.")
	pool := faPool(enum.AllStrings("a>", 2), enum.AllStrings("AC", 3))
	maxRecs := core.Pick(r, 2, 3)
	r.Bound("content", fmt.Sprintf("names over {a,>}^<=2, sequences over {A,C}^<=3 (%d records); every list of 0..%d records", len(pool), maxRecs))
	core.Clause(r, "content-roundtrip", core.Opts{Rule: "every list of records from the pool written with Write (checked against MarshalText and the literal text model) and read back; non-trivial = at least one record"},
		func(emit func(c01List) bool) {
			enum.Sequences(len(pool), maxRecs, func(sq []int) bool {
				l := c01List{make([]faRec, len(sq))}
				for i, x := range sq {
					l.Recs[i] = pool[x]
				}
				return emit(l)
			})
		},
		func(c c01List) core.Outcome {
			data, fail := writeFastaChecked(c.Recs)
			if fail != "" {
				return core.Failf("%s", fail)
			}
			if out := checkFastaRead(data, c.Recs, "write->read"); out.Fail != "" {
				return out
			}
			return core.Outcome{Class: fmt.Sprint("records=", len(c.Recs)), Nontrivial: len(c.Recs) > 0, Evals: 2*len(c.Recs) + 1}
		})

	core.Clause(r, "all-bytes", core.Opts{Rule: "every byte value except CR, LF in the name and (except '>') in the sequence: alone, first, in the middle, last; as single record and as second of two records; plus multi-byte UTF-8 names/sequences (incl. U+2028, U+0085, BOM) and format vocabulary (';', '>' in names); non-trivial = all"},
		func(emit func(c01List) bool) {
			for _, v := range []string{"é", "\xc5\x81", "日本", "\xe2\x80\xa8", "\xc2\x85", "\xef\xbb\xbfx", "a\xc2\xa0b", ";comment", "a;b", ">x"} {
				emit(c01List{[]faRec{{core.S(v), "ACGT"}}})
				if !strings.Contains(v, ">") {
					emit(c01List{[]faRec{{"first", "AC"}, {"n", core.S(v)}, {"last", core.S(v + v)}}})
				}
			}
			for b := 0; b < 256; b++ {
				if b == '\r' || b == '\n' {
					continue
				}
				for _, v := range []string{string([]byte{byte(b)}), string([]byte{byte(b), 'a'}), string([]byte{'a', byte(b), 'c'}), string([]byte{'a', byte(b)})} {
					recs := []faRec{{core.S(v), "ACGT"}}
					if b != '>' {
						recs = append(recs, faRec{"n", core.S(v)})
					}
					for _, rc := range recs {
						if !emit(c01List{[]faRec{rc}}) || !emit(c01List{[]faRec{{"first", "AC"}, rc}}) {
							return
						}
					}
				}
			}
		},
		func(c c01List) core.Outcome {
			data, fail := writeFastaChecked(c.Recs)
			if fail != "" {
				return core.Failf("%s", fail)
			}
			if out := checkFastaRead(data, c.Recs, "write->read"); out.Fail != "" {
				return out
			}
			return core.Outcome{Class: "ok", Nontrivial: true, Evals: 2*len(c.Recs) + 1}
		})

	var lens []int
	for l := 0; l <= 400; l++ {
		lens = append(lens, l)
	}
	lens = append(lens, 4095, 4096, 4097, 8000, 65535, 65536, 65537, 80000, 200001)
	if r.Thorough() {
		for l := 401; l <= 6000; l++ {
			lens = append(lens, l)
		}
		lens = append(lens, 1<<20, 1<<20+1, 3<<20)
	}
	r.Bound("lengths", fmt.Sprintf("every length 0..%d plus 4095..4097, 8000, 65535..65537, 80000, 200001%s; layouts: as written, re-wrapped at width 1, 79, 80, 81, single line; each LF/CRLF and with/without final newline", core.Pick(r, 400, 6000), core.Pick(r, "", ", 1 MiB, 1 MiB+1, 3 MiB")))
	core.Clause(r, "lengths", core.Opts{Rule: "one record with position-dependent content of every listed length, in every listed layout; non-trivial = length >= 2"},
		func(emit func(c01Len) bool) {
			for _, l := range lens {
				for _, lay := range []string{"written", "w1", "w79", "w80", "w81", "w0"} {
					if lay == "w1" && l > 100000 {
						continue
					}
					for _, suf := range []string{"", "+crlf", "+nofinal", "+crlf+nofinal"} {
						if lay == "written" && suf != "" {
							continue
						}
						if !emit(c01Len{l, lay + suf}) {
							return
						}
					}
				}
			}
		},
		func(c c01Len) core.Outcome {
			seq := longSeq(c.Len)
			recs := []faRec{{core.S("seq1 description"), core.S(seq)}}
			var data []byte
			if strings.HasPrefix(c.Layout, "written") {
				var fail string
				data, fail = writeFastaChecked(recs)
				if fail != "" {
					return core.Failf("%s", fail)
				}
			} else {
				var w int
				fmt.Sscanf(c.Layout, "w%d", &w)
				if w == 0 {
					w = max(c.Len, 1)
				}
				term := "\n"
				if strings.Contains(c.Layout, "+crlf") {
					term = "\r\n"
				}
				var sb bytes.Buffer
				sb.WriteString(">seq1 description" + term)
				for i := 0; i < len(seq); i += w {
					sb.Write(seq[i:min(i+w, len(seq))])
					sb.WriteString(term)
				}
				data = sb.Bytes()
				if strings.Contains(c.Layout, "+nofinal") {
					data = data[:len(data)-len(term)]
				}
			}
			if out := checkFastaRead(data, recs, "length "+fmt.Sprint(c.Len)+" layout "+c.Layout); out.Fail != "" {
				return out
			}
			return core.Outcome{Class: fmt.Sprint("len%80=", min(c.Len%80, 2), " ", c.Layout), Nontrivial: c.Len >= 2, Evals: 2}
		})

	r.Bound("lengths-by-content", "sequence (and name) of every length 0..400, 4095..4097, 65535..65537 made of each content class (2-byte UTF-8, mixed 1-4-byte UTF-8 incl. U+2028 and BOM, invalid high bytes, percent verbs, quotes/backslashes, UTF-8 cut mid-rune)")
	core.Clause(r, "lengths-by-content", core.Opts{Rule: "content class x length: the record is written (lines of at most 80 BYTES, MarshalText == Write) and read back, a second record follows; non-trivial = length >= 2"},
		func(emit func(c01Len) bool) {
			var ls []int
			for l := 0; l <= 400; l++ {
				ls = append(ls, l)
			}
			ls = append(ls, 4095, 4096, 4097, 65535, 65536, 65537)
			for _, cl := range contentClassNames {
				for _, l := range ls {
					if !emit(c01Len{l, cl}) {
						return
					}
				}
			}
		},
		func(c c01Len) core.Outcome {
			seq := contentOf(c.Layout, c.Len, "\r\n>")
			name := contentOf(c.Layout, min(c.Len, 300), "\r\n")
			recs := []faRec{{core.S(name), core.S(seq)}, {"second", "GG"}}
			data, fail := writeFastaChecked(recs)
			if fail != "" {
				return core.Failf("content class %s: %s", c.Layout, fail)
			}
			if out := checkFastaRead(data, recs, fmt.Sprintf("content class %s, length %d", c.Layout, c.Len)); out.Fail != "" {
				return out
			}
			return core.Outcome{Class: c.Layout, Nontrivial: c.Len >= 2, Evals: 3}
		})

	nilFieldsFasta(r)
	firstBytes(r, "fasta", func(prefix string) ([]byte, []obsItem, bool, string) {
		if hasDelim(prefix) {
			return nil, nil, false, ""
		}
		recs := []faRec{{core.S(prefix + "x"), "AC"}, {"b", "G"}}
		data, fail := writeFastaChecked(recs)
		return data, wantFasta(recs), true, fail
	})
	fastaFields := func(field string, vals []string) ([]byte, []obsItem, bool, string) {
		recs := []faRec{{"first", "AC"}}
		for i, v := range vals {
			if hasDelim(v) || (field == "seq" && strings.Contains(v, ">")) {
				return nil, nil, false, ""
			}
			rec := faRec{core.S(fmt.Sprint("n", i)), "ACGT"}
			if field == "name" {
				rec.Name = core.S(v)
			} else {
				rec.Seq = core.S(v)
			}
			recs = append(recs, rec)
		}
		recs = append(recs, faRec{"last", "G"})
		data, fail := writeFastaChecked(recs)
		return data, wantFasta(recs), true, fail
	}
	escapeSpellingsClause(r, "fasta", []string{"name", "seq"}, fastaFields)
	relativesClause(r, "fasta", []string{"name", "seq"}, fastaFields)
	interleavedReadersFor(r, []string{"fasta"})
	consumerMutatesRecords(r, []string{"fasta"})
	bigFiles(r, "fasta", []int{0})

	r.Bound("marked-offsets", "a long name or sequence (8300 bytes: every offset; 70000 bytes: offsets 0..3, 4090..4100, 65530..65540, last 3) with ONE byte of the format's vocabulary ('>', ';' quick; thorough also ' ', TAB, '@', '+', 0x00, 0xFF) at that offset; followed by a second record")
	core.Clause(r, "marked-offsets", core.Opts{Rule: "a format-vocabulary byte at EVERY offset of a long name (names may hold '>') and of a long sequence (never '>'), so that it meets every internal buffer boundary of the reader; written with Write, read back, second record must follow unshifted; non-trivial = all"},
		func(emit func(c01Mark) bool) {
			vocab := []int{'>', ';'}
			if r.Thorough() {
				vocab = append(vocab, ' ', '\t', '@', '+', 0x00, 0xFF)
			}
			for _, field := range []string{"name", "seq", "seq-written"} {
				for _, v := range vocab {
					if v == '>' && field != "name" {
						continue
					}
					for off := 0; off < 8300; off++ {
						if !emit(c01Mark{field, 8300, off, v}) {
							return
						}
					}
					for _, off := range []int{0, 1, 2, 3, 4090, 4091, 4092, 4093, 4094, 4095, 4096, 4097, 4098, 4099, 4100, 65530, 65531, 65532, 65533, 65534, 65535, 65536, 65537, 65538, 65539, 65540, 69997, 69998, 69999} {
						if !emit(c01Mark{field, 70000, off, v}) {
							return
						}
					}
				}
			}
		},
		func(c c01Mark) core.Outcome {
			name, seq := []byte("seq1"), []byte("ACGT")
			if c.Field == "name" {
				name = bytes.Repeat([]byte{'n'}, c.Len)
				name[c.Offset] = byte(c.Byte)
			} else {
				seq = longSeq(c.Len)
				seq[c.Offset] = byte(c.Byte)
			}
			recs := []faRec{{core.S(name), core.S(seq)}, {"second", "GG"}}
			var data []byte
			if c.Field == "seq" {
				data = []byte(">" + string(name) + "\n" + string(seq) + "\n>second\nGG\n")
			} else {
				var fail string
				data, fail = writeFastaChecked(recs)
				if fail != "" {
					return core.Failf("%s", fail)
				}
			}
			if out := checkFastaRead(data, recs, fmt.Sprintf("%s of %d bytes with %q at offset %d", c.Field, c.Len, byte(c.Byte), c.Offset)); out.Fail != "" {
				return out
			}
			return core.Outcome{Class: c.Field, Nontrivial: true, Evals: 2}
		})

	core.Clause(r, "caller-memory", core.Opts{Rule: "Name and Sequence given as adjacent sub-slices of ONE backing buffer (with and without spare capacity behind them, in both orders): Write and MarshalText must leave the record's own bytes untouched and the round trip must hold; every pair of lengths 0..4 x 4 layouts; non-trivial = all"},
		func(emit func(c01Len) bool) {
			for nl := 0; nl <= 4; nl++ {
				for sl := 0; sl <= 4; sl++ {
					for _, lay := range []string{"name-then-seq", "seq-then-name", "name-then-seq+spare", "seq-then-name+spare"} {
						emit(c01Len{nl*10 + sl, lay})
					}
				}
			}
		},
		func(c c01Len) core.Outcome {
			nl, sl := c.Len/10, c.Len%10
			buf := []byte("NAMESEQUENCE-spare-bytes-follow-here")
			var name, seq []byte
			if strings.HasPrefix(c.Layout, "name-then-seq") {
				name, seq = buf[:nl], buf[nl:nl+sl]
			} else {
				seq, name = buf[:sl], buf[sl:sl+nl]
			}
			if !strings.HasSuffix(c.Layout, "+spare") {
				name, seq = name[:len(name):len(name)], seq[:len(seq):len(seq)]
			}
			before := bytes.Clone(buf)
			wantName, wantSeq := bytes.Clone(name), bytes.Clone(seq)
			f := &fasta.Fasta{Name: name, Sequence: seq}
			var w bytes.Buffer
			if p := catch(func() { f.Write(&w); f.MarshalText() }); p != "" {
				return core.Failf("panic: %s", p)
			}
			_ = before
			if !bytes.Equal(name, wantName) || !bytes.Equal(seq, wantSeq) {
				// only the record's own bytes are judged; spare capacity behind a field that nothing else uses is the callee's to scribble on
				return core.Failf("Write/MarshalText modified the record: name %q -> %q, sequence %q -> %q (fields share one buffer, layout %s)", wantName, name, wantSeq, seq, c.Layout)
			}
			if out := checkFastaRead(w.Bytes(), []faRec{{core.S(wantName), core.S(wantSeq)}}, "write->read with fields sharing a buffer"); out.Fail != "" {
				return out
			}
			return core.Outcome{Class: c.Layout, Nontrivial: true, Evals: 3}
		})

	marshalHistories(r, "fasta", func() []marshaller {
		var out []marshaller
		for _, rc := range []faRec{{"a", "ACGT"}, {"", ""}, {"longer name", core.S(longSeq(170))}, {">", "A"}, {"b", core.S(longSeq(80))}, {"c c", core.S(longSeq(81))}} {
			f := &fasta.Fasta{Name: rc.Name.B(), Sequence: rc.Seq.B()}
			out = append(out, marshaller{fmt.Sprintf("{%q, %d bases}", rc.Name, len(rc.Seq)), f.MarshalText, func(w *bytes.Buffer) error { return f.Write(w) }, func(w io.Writer) error { return f.Write(w) }})
		}
		return out
	})

	lpool := faPool([]string{"", "a", ">"}, enum.AllStrings("AC", 3))
	lmax := 2
	r.Bound("layouts", fmt.Sprintf("every list of 0..%d records over names {'',a,>} x sequences {A,C}^<=3; every composition of every sequence into lines x every subset of blank lines between lines x {LF, CRLF}%s x final newline kept/omitted", lmax, core.Pick(r, "", " (thorough: every per-line LF/CRLF assignment for lists of <= 1 record)")))
	core.Clause(r, "layouts", core.Opts{Rule: "all line layouts of the same content (see bounds); the decode must equal the records; non-trivial = at least one sequence of length >= 2 or a blank line"},
		func(emit func(c01Layout) bool) {
			enum.Sequences(len(lpool), lmax, func(sq []int) bool {
				recs := make([]faRec, len(sq))
				for i, x := range sq {
					recs[i] = lpool[x]
				}
				if len(recs) == 0 {
					return emit(c01Layout{Recs: recs, Term: []int{0}})
				}
				// all combinations of compositions
				var comps [][][]int
				for _, rc := range recs {
					var cs [][]int
					enum.Compositions(len(rc.Seq), func(p []int) bool { cs = append(cs, append([]int(nil), p...)); return true })
					comps = append(comps, cs)
				}
				sizes := make([]int, len(comps))
				for i := range comps {
					sizes[i] = len(comps[i])
				}
				return enum.Tuples(sizes, func(t []int) bool {
					parts := make([][]int, len(recs))
					nlines := 0
					for i := range recs {
						parts[i] = comps[i][t[i]]
						nlines += 1 + len(parts[i])
					}
					for bm := 0; bm < 1<<(nlines-1); bm++ {
						blank := make([]bool, nlines-1)
						for j := range blank {
							blank[j] = bm>>j&1 == 1
						}
						var terms [][]int
						if r.Thorough() && len(recs) <= 1 {
							for tm := 0; tm < 1<<nlines; tm++ {
								tt := make([]int, nlines)
								for j := range tt {
									tt[j] = tm >> j & 1
								}
								terms = append(terms, tt)
							}
						} else {
							terms = [][]int{{0}, {1}}
						}
						for _, tt := range terms {
							for _, nt := range []bool{false, true} {
								if !emit(c01Layout{recs, parts, blank, tt, nt}) {
									return false
								}
							}
						}
					}
					return true
				})
			})
		},
		func(c c01Layout) core.Outcome {
			term := func(line int) string {
				t := c.Term[0]
				if len(c.Term) > 1 {
					t = c.Term[line]
				}
				if t == 1 {
					return "\r\n"
				}
				return "\n"
			}
			var sb bytes.Buffer
			line := 0
			total := 0
			for _, p := range c.Parts {
				total += 1 + len(p)
			}
			emitLine := func(content []byte) {
				sb.Write(content)
				last := line == total-1
				if !(last && c.NoTail) {
					sb.WriteString(term(line))
				}
				if !last && c.Blank[line] {
					sb.WriteString(term(line))
				}
				line++
			}
			nontrivial := false
			for i, rc := range c.Recs {
				emitLine(append([]byte(">"), rc.Name.B()...))
				off := 0
				for _, l := range c.Parts[i] {
					emitLine(rc.Seq.B()[off : off+l])
					off += l
				}
				if len(rc.Seq) >= 2 {
					nontrivial = true
				}
			}
			for _, b := range c.Blank {
				nontrivial = nontrivial || b
			}
			if out := checkFastaRead(sb.Bytes(), c.Recs, "layout"); out.Fail != "" {
				return out
			}
			return core.Outcome{Class: fmt.Sprint("records=", len(c.Recs), " crlf=", c.Term[0], " notail=", c.NoTail), Nontrivial: nontrivial}
		})
}
