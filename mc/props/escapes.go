package props

import (
	"fmt"
	"strings"

	"verif/mc/engine/core"
)

// A text field may hold any bytes except the format's delimiters, so it may hold text that LOOKS like
// an encoded delimiter in some other convention: percent-encoding, backslash escapes, HTML entities,
// quoted-printable, caret notation, fmt verbs, template markers, invisible characters. A codec that
// encodes or decodes any of these is not the identity on them. Every spelling, in every text field of
// the format, alone and embedded, written with the real writer and read back with a record behind it.

type escapeCase struct {
	Field string `json:"field"`
	Value core.S `json:"value"`
}

var escapeSpellings = []string{
	// percent-encoding and fmt verbs
	"%09", "%0A", "%0D", "%0a", "%0d", "%25", "%20", "%00", "%3E", "%40", "%2C", "%3B", "%27", "%", "%%", "%s", "%v", "%d", "%q", "%x", "%c", "%5d", "%!", "%!v(MISSING)", "%!(EXTRA string=x)",
	// backslash conventions
	`\t`, `\n`, `\r`, `\\`, `\`, `\0`, `\x09`, `\x0a`, `\x0A`, `\u0009`, `\U0000000A`, `\011`, `\012`, `\'`, `\"`, `\a`, `\e`, `\N`, `\s`, `\1`, `\E`, `\Q`, `\ `, `\,`, `\;`, `\:`, `\(`, `\>`, `\@`,
	// entities, quoted-printable, caret notation, shell, templates
	"&#9;", "&#10;", "&#13;", "&#x9;", "&#xA;", "&amp;", "&lt;", "&gt;", "&quot;", "&apos;", "&nbsp;", "&", "=09", "=0A", "=0D", "=3D", "=", "==", "^I", "^J", "^M", "^@", "^", "+", "+++", "$'\\t'", "${x}", "$(x)", "$1", "$", "$$", "{{", "}}", "{0}", "{}", "{{.}}", "<tab>", "<br>", "0x09", "U+0009", "~", "~0", "~1",
	// quotes
	"''", `""`, "``", "'", `"`, "`", `'a'`, `"a"`, `a''b`, `a""b`,
	// invisible and special characters, raw
	"\u2409", "\u240a", "\u00a0", "\u2028", "\u2029", "\ufeff", "\u200b", "\u200d", "\u00ad", "\ufffd", "\x1b[0m", "\x7f", "\x00", "\x1a", "\x0b", "\x0c", "\x08", "\x85", "\xc2\x85", "\xff", "\xfe\xff", "\xc0\x80", "\xed\xa0\x80",
}

func escapeForms(sp string) []string {
	return []string{sp, "a" + sp + "b", sp + sp, "a" + sp, sp + "b"}
}

// escapeSpellingsClause: build returns the written file and the expected items for the given field
// holding value (with a further record behind it), or ok=false if the value is outside that field's domain.
func escapeSpellingsClause(r *core.Run, format string, fields []string, build func(field, value string) (data []byte, want []obsItem, ok bool, fail string)) {
	core.Clause(r, "escape-spellings-as-data", core.Opts{Rule: "every text field holds text that looks like an encoded delimiter or control sequence in some other convention (" + fmt.Sprint(len(escapeSpellings)) + " spellings: percent-encoding, fmt verbs, backslash escapes, HTML entities, quoted-printable, caret notation, shell and template markers, quotes, invisible and ill-formed characters), alone, doubled and between letters: written with the real writer and read back unchanged, the next record included; non-trivial = all",
		Bounds: fmt.Sprintf("%d spellings x 5 embeddings x fields %s, minus values outside a field's domain", len(escapeSpellings), strings.Join(fields, ", "))},
		func(emit func(escapeCase) bool) {
			for _, f := range fields {
				for _, sp := range escapeSpellings {
					for _, v := range escapeForms(sp) {
						if !emit(escapeCase{f, core.S(v)}) {
							return
						}
					}
				}
			}
		},
		func(c escapeCase) core.Outcome {
			data, want, ok, fail := build(c.Field, string(c.Value))
			if !ok {
				return core.Outcome{Skip: true}
			}
			if fail != "" {
				return core.Failf("%s %s = %q: %s", format, c.Field, c.Value, fail)
			}
			got, p, over := formatByName(format).Read(&sliceReader{data: data}, len(want)+8)
			if p != "" || over {
				return core.Failf("%s: %s = %q: panic %q / does not end %v", format, c.Field, c.Value, p, over)
			}
			if !sameShape(got, want) {
				return core.Failf("%s: a record whose %s is %q (text %q) reads back as %s, written %s", format, c.Field, c.Value, trunc(string(data), 120), trunc(renderObs(got), 300), trunc(renderObs(want), 300))
			}
			return core.Outcome{Class: c.Field, Nontrivial: true, Evals: 2}
		})
}
