#!/usr/bin/env python3
"""mkmutant.py <name> <file> <old> <new> [<file> <old> <new> ...]  -> mutants/<name>.patch (unified diff vs /repo)"""
import sys, subprocess, tempfile, os, shutil
name = sys.argv[1]; trip = sys.argv[2:]
out = []
files = {}
for i in range(0, len(trip), 3):
    f, old, new = trip[i:i+3]
    s = files.get(f) or open('/repo/' + f).read()
    if s.count(old) != 1:
        sys.exit("pattern occurs %d times in %s: %r" % (s.count(old), f, old))
    files[f] = s.replace(old, new)
for f, s in files.items():
    with tempfile.NamedTemporaryFile('w', delete=False) as t:
        t.write(s)
    d = subprocess.run(['diff', '-u', '--label', 'a/' + f, '--label', 'b/' + f, '/repo/' + f, t.name], capture_output=True, text=True).stdout
    os.unlink(t.name)
    out.append(d)
dest = os.path.join(os.path.dirname(os.path.dirname(os.path.abspath(__file__))), 'mutants', name + '.patch')
open(dest, 'w').write(''.join(out))
print("wrote", dest)
