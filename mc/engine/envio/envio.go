// Package envio provides the controlled environment built on engine E1: an io.Reader whose
// every answer is a choice point, an io.Reader that fails according to a fault plan, and an
// io.Writer that starts failing after a given number of bytes.
package envio

import (
	"errors"
	"fmt"
	"io"

	"verif/mc/engine/choice"
)

// Reader delivers data in chunks decided by the explorer. It never returns (0, nil) for a
// non-empty buffer.
type Reader struct {
	Data     []byte
	E        *choice.Exec
	AllSizes bool // true: every 1 <= n < max is an alternative; false: n in {1,2,3,ceil(max/2),max-1}
	off      int
	Reads    int
	EOFGiven bool
	Sizes    []int // delivered chunk sizes (for reporting)
}

// Read implements io.Reader.
func (r *Reader) Read(p []byte) (int, error) {
	if len(p) == 0 {
		return 0, nil
	}
	r.Reads++
	if r.Reads > 1<<20 {
		panic("controlled reader polled more than 2^20 times")
	}
	rem := len(r.Data) - r.off
	if rem == 0 {
		r.EOFGiven = true
		return 0, io.EOF
	}
	mx := min(len(p), rem)
	// option 0: deliver mx bytes, EOF (if due) on the next call.
	// option 1 (only when mx exhausts the data): deliver mx bytes together with io.EOF.
	// further options: shorter deliveries.
	var sizes []int
	if r.AllSizes {
		for n := 1; n < mx; n++ {
			sizes = append(sizes, n)
		}
	} else {
		seen := map[int]bool{}
		for _, n := range []int{1, 2, 3, (mx + 1) / 2, mx - 1} {
			if n >= 1 && n < mx && !seen[n] {
				seen[n] = true
				sizes = append(sizes, n)
			}
		}
	}
	exhaust := mx == rem
	arity := 1 + len(sizes)
	if exhaust {
		arity++
	}
	c := r.E.Choose(arity, fmt.Sprintf("read@%d", r.off))
	n, withEOF := mx, false
	switch {
	case c == 0:
	case exhaust && c == 1:
		withEOF = true
	default:
		i := c - 1
		if exhaust {
			i--
		}
		n = sizes[i]
	}
	copy(p, r.Data[r.off:r.off+n])
	r.off += n
	r.Sizes = append(r.Sizes, n)
	if withEOF {
		r.EOFGiven = true
		return n, io.EOF
	}
	return n, nil
}

// ErrInjected is the fault injected by FaultReader and LimitWriter.
var ErrInjected = errors.New("injected I/O fault")

// FaultReader delivers Data[:At] and then fails.
type FaultReader struct {
	Data     []byte
	At       int   // number of bytes delivered before the fault
	Forever  bool  // true: the error is returned on every later call; false: once, then io.EOF
	WithData bool  // true: the error is returned together with the last delivered bytes (if At > 0)
	OneByte  bool  // true: deliver one byte per Read
	Err      error // the error to fail with (nil: ErrInjected)
	Resume   bool  // true: the fault is transient - after the error has been returned once the remaining data is delivered (like iotest.TimeoutReader, a deadline that was extended, a retried network read)
	off      int
	faulted  bool
	After    int // Read calls after the fault
	Reads    int
}

// ErrPolledTooOften is the panic value when a consumer keeps polling a failed reader.
const ErrPolledTooOften = "reader polled more than 2000 times after the fault (non-terminating retry loop)"

// Read implements io.Reader.
func (r *FaultReader) Read(p []byte) (int, error) {
	if len(p) == 0 {
		return 0, nil
	}
	r.Reads++
	if r.faulted && r.Resume {
		if r.off >= len(r.Data) {
			return 0, io.EOF
		}
		n := copy(p, r.Data[r.off:])
		if r.OneByte {
			n = 1
		}
		r.off += n
		return n, nil
	}
	if r.faulted {
		r.After++
		if r.After > 2000 {
			panic(ErrPolledTooOften)
		}
		if r.Forever {
			return 0, r.fault()
		}
		return 0, io.EOF
	}
	rem := r.At - r.off
	if rem == 0 {
		r.faulted = true
		return 0, r.fault()
	}
	n := min(len(p), rem)
	if r.OneByte {
		n = 1
	}
	copy(p, r.Data[r.off:r.off+n])
	r.off += n
	if r.off == r.At && r.WithData {
		r.faulted = true
		return n, r.fault()
	}
	return n, nil
}

func (r *FaultReader) fault() error {
	if r.Err != nil {
		return r.Err
	}
	return ErrInjected
}

// LimitWriter accepts Limit bytes in total and then fails forever (or, with Once, fails the one
// Write call that crosses the limit and accepts everything again afterwards).
type LimitWriter struct {
	Limit    int
	Once     bool
	Got      []byte
	Failures int
	Calls    int
}

// Write implements io.Writer.
func (w *LimitWriter) Write(p []byte) (int, error) {
	w.Calls++
	room := w.Limit - len(w.Got)
	if len(p) <= room || (w.Once && w.Failures > 0) {
		w.Got = append(w.Got, p...)
		return len(p), nil
	}
	w.Got = append(w.Got, p[:room]...)
	w.Failures++
	return room, ErrInjected
}

// RichLimitWriter is a LimitWriter that also offers the optional writer interfaces a library may look
// for and take a fast path on: io.ByteWriter, io.StringWriter and io.ReaderFrom (what bytes.Buffer,
// bufio.Writer, os.File and strings.Builder offer). Every path shares the one byte budget.
type RichLimitWriter struct{ LimitWriter }

// WriteByte implements io.ByteWriter.
func (w *RichLimitWriter) WriteByte(c byte) error {
	_, err := w.Write([]byte{c})
	return err
}

// WriteString implements io.StringWriter.
func (w *RichLimitWriter) WriteString(s string) (int, error) { return w.Write([]byte(s)) }

// ReadFrom implements io.ReaderFrom.
func (w *RichLimitWriter) ReadFrom(r io.Reader) (int64, error) {
	var total int64
	buf := make([]byte, 512)
	for {
		n, err := r.Read(buf)
		if n > 0 {
			k, werr := w.Write(buf[:n])
			total += int64(k)
			if werr != nil {
				return total, werr
			}
		}
		if err == io.EOF {
			return total, nil
		}
		if err != nil {
			return total, err
		}
	}
}

// RichSource is an in-memory source that, besides Read, offers the optional interfaces a decoder may
// look for and take another path on: io.ByteScanner, io.WriterTo, io.Seeker, io.ReaderAt, io.Closer and
// Len (what bytes.Reader, strings.Reader, bufio.Reader and os.File offer between them). All paths walk
// the same data. SeekFails makes Seek fail the way it does on a pipe-backed *os.File; Closed counts
// Close calls (the source belongs to the caller: a decoder has no business closing it).
type RichSource struct {
	Data      []byte
	SeekFails bool
	Chunk     int // > 0: at most Chunk bytes per Read
	off       int
	Closed    int
	Seeks     int
}

func (s *RichSource) Read(p []byte) (int, error) {
	if s.off >= len(s.Data) {
		return 0, io.EOF
	}
	n := copy(p, s.Data[s.off:])
	if s.Chunk > 0 && n > s.Chunk {
		n = s.Chunk
	}
	s.off += n
	return n, nil
}

func (s *RichSource) ReadByte() (byte, error) {
	if s.off >= len(s.Data) {
		return 0, io.EOF
	}
	s.off++
	return s.Data[s.off-1], nil
}

func (s *RichSource) UnreadByte() error {
	if s.off == 0 {
		return errors.New("RichSource.UnreadByte: at beginning")
	}
	s.off--
	return nil
}

func (s *RichSource) WriteTo(w io.Writer) (int64, error) {
	n, err := w.Write(s.Data[s.off:])
	s.off += n
	return int64(n), err
}

func (s *RichSource) Seek(offset int64, whence int) (int64, error) {
	s.Seeks++
	if s.SeekFails {
		return 0, errors.New("seek: illegal seek")
	}
	var abs int64
	switch whence {
	case io.SeekStart:
		abs = offset
	case io.SeekCurrent:
		abs = int64(s.off) + offset
	case io.SeekEnd:
		abs = int64(len(s.Data)) + offset
	}
	if abs < 0 {
		return 0, errors.New("seek: negative position")
	}
	s.off = int(min(abs, int64(len(s.Data))))
	return abs, nil
}

func (s *RichSource) ReadAt(p []byte, off int64) (int, error) {
	if off >= int64(len(s.Data)) {
		return 0, io.EOF
	}
	n := copy(p, s.Data[off:])
	if n < len(p) {
		return n, io.EOF
	}
	return n, nil
}

func (s *RichSource) Close() error { s.Closed++; return nil }

func (s *RichSource) Len() int { return len(s.Data) - s.off }
