package props

import (
	"bytes"
	"fmt"
	"io"
	"math"
	"sort"
	"strconv"
	"strings"

	"github.com/fluhus/biostuff/formats/sam"

	"verif/mc/engine/core"
	"verif/mc/engine/enum"
)

func init() { register("C03", "exploration", runC03) }

// samTag is a JSON-serialisable typed tag value.
type samTag struct {
	Name string `json:"name"`
	Type string `json:"type"` // A i f Z H
	A    int    `json:"a,omitempty"`
	I    int    `json:"i,omitempty"`
	F    string `json:"f,omitempty"` // float written with strconv 'g' -1, or NaN/+Inf/-Inf/-0
	Z    core.S `json:"z,omitempty"`
	H    []int  `json:"h,omitempty"`
}

func (t samTag) value() any {
	switch t.Type {
	case "A":
		return byte(t.A)
	case "i":
		return t.I
	case "f":
		return parseF(t.F)
	case "Z":
		return string(t.Z)
	case "H":
		b := make([]byte, len(t.H))
		for i, x := range t.H {
			b[i] = byte(x)
		}
		return b
	}
	panic("bad tag type " + t.Type)
}

func parseF(s string) float64 {
	switch s {
	case "NaN":
		return math.NaN()
	case "+Inf":
		return math.Inf(1)
	case "-Inf":
		return math.Inf(-1)
	case "-0":
		return math.Copysign(0, -1)
	case "":
		return 0
	}
	if f, err := strconv.ParseFloat(s, 64); err == nil {
		return f
	}
	var f float64
	fmt.Sscanf(s, "%g", &f)
	return f
}

type samRec struct {
	Qname core.S   `json:"qname"`
	Flag  int      `json:"flag"`
	Rname core.S   `json:"rname"`
	Pos   int      `json:"pos"`
	Mapq  int      `json:"mapq"`
	Cigar core.S   `json:"cigar"`
	Rnext core.S   `json:"rnext"`
	Pnext int      `json:"pnext"`
	Tlen  int      `json:"tlen"`
	Seq   core.S   `json:"seq"`
	Qual  core.S   `json:"qual"`
	Tags  []samTag `json:"tags,omitempty"`
}

func (r samRec) build() *sam.SAM {
	s := &sam.SAM{Qname: string(r.Qname), Flag: sam.Flag(r.Flag), Rname: string(r.Rname), Pos: r.Pos, Mapq: r.Mapq,
		Cigar: string(r.Cigar), Rnext: string(r.Rnext), Pnext: r.Pnext, Tlen: r.Tlen, Seq: string(r.Seq), Qual: string(r.Qual)}
	if len(r.Tags) > 0 {
		s.Tags = map[string]any{}
		for _, t := range r.Tags {
			s.Tags[t.Name] = t.value()
		}
	}
	return s
}

func defaultSamRec() samRec {
	return samRec{Qname: "x", Rname: "x", Cigar: "x", Rnext: "x", Seq: "x", Qual: "x"}
}

// samTextMenu: sharp field contents (no TAB/CR/LF).
func samTextMenu() []string {
	m := enum.AllStrings("a\",@ ", 2)
	m = append(m, `"a"`, `a"b"`, `"a"b`, `""a`, "\x00", "\x7f", "\x80\xff", "a'b", `\"`, "#", "*")
	m = append(m, "HD", "a@HD", "x:y:z", "é", "\xc5\x81", "日本", "\xe2\x80\xa8", "\xc2\x85", "\xef\xbb\xbfx", "a\xc2\xa0b")
	return m
}

var samIntMenu = []int{1, -1, 4095, math.MaxInt64, math.MinInt64}

// writeSAMChecked writes one record with Write and MarshalText and checks the line shape.
func writeSAMChecked(s *sam.SAM) ([]byte, string) {
	var w bytes.Buffer
	var werr, merr error
	var mt []byte
	if p := catch(func() { werr = s.Write(&w); mt, merr = s.MarshalText() }); p != "" {
		return nil, "Write/MarshalText panicked: " + p
	}
	if werr != nil || merr != nil {
		return nil, fmt.Sprintf("Write/MarshalText returned an error: %v %v", werr, merr)
	}
	if !bytes.Equal(w.Bytes(), mt) {
		// tags are emitted in sorted order, so both must agree byte for byte
		return nil, fmt.Sprintf("MarshalText %q differs from Write %q", mt, w.Bytes())
	}
	out := w.Bytes()
	if len(out) == 0 || out[len(out)-1] != '\n' || bytes.ContainsAny(out[:len(out)-1], "\n\r") {
		return nil, fmt.Sprintf("record is not written as exactly one line: %q", out)
	}
	fields := strings.Split(string(out[:len(out)-1]), "\t")
	if len(fields) != 11+len(s.Tags) {
		return nil, fmt.Sprintf("written line has %d fields, want %d: %q", len(fields), 11+len(s.Tags), out)
	}
	var names []string
	for _, f := range fields[11:] {
		if len(f) < 2 {
			return nil, fmt.Sprintf("malformed tag field %q", f)
		}
		names = append(names, f[:2])
	}
	if !sort.StringsAreSorted(names) {
		return nil, fmt.Sprintf("tags are not written in sorted order: %q", out)
	}
	return out, ""
}

func readSAMAll(data []byte) ([]obsItem, string) {
	items, p, over := collect2(sam.Reader(bytes.NewReader(data)), renderSAM, 1<<16)
	if over {
		p = "iterator did not end"
	}
	return items, p
}

func readSAMHeaderAll(data []byte) ([]obsItem, string) {
	items, p, over := collect2(sam.ReaderHeader(bytes.NewReader(data)), renderSAMOrHeader, 1<<16)
	if over {
		p = "iterator did not end"
	}
	return items, p
}

func checkSAMRoundTrip(rec samRec) core.Outcome {
	s := rec.build()
	want := renderSAM(rec.build())
	data, fail := writeSAMChecked(s)
	if fail != "" {
		return core.Failf("%s (record %s)", fail, want)
	}
	if renderSAM(s) != want {
		return core.Failf("Write modified the record")
	}
	got, p := readSAMAll(data)
	if p != "" {
		return core.Failf("Reader panicked/hung on %q: %s", data, p)
	}
	if len(got) != 1 || got[0].IsErr() || got[0].Rec != want {
		return core.Failf("record %s is written as %q and read back as %s", want, data, renderObs(got))
	}
	return core.Outcome{}
}

type c03File struct {
	Lines []int `json:"lines"` // indices into the line pool (0..3 headers, 4.. records)
}

type c03Flag struct {
	Value int `json:"flag_value"`
}

var samHeaders = []string{"@HD\tVN:1.0", "@CO\ta \"b\" c", "@CO\t\"q\"", "@SQ\tSN:x\t",
	"@RG\tID:1\tPL:x\tPU:y\tLB:z\tSM:s\tCN:c\tDS:d\tDT:t\tPI:9\tPG:p", // 11 fields
	"@CO\t0\tr\t1\t9\t1M\t*\t0\t0\tA\tI\tNM:i:0",                      // 12 fields that look like an alignment
	"@\t\t\t\t\t\t\t\t\t\t\t\t\t"}                                     // 14 empty fields

func samRecordPool() []samRec {
	d := defaultSamRec()
	p := []samRec{d, d, d, d, d, d}
	p[0].Qname = "r0"
	p[1].Qname, p[1].Qual, p[1].Tags = "r1", `"II`, []samTag{{Name: "NM", Type: "i", I: 3}}
	p[2].Qname, p[2].Seq, p[2].Flag = "r2", `A"C`, 99
	p[3].Qname, p[3].Rname, p[3].Tags = "", `"`, []samTag{{Name: "XA", Type: "Z", Z: `"z"`}, {Name: "NM", Type: "f", F: "1.5"}}
	p[4].Qname, p[4].Cigar, p[4].Pos = "r,4", "", -1
	p[5].Qname, p[5].Qual = `"r5"`, `""`
	return p
}

func runC03(r *core.Run) {
	defer everyLength(r)
	racePass(r, "race-format-sam", "the sam codec: readers each on their own stream (whole and in 7-byte reads, every corpus file), Write on shared records into separate destinations, File on one shared path; every result is compared with what the same call returned when it ran alone")
	firstCallClause(r, "sam.")
	texts := samTextMenu()
	qnames := []string{}
	for _, t := range texts {
		if !strings.HasPrefix(t, "@") {
			qnames = append(qnames, t)
		}
	}
	dev := core.Pick(r, 2, 3)
	r.Bound("fields", fmt.Sprintf("11 mandatory fields; text fields default 'x' with a menu of %d strings (all of {a,\",comma,@,space}^<=2 plus quote patterns, 0x00, 0x7f, 0x80 0xff, ', backslash-quote, #, *; Qname without @-leading strings), int fields default 0 with menu %v; every record with <= %d deviating fields", len(texts), samIntMenu, dev))
	// field order: 0 Qname 1 Flag 2 Rname 3 Pos 4 Mapq 5 Cigar 6 Rnext 7 Pnext 8 Tlen 9 Seq 10 Qual
	isInt := map[int]bool{1: true, 3: true, 4: true, 7: true, 8: true}
	menus := make([]int, 11)
	for i := range menus {
		switch {
		case isInt[i]:
			menus[i] = len(samIntMenu)
		case i == 0:
			menus[i] = len(qnames)
		default:
			menus[i] = len(texts)
		}
	}
	core.Clause(r, "fields", core.Opts{Rule: "deviation-bounded tuples over the 11 mandatory fields (see bounds), each record written and read back; non-trivial = at least one deviating field"},
		func(emit func(samRec) bool) {
			enum.Deviations(menus, dev, func(t []int) bool {
				rec := defaultSamRec()
				txt := []*core.S{&rec.Qname, nil, &rec.Rname, nil, nil, &rec.Cigar, &rec.Rnext, nil, nil, &rec.Seq, &rec.Qual}
				ints := []*int{nil, &rec.Flag, nil, &rec.Pos, &rec.Mapq, nil, nil, &rec.Pnext, &rec.Tlen, nil, nil}
				for i, a := range t {
					if a < 0 {
						continue
					}
					switch {
					case isInt[i]:
						*ints[i] = samIntMenu[a]
					case i == 0:
						*txt[i] = core.S(qnames[a])
					default:
						*txt[i] = core.S(texts[a])
					}
				}
				return emit(rec)
			})
		},
		func(rec samRec) core.Outcome {
			if out := checkSAMRoundTrip(rec); out.Fail != "" {
				return out
			}
			d := defaultSamRec()
			nd := 0
			for _, b := range []bool{rec.Qname != d.Qname, rec.Flag != 0, rec.Rname != d.Rname, rec.Pos != 0, rec.Mapq != 0, rec.Cigar != d.Cigar, rec.Rnext != d.Rnext, rec.Pnext != 0, rec.Tlen != 0, rec.Seq != d.Seq, rec.Qual != d.Qual} {
				if b {
					nd++
				}
			}
			return core.Outcome{Class: fmt.Sprint("deviations=", nd), Nontrivial: nd > 0, Evals: 3}
		})

	core.Clause(r, "all-bytes-fields", core.Opts{Rule: "every byte value except TAB, CR, LF in every text field (Qname, Rname, Cigar, Rnext, Seq, Qual) and in a Z tag: alone, first, in the middle, last ('@' not first in Qname); non-trivial = all"},
		func(emit func(samRec) bool) {
			for b := 0; b < 256; b++ {
				if b == '\t' || b == '\r' || b == '\n' {
					continue
				}
				for fi := 0; fi < 7; fi++ {
					for _, v := range []string{string([]byte{byte(b)}), string([]byte{byte(b), 'a'}), string([]byte{'a', byte(b), 'c'}), string([]byte{'a', byte(b)})} {
						if fi == 0 && v[0] == '@' {
							continue
						}
						rec := defaultSamRec()
						switch fi {
						case 0:
							rec.Qname = core.S(v)
						case 1:
							rec.Rname = core.S(v)
						case 2:
							rec.Cigar = core.S(v)
						case 3:
							rec.Rnext = core.S(v)
						case 4:
							rec.Seq = core.S(v)
						case 5:
							rec.Qual = core.S(v)
						case 6:
							rec.Tags = []samTag{{Name: "XZ", Type: "Z", Z: core.S(v)}}
						}
						if !emit(rec) {
							return
						}
					}
				}
			}
		},
		func(rec samRec) core.Outcome {
			if out := checkSAMRoundTrip(rec); out.Fail != "" {
				return out
			}
			return core.Outcome{Class: "ok", Nontrivial: true, Evals: 3}
		})

	var slens []int
	for l := 0; l <= 120; l++ {
		slens = append(slens, l)
	}
	for _, c := range []int{4096, 8192, 65536} {
		for l := (c - 60) / 2; l <= (c+8)/2; l++ {
			slens = append(slens, l)
		}
	}
	slens = append(slens, 65536, 65537, 131072, core.Pick(r, 500000, 4000000))
	r.Bound("long-lines", "a file of a header and three alignment lines whose middle line has Seq and Qual of every length 0..120, every length such that the line length sweeps [c-60, c+8] for c in {4096, 8192, 65536} (internal buffer sizes), 65536, 65537, 131072 and one larger; also the same lengths in a Z tag")
	core.Clause(r, "long-lines", core.Opts{Rule: "alignment lines of every listed length between two ordinary lines; all three records must come back identical; non-trivial = length >= 2"},
		func(emit func(c03Flag) bool) {
			for _, l := range slens {
				if !emit(c03Flag{l}) || !emit(c03Flag{-l - 1}) {
					return
				}
			}
		},
		func(c c03Flag) core.Outcome {
			l, inTag := c.Value, false
			if l < 0 {
				l, inTag = -l-1, true
			}
			mid := defaultSamRec()
			mid.Qname = "long"
			if inTag {
				mid.Tags = []samTag{{Name: "XZ", Type: "Z", Z: core.S(longSeq(2 * l))}, {Name: "NM", Type: "i", I: 7}}
			} else {
				mid.Seq, mid.Qual = core.S(longSeq(l)), core.S(strings.Repeat("I\"J#", l/4+1)[:l])
			}
			first, last := defaultSamRec(), defaultSamRec()
			first.Qname, last.Qname = "first", "last"
			var file bytes.Buffer
			file.WriteString("@HD\tVN:1.6\n")
			var want []obsItem
			for _, rc := range []samRec{first, mid, last} {
				d, fail := writeSAMChecked(rc.build())
				if fail != "" {
					return core.Failf("%s", fail)
				}
				file.Write(d)
				want = append(want, obsItem{Rec: renderSAM(rc.build())})
			}
			got, p := readSAMAll(file.Bytes())
			if p != "" {
				return core.Failf("Reader panicked/hung on a line with %d-byte fields: %s", l, p)
			}
			if !sameShape(got, want) {
				return core.Failf("a file whose middle alignment line has fields of %d bytes (line length %d, in tag: %v) reads back as %s", l, len(file.Bytes())-60, inTag, trunc(renderObs(got), 300))
			}
			return core.Outcome{Class: fmt.Sprint("tag=", inTag), Nontrivial: l >= 2, Evals: 4}
		})

	firstBytes(r, "sam", func(prefix string) ([]byte, []obsItem, bool, string) {
		if hasDelim(prefix) || prefix[0] == '@' {
			return nil, nil, false, ""
		}
		first, second := defaultSamRec(), defaultSamRec()
		first.Qname, second.Qname = core.S(prefix+"q"), "second"
		var data []byte
		var want []obsItem
		for _, rc := range []samRec{first, second} {
			d, fail := writeSAMChecked(rc.build())
			if fail != "" {
				return nil, nil, true, fail
			}
			data = append(data, d...)
			want = append(want, obsItem{Rec: renderSAM(rc.build())})
		}
		return data, want, true, ""
	})
	samFieldNames := []string{"qname", "rname", "cigar", "rnext", "seq", "qual", "ztag", "ztag-last"}
	samFields := func(field string, vals []string) ([]byte, []obsItem, bool, string) {
		first, last := defaultSamRec(), defaultSamRec()
		first.Qname, last.Qname = "first", "last"
		recs := []samRec{first}
		for _, v := range vals {
			if hasDelim(v) || (field == "qname" && (v == "" || v[0] == '@')) {
				return nil, nil, false, ""
			}
			mid := defaultSamRec()
			switch field {
			case "qname":
				mid.Qname = core.S(v)
			case "rname":
				mid.Rname = core.S(v)
			case "cigar":
				mid.Cigar = core.S(v)
			case "rnext":
				mid.Rnext = core.S(v)
			case "seq":
				mid.Seq = core.S(v)
			case "qual":
				mid.Qual = core.S(v)
			case "ztag":
				mid.Tags = []samTag{{Name: "XZ", Type: "Z", Z: core.S(v)}, {Name: "NM", Type: "i", I: 7}}
			default:
				mid.Tags = []samTag{{Name: "ZZ", Type: "Z", Z: core.S(v)}}
			}
			recs = append(recs, mid)
		}
		recs = append(recs, last)
		var data []byte
		var want []obsItem
		for _, rc := range recs {
			d, fail := writeSAMChecked(rc.build())
			if fail != "" {
				return nil, nil, true, fail
			}
			data = append(data, d...)
			want = append(want, obsItem{Rec: renderSAM(rc.build())})
		}
		return data, want, true, ""
	}
	escapeSpellingsClause(r, "sam", samFieldNames, samFields)
	relativesClause(r, "sam", samFieldNames, samFields)
	interleavedReadersFor(r, []string{"sam", "samh"})
	consumerMutatesRecords(r, []string{"sam", "samh"})
	bigFiles(r, "sam", []int{0})

	r.Bound("marked-offsets", markBounds+"; fields Qname / Seq / Qual / a Z tag, bytes '@', ':'"+core.Pick(r, "", " and '*', '=', ' ', 0x00, 0xFF")+"; '@' never first in Qname (that is a header line)")
	core.Clause(r, "marked-offsets", core.Opts{Rule: "a format-vocabulary byte at EVERY offset of a long Qname, Seq, Qual or Z tag (it meets every internal buffer boundary of the reader); written, read back as the middle alignment line of three; non-trivial = all"},
		genMarks([]string{"qname", "seq", "qual", "ztag"}, core.Pick(r, []int{'@', ':'}, []int{'@', '*', '=', ':', ' ', 0x00, 0xFF}), func(f string, b, off int) bool { return f == "qname" && b == '@' && off == 0 }),
		func(c markCase) core.Outcome {
			mid := defaultSamRec()
			mid.Qname = "long"
			switch c.Field {
			case "qname":
				mid.Qname = core.S(markedField(c, 'q'))
			case "seq":
				mid.Seq, mid.Qual = core.S(markedField(c, 'A')), core.S(bytes.Repeat([]byte{'I'}, c.Len))
			case "qual":
				mid.Seq, mid.Qual = core.S(bytes.Repeat([]byte{'A'}, c.Len)), core.S(markedField(c, 'I'))
			case "ztag":
				mid.Tags = []samTag{{Name: "XZ", Type: "Z", Z: core.S(markedField(c, 'z'))}, {Name: "NM", Type: "i", I: 7}}
			}
			first, last := defaultSamRec(), defaultSamRec()
			first.Qname, last.Qname = "first", "last"
			var file bytes.Buffer
			file.WriteString("@HD\tVN:1.6\n")
			var want []obsItem
			for _, rc := range []samRec{first, mid, last} {
				d, fail := writeSAMChecked(rc.build())
				if fail != "" {
					return core.Failf("%s", fail)
				}
				file.Write(d)
				want = append(want, obsItem{Rec: renderSAM(rc.build())})
			}
			got, p := readSAMAll(file.Bytes())
			if p != "" {
				return core.Failf("Reader panicked/hung: %s of %d bytes with %q at offset %d: %s", c.Field, c.Len, byte(c.Byte), c.Offset, p)
			}
			if !sameShape(got, want) {
				return core.Failf("%s of %d bytes with %q at offset %d reads back as %s", c.Field, c.Len, byte(c.Byte), c.Offset, trunc(renderObs(got), 300))
			}
			return core.Outcome{Class: c.Field, Nontrivial: true, Evals: 4}
		})

	// tags
	var full []samTag
	for b := 0x21; b <= 0x7e; b++ {
		full = append(full, samTag{Type: "A", A: b})
	}
	for _, v := range []int{0, -1, math.MaxInt64, math.MinInt64} {
		full = append(full, samTag{Type: "i", I: v})
	}
	for _, v := range append([]string{"0", "-0", "1.5", "0.1", "1e+300", "5e-324", "1.7976931348623157e+308", "NaN", "+Inf", "-Inf", "-2.5e-07"}, sharpFloats()...) {
		full = append(full, samTag{Type: "f", F: v})
	}
	for _, v := range append(samTextMenu(), ":", "a:b", "::", "Z:", `":"`) {
		full = append(full, samTag{Type: "Z", Z: core.S(v)})
	}
	for _, v := range [][]int{{}, {0}, {255, 0}, {0, 1, 2, 3, 4, 5, 6, 7, 8, 9, 10, 11, 12, 13, 14, 254}} {
		full = append(full, samTag{Type: "H", H: v})
	}
	reduced := []samTag{{Type: "A", A: '"'}, {Type: "A", A: ':'}, {Type: "A", A: 'a'}, {Type: "i", I: -1}, {Type: "i", I: math.MinInt64},
		{Type: "f", F: "NaN"}, {Type: "f", F: "-0"}, {Type: "f", F: "0.1"}, {Type: "f", F: "+Inf"}, {Type: "Z", Z: ""}, {Type: "Z", Z: `"`}, {Type: "Z", Z: `"a"`},
		{Type: "Z", Z: "a:b"}, {Type: "Z", Z: " "}, {Type: "H", H: []int{}}, {Type: "H", H: []int{255, 0}}}
	names := []string{"NM", "XA", "Xb"}
	maxTags := core.Pick(r, 2, 3)
	r.Bound("tags", fmt.Sprintf("tag names %v; single tags over the full value menu (%d values: A all printable 0x21..0x7e, i extremes, f incl. NaN/Inf/-0/subnormal/max and 40 sharp values (exactly-float32 values such as float64(float32(0.1)) and MaxFloat32, 2^24+1, 2^53.., 1e21/1e22, neighbours of 1, smallest normal, notation-switch magnitudes), Z sharp strings incl. colons and quotes, H incl. empty); tag sets of size 2..%d over a reduced menu of %d values", names, len(full), maxTags, len(reduced)))
	// EVERY number of tags on one record (the tag sets above stop at 3): a reader that splits a line into
	// at most so many fields, or a writer that sorts tags in a fixed-size array, is wrong from one count on.
	type c03Many struct {
		Count int    `json:"tags"`
		Types string `json:"types"`
	}
	manyTags := core.Pick(r, 300, 1500)
	r.Bound("many-tags", fmt.Sprintf("one record with EVERY number of tags 0..%d (distinct names over [A-Za-z][A-Za-z0-9], types Z only / i only / cycling A,i,f,Z,H), between two ordinary records", manyTags))
	core.Clause(r, "many-tags", core.Opts{Rule: "a record with n tags for every n of the range, written between two ordinary records and read back (Reader and ReaderHeader); all three records identical, tags in ascending order in the text; non-trivial = n >= 2"},
		func(emit func(c03Many) bool) {
			for n := 0; n <= manyTags; n++ {
				for _, ty := range []string{"Z", "i", "AifZH"} {
					if !emit(c03Many{n, ty}) {
						return
					}
				}
			}
		},
		func(c c03Many) core.Outcome {
			mk := func(q string) *sam.SAM {
				return &sam.SAM{Qname: q, Flag: 99, Rname: "chr1", Pos: 7, Mapq: 60, Cigar: "4M", Rnext: "=", Pnext: 40, Tlen: 37, Seq: "ACGT", Qual: "IIII", Tags: map[string]any{"NM": 1}}
			}
			long := mk("many")
			delete(long.Tags, "NM")
			const first, second = "ABCDEFGHIJKLMNOPQRSTUVWXYZabcdefghijklmnopqrstuvwxyz", "ABCDEFGHIJKLMNOPQRSTUVWXYZabcdefghijklmnopqrstuvwxyz0123456789"
			for i := 0; i < c.Count; i++ {
				j := (i*37 + 11) % (len(first) * len(second)) // not in sorted order
				name := string([]byte{first[j/len(second)], second[j%len(second)]})
				switch c.Types[i%len(c.Types)] {
				case 'A':
					long.Tags[name] = byte('!' + i%90)
				case 'i':
					long.Tags[name] = i*7 - 100
				case 'f':
					long.Tags[name] = float64(i) + 0.25
				case 'Z':
					long.Tags[name] = fmt.Sprint("v", i, " x:y")
				default:
					long.Tags[name] = []byte{byte(i), 0, 255}
				}
			}
			if len(long.Tags) != c.Count {
				return core.Outcome{Class: "HARNESS tag names collide", Skip: true}
			}
			recs := []*sam.SAM{mk("prev"), long, mk("next")}
			var want []string
			var ws []writerTo
			for _, x := range recs {
				want = append(want, renderSAM(x))
				ws = append(ws, x)
			}
			w, m, fail := elWrite(ws)
			if fail != "" {
				return core.Failf("record with %d tags: %s", c.Count, fail)
			}
			if !bytes.Equal(w, m) {
				return core.Failf("record with %d tags: Write and MarshalText give different bytes", c.Count)
			}
			lines := bytes.Split(bytes.TrimSuffix(w, []byte("\n")), []byte("\n"))
			if len(lines) != 3 {
				return core.Failf("record with %d tags: three records were written as %d lines", c.Count, len(lines))
			}
			if f := bytes.Split(lines[1], []byte("\t")); len(f) != 11+c.Count {
				return core.Failf("record with %d tags is written with %d fields", c.Count, len(f))
			} else {
				for i := 12; i < len(f); i++ {
					if bytes.Compare(f[i-1][:2], f[i][:2]) >= 0 {
						return core.Failf("record with %d tags: tags are not written in ascending order (%q before %q)", c.Count, f[i-1], f[i])
					}
				}
			}
			items, p, _ := collect2(sam.Reader(bytes.NewReader(w)), renderSAM, 8)
			hitems, hp, _ := collect2(sam.ReaderHeader(bytes.NewReader(w)), renderSAMOrHeader, 8)
			for _, v := range []struct {
				how   string
				items []obsItem
				p     string
			}{{"Reader", items, p}, {"ReaderHeader", hitems, hp}} {
				if v.p != "" {
					return core.Failf("record with %d tags: %s panicked: %s", c.Count, v.how, v.p)
				}
				if len(v.items) != 3 {
					return core.Failf("record with %d tags between two records: %s yields %d items: %s", c.Count, v.how, len(v.items), trunc(renderObs(v.items), 300))
				}
				for i := range want {
					if v.items[i].IsErr() || v.items[i].Rec != want[i] {
						return core.Failf("record with %d tags (%s): %s item %d is %s, written %s", c.Count, c.Types, v.how, i, clipS(renderObs(v.items[i:i+1]), 300), clipS(want[i], 300))
					}
				}
			}
			return core.Outcome{Class: c.Types, Nontrivial: c.Count >= 2, Evals: 4}
		})

	core.Clause(r, "tags", core.Opts{Rule: "every tag set within the bounds on an otherwise default record, written and read back; tags must be written in ascending order; non-trivial = all"},
		func(emit func(samRec) bool) {
			for _, n := range names {
				for _, v := range full {
					rec := defaultSamRec()
					v.Name = n
					rec.Tags = []samTag{v}
					if !emit(rec) {
						return
					}
				}
			}
			enum.Subsets(len(names), maxTags, func(idx []int) bool {
				if len(idx) < 2 {
					return true
				}
				sizes := make([]int, len(idx))
				for i := range sizes {
					sizes[i] = len(reduced)
				}
				// names in both insertion orders do not matter for a map; values in every combination
				return enum.Tuples(sizes, func(t []int) bool {
					rec := defaultSamRec()
					for i, ni := range idx {
						v := reduced[t[i]]
						v.Name = names[ni]
						rec.Tags = append(rec.Tags, v)
					}
					return emit(rec)
				})
			})
		},
		func(rec samRec) core.Outcome {
			if out := checkSAMRoundTrip(rec); out.Fail != "" {
				return out
			}
			ty := ""
			for _, t := range rec.Tags {
				ty += t.Type
			}
			return core.Outcome{Class: "types=" + ty, Nontrivial: true, Evals: 3}
		})

	marshalHistories(r, "sam", func() []marshaller {
		var out []marshaller
		recs := samRecordPool()
		long := defaultSamRec()
		long.Seq, long.Qual = core.S(longSeq(200)), core.S(longSeq(200))
		recs = append(recs, long)
		for i, rc := range recs {
			s := rc.build()
			out = append(out, marshaller{fmt.Sprint("pool record ", i), s.MarshalText, func(w *bytes.Buffer) error { return s.Write(w) }, func(w io.Writer) error { return s.Write(w) }})
		}
		return out
	})

	pool := samRecordPool()
	maxLines := 3
	r.Bound("files", fmt.Sprintf("every sequence of 0..%d lines over %d headers %q and %d records (quotes in Qname/Rname/Seq/Qual/Z tags, empty fields)", maxLines, len(samHeaders), samHeaders, len(pool)))
	core.Clause(r, "files", core.Opts{Rule: "every file of up to 3 lines from the header/record pool (headers and records freely interleaved): ReaderHeader returns every line in order, headers verbatim, records equal; Reader returns exactly the records; non-trivial = at least 2 lines"},
		func(emit func(c03File) bool) {
			enum.Sequences(len(samHeaders)+len(pool), maxLines, func(sq []int) bool {
				return emit(c03File{append([]int(nil), sq...)})
			})
		},
		func(c c03File) core.Outcome {
			var file bytes.Buffer
			var wantAll, wantRecs []obsItem
			for _, li := range c.Lines {
				if li < len(samHeaders) {
					file.WriteString(samHeaders[li] + "\n")
					wantAll = append(wantAll, obsItem{Rec: fmt.Sprintf("header{%q}", samHeaders[li])})
					continue
				}
				rec := pool[li-len(samHeaders)]
				data, fail := writeSAMChecked(rec.build())
				if fail != "" {
					return core.Failf("%s", fail)
				}
				file.Write(data)
				o := obsItem{Rec: renderSAM(rec.build())}
				wantAll = append(wantAll, o)
				wantRecs = append(wantRecs, o)
			}
			gotAll, p := readSAMHeaderAll(file.Bytes())
			if p != "" {
				return core.Failf("ReaderHeader panicked/hung on %q: %s", file.Bytes(), p)
			}
			if !sameShape(gotAll, wantAll) {
				return core.Failf("ReaderHeader on %q yields %s, want %s", file.Bytes(), renderObs(gotAll), renderObs(wantAll))
			}
			gotRecs, p := readSAMAll(file.Bytes())
			if p != "" {
				return core.Failf("Reader panicked/hung on %q: %s", file.Bytes(), p)
			}
			if !sameShape(gotRecs, wantRecs) {
				return core.Failf("Reader on %q yields %s, want %s", file.Bytes(), renderObs(gotRecs), renderObs(wantRecs))
			}
			return core.Outcome{Class: fmt.Sprint("lines=", len(c.Lines)), Nontrivial: len(c.Lines) >= 2, Evals: 2}
		})

	// flags: complete
	type acc struct {
		name string
		bit  int
		get  func(sam.Flag) bool
		set  func(*sam.Flag, bool)
	}
	accs := []acc{
		{"Multiple", 0x1, sam.Flag.Multiple, (*sam.Flag).SetMultiple},
		{"Each", 0x2, sam.Flag.Each, (*sam.Flag).SetEach},
		{"Unmapped", 0x4, sam.Flag.Unmapped, (*sam.Flag).SetUnmapped},
		{"Unmapped2", 0x8, sam.Flag.Unmapped2, (*sam.Flag).SetUnmapped2},
		{"ReverseComplement", 0x10, sam.Flag.ReverseComplement, (*sam.Flag).SetReverseComplement},
		{"ReverseComplement2", 0x20, sam.Flag.ReverseComplement2, (*sam.Flag).SetReverseComplement2},
		{"First", 0x40, sam.Flag.First, (*sam.Flag).SetFirst},
		{"Last", 0x80, sam.Flag.Last, (*sam.Flag).SetLast},
		{"Secondary", 0x100, sam.Flag.Secondary, (*sam.Flag).SetSecondary},
		{"NotPassing", 0x200, sam.Flag.NotPassing, (*sam.Flag).SetNotPassing},
		{"Duplicate", 0x400, sam.Flag.Duplicate, (*sam.Flag).SetDuplicate},
		{"Supplementary", 0x800, sam.Flag.Supplementary, (*sam.Flag).SetSupplementary},
	}
	consts := []sam.Flag{sam.FlagMultiple, sam.FlagEach, sam.FlagUnmapped, sam.FlagUnmapped2, sam.FlagReverseComplement, sam.FlagReverseComplement2,
		sam.FlagFirst, sam.FlagLast, sam.FlagSecondary, sam.FlagNotPassing, sam.FlagDuplicate, sam.FlagSupplementary}
	r.Bound("flags", "every value 0..0x1FFF plus {-1, MinInt64, MaxInt64, 1<<40|0x555, -4096} x 12 getters x 12 setters x {true,false}, against the SAM specification bit table 0x1..0x800")
	core.Clause(r, "flags", core.Opts{Rule: "complete: every flag value in range x every accessor and setter; getter true iff its SAM-spec bit is set; setter changes exactly that bit and preserves all 63 others; non-trivial = all"},
		func(emit func(c03Flag) bool) {
			for v := 0; v <= 0x1fff; v++ {
				if !emit(c03Flag{v}) {
					return
				}
			}
			for _, v := range []int{-1, math.MinInt64, math.MaxInt64, 1<<40 | 0x555, -4096} {
				emit(c03Flag{v})
			}
		},
		func(c c03Flag) core.Outcome {
			for i, a := range accs {
				if int(consts[i]) != a.bit {
					return core.Failf("constant for %s is %#x, the SAM specification says %#x", a.name, int(consts[i]), a.bit)
				}
				f := sam.Flag(c.Value)
				if got, want := a.get(f), c.Value&a.bit != 0; got != want {
					return core.Failf("Flag(%#x).%s() = %v, want %v (bit %#x)", c.Value, a.name, got, want, a.bit)
				}
				for _, val := range []bool{true, false} {
					g := sam.Flag(c.Value)
					a.set(&g, val)
					want := c.Value &^ a.bit
					if val {
						want = c.Value | a.bit
					}
					if int(g) != want {
						return core.Failf("Flag(%#x).Set%s(%v) gives %#x, want %#x", c.Value, a.name, val, int(g), want)
					}
				}
			}
			return core.Outcome{Class: "ok", Nontrivial: true, Evals: 36}
		})
}
